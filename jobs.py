# Job table for ./check (exec'd by the driver). J(run, quick_checks, thorough_checks, shards=…, race=…)
PROPS = {
    "C12": [J("^TestC12Lockstep$", 2500, 12000, shards=8), J("^TestC12LockstepOnDisk$", 1, 1200, shards=6, tier="thorough")],
    "C19": [J("^TestC19", 3000, 40000, shards=8)],
}
