# Job table for ./check (exec'd by the driver). J(run, quick_checks, thorough_checks, shards=…, race=…)
PROPS = {
    "C01": [J("^TestC01Ledger$", 700, 6000, shards=8), J("^TestC01Concurrent$", 60, 400, shards=6, race=True), J("^TestC01ManagerFaults$", 3000, 30000, shards=4)],
    "C02": [J("^TestC02PoolHistories$", 600, 5000, shards=6), J("^TestC02Manager$", 4000, 60000, shards=6), J("^TestC02Slicing$", 300, 2500, shards=4)],
    "C03": [J("^TestC03MinBalance$", 900, 8000, shards=8)],
    "C04": [J("^TestC04SignedEndpoints$", 4000, 40000, shards=8)],
    "C05": [J("^TestC05NonceStore$", 1500, 10000, shards=8), J("^TestC05Replay$", 600, 5000, shards=6)],
    "C06": [J("^TestC06RefusedChangesNothing$", 1500, 12000, shards=8)],
    "C07": [J("^TestC07Withdraw$", 1200, 8000, shards=8)],
    "C08": [J("^TestC08PeerRequests$", 1500, 10000, shards=8)],
    "C09": [J("^TestC09HostRegistry$", 1200, 8000, shards=8), J("^TestC09Binary$", 40, 300, shards=3)],
    "C10": [J("^TestC10Concurrent$", 60, 400, shards=6, race=True), J("^TestC10Serialisable$", 400, 3000, shards=8), J("^TestC10Snapshots$", 1500, 12000, shards=4)],
    "C11": [J("^TestC11PeerExpiry$", 2500, 20000, shards=8)],
    "C12": [J("^TestC12Lockstep$", 2500, 12000, shards=8), J("^TestC12LockstepOnDisk$", 1, 1200, shards=6, tier="thorough")],
    "C13": [J("^TestC13Reopen$", 300, 2500, shards=6), J("^TestC13Crash$", 150, 700, shards=8), J("^TestC13ConcurrentReaders$", 60, 400, shards=2), J("^TestC13Migration$", 40, 250, shards=4)],
    "C14": [J("^TestC14Controlled$", 500, 4000, shards=8), J("^TestC14FreeRunning$", 100, 800, shards=4, race=True)],
    "C16": [J("^TestC16Library$", 4000, 40000, shards=6), J("^TestC16Binary$", 800, 6000, shards=4)],
    "C19": [J("^TestC19", 3000, 40000, shards=8)],
}
