# Job table for ./check (exec'd by the driver). J(run, quick_checks, thorough_checks, shards=…, race=…)
PROPS = {
    "C19": [J("^TestC19", 3000, 40000, shards=8)],
}
