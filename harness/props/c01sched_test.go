package props

// C01 under the harness-owned scheduler: the operations of TestC10Serialisable
// (keep-alives of clients and hosts, peer request, connect, wallet link,
// withdrawals) interleaved at every store call, with C01's own oracle. Unlike
// the serialisability check this one does not exclude the input class of the
// known C10 finding: there the individual balances match no serial order, but
// the ledger total must still be conserved.

import (
	"fmt"
	"math/big"
	"strings"
	"testing"
	"time"

	"pgregory.net/rapid"

	"verif/vt"
)

func c01InterleavedCase(rt *rapid.T, rec *vt.Rec) {
	cfg := sessCfg{Driver: rapid.SampledFrom([]string{"memory", "memory", "badger"}).Draw(rt, "driver"), Price: big.NewInt(int64(rapid.SampledFrom([]int{1, 1000, 777777}).Draw(rt, "price"))), Interval: time.Minute, Yield: true}
	// minimum balance relative to the price: the clients cross it during setup, during the interleaved operations, or never
	switch rapid.IntRange(0, 4).Draw(rt, "min") {
	case 1:
		cfg.Min = big.NewInt(0)
	case 2:
		cfg.Min = new(big.Int).Neg(cfg.Price)
	case 3:
		cfg.Min = new(big.Int).Mul(cfg.Price, big.NewInt(-2))
	}
	var pre []string
	for _, p := range []string{"linkH0", "linkC2", "credit"} {
		if rapid.Bool().Draw(rt, "pre:"+p) {
			pre = append(pre, p)
		}
	}
	poolOps := []serOp{
		{"update", 2, "keepalive(c2)"}, {"update", 3, "keepalive(c3)"}, {"hostUpdate", 0, "keepalive(h0)"}, {"hostUpdate", 1, "keepalive(h1)"},
		{"peer", 3, "peer(c3)"}, {"connect", 4, "connect(c4)"},
	}
	walletOp := rapid.SampledFrom([]serOp{{"link", 0, "link(h0->w0)"}, {"link", 2, "link(c2->w0)"}, {"link", 3, "link(c3->w0)"}, {"withdraw", 0, "withdraw(w0)"}, {"withdraw", 0, "withdraw(w0)"}, {"withdraw", 0, "withdraw(w0)"}, {}}).Draw(rt, "walletOp")
	k := rapid.IntRange(2, 4).Draw(rt, "k")
	var ops []serOp
	used := map[int]bool{}
	if walletOp.Kind != "" {
		ops = append(ops, walletOp)
		if walletOp.Kind == "withdraw" && rapid.IntRange(0, 2).Draw(rt, "secondWithdraw") == 0 {
			ops = append(ops, serOp{"withdraw", 0, "withdraw#2(w0)"})
		}
	}
	for tries := 0; len(ops) < k && tries < 40; tries++ {
		o := rapid.SampledFrom(poolOps).Draw(rt, "op")
		if used[o.Agent] {
			continue
		}
		used[o.Agent] = true
		ops = append(ops, o)
	}
	if walletOp.Kind == "withdraw" {
		// give the withdrawal something to settle, and often a wallet whose nodes are billed meanwhile
		add := func(x string) {
			for _, p := range pre {
				if p == x {
					return
				}
			}
			pre = append(pre, x)
		}
		switch rapid.IntRange(0, 3).Draw(rt, "walletShape") {
		case 0:
			add("linkH0")
			add("credit")
		case 1:
			add("linkH0")
			add("linkC2")
			add("credit")
			if !used[2] && len(ops) < 4 {
				used[2] = true
				ops = append(ops, serOp{"update", 2, "keepalive(c2)"})
			}
		case 2:
			add("linkH0")
			add("credit")
			if !used[3] && len(ops) < 4 {
				used[3] = true
				ops = append(ops, serOp{"update", 3, "keepalive(c3)"})
			}
		}
	}
	var opNames []string
	for _, o := range ops {
		opNames = append(opNames, o.Name)
	}
	w := buildSerWorld(rt, cfg, pre)
	s := w.s
	closed := false
	defer func() {
		if !closed {
			s.close()
		}
	}()
	before, err := s.st.Stats()
	if err != nil {
		rt.Fatalf("Stats: %v", err)
	}
	var prep []serPrepared
	for _, o := range ops {
		prep = append(prep, w.prepare(o))
	}
	replies := make([]string, len(ops))
	var fns []func()
	for i := range prep {
		i := i
		fns = append(fns, func() { replies[i] = prep[i].run() })
	}
	n0 := len(s.settleLog)
	sc := newSched()
	s.ys.sc = sc
	trace := sc.run(rt, opNames, fns)
	s.ys.sc = nil
	after, err := s.st.Stats()
	if err != nil {
		rt.Fatalf("Stats: %v", err)
	}
	settled := new(big.Int)
	var settles []string
	s.mu.Lock()
	for _, c := range s.settleLog[n0:] {
		settles = append(settles, fmt.Sprintf("%s:%s ok=%v", nodeName(c.Account), c.Amount, c.OK))
		if c.OK {
			settled.Add(settled, c.Amount)
		}
	}
	s.mu.Unlock()
	want := new(big.Int).Sub(&before.TotalCredit, settled)
	if after.TotalCredit.Cmp(want) != 0 {
		closed = true
		s.close()
		rt.Fatalf("ledger total after the concurrent operations is %s, must be %s (total before %s minus the credit settled by successful withdrawals %s)\nconfig: %s pre=%v\noperations: %v\nschedule: %v\nreplies: %q\nsettlements: %v",
			after.TotalCredit.String(), want, before.TotalCredit.String(), settled, cfg, pre, opNames, trace, replies, settles)
	}
	interleaved := false
	for i := 1; i < len(trace); i++ {
		if strings.Split(trace[i], "@")[0] != strings.Split(trace[i-1], "@")[0] && i < len(trace)-1 {
			interleaved = true
		}
	}
	known := serKnownClass(pre, ops)
	rec.Case(fmt.Sprintf("c01sched|%s|%v|%v|%v", cfg.String(), pre, opNames, trace), interleaved, []string{"sched", "sched:driver:" + cfg.Driver, fmt.Sprintf("sched:withdraw-settled:%v", settled.Sign() != 0), fmt.Sprintf("sched:c10-known-class:%v", known)}, func() interface{} {
		return map[string]interface{}{"kind": "owned scheduler: interleaved operations, ledger conservation", "config": cfg.String(), "pre": pre, "ops": opNames, "schedule": trace, "replies": replies, "settlements": settles, "ledger_before": before.TotalCredit.String(), "ledger_after": after.TotalCredit.String()}
	})
}

func TestC01Interleaved(t *testing.T) {
	defer vt.Watch("TestC01Interleaved", 120*time.Second)()
	rec := vt.For("C01")
	rec.Rule("owned scheduler (every store call and the settlement are yield points, the schedule is a rapid draw): 2-4 operations of different identities - keep-alives of clients and hosts, peer request, connect, wallet link, one or two withdrawals - start together on memory/badger with and without a minimum balance; oracle at quiescence: ledger total = total before minus the credit settled by successful withdrawals (includes the input class that C10's serialisability check excludes for its known finding); non-trivial = the schedule switches between operations before the last step; distinct by config + ops + schedule")
	check(t, func(rt *rapid.T) {
		rapid.SyncTest(rt, func(rt *rapid.T) { c01InterleavedCase(rt, rec) })
	})
}
