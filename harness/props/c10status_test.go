package props

// C10 for the status service (pool_status / health): responses handed out are
// snapshots, and any number of simultaneous requests is answered.

import (
	"context"
	"encoding/json"
	"errors"
	"fmt"
	"math/big"
	"runtime"
	"sync"
	"testing"
	"testing/synctest"
	"time"

	"github.com/vipnode/vipnode/v2/pool/status"
	"github.com/vipnode/vipnode/v2/pool/store"
	"github.com/vipnode/vipnode/v2/pool/store/memory"
	"pgregory.net/rapid"

	"verif/vt"
)

// statusStore lets the test make Stats fail or wait for a rendezvous.
type statusStore struct {
	store.Store
	mu       sync.Mutex
	failNext bool
	gate     chan struct{} // when set, Stats waits for it (or 1 s)
	entered  int
}

func (s *statusStore) Stats() (*store.Stats, error) {
	s.mu.Lock()
	s.entered++
	fail, gate := s.failNext, s.gate
	s.mu.Unlock()
	if gate != nil {
		select {
		case <-gate:
		case <-time.After(time.Second):
		}
	}
	if fail {
		return nil, errors.New("scripted store failure")
	}
	return s.Store.Stats()
}

func TestC10Status(t *testing.T) {
	defer vt.Watch("TestC10Status", 120*time.Second)()
	rec := vt.For("C10")
	rec.Rule("status service in virtual time: a PoolStatus over a store whose Stats can be made to fail or to wait; rules: request (the response is kept together with its JSON at that moment), change the store (register nodes, move credit), let the cache expire, make the next refresh fail, 2-8 simultaneous requests meeting inside the refresh; oracle: every response handed out earlier still encodes to the JSON it had when it was handed out (a snapshot), every simultaneous request returns within 5 virtual seconds, nothing is left blocked; non-trivial = a failing refresh or simultaneous requests after a response was handed out; distinct by the op sequence")
	check(t, func(rt *rapid.T) {
		rapid.SyncTest(rt, func(rt *rapid.T) {
			ss := &statusStore{Store: memory.New()}
			ps := &status.PoolStatus{Store: ss, TimeStarted: time.Now(), Version: "verif", CacheDuration: time.Minute}
			if rapid.Bool().Draw(rt, "withDeposit") {
				ps.GetTotalDeposit = func(context.Context) (*big.Int, error) { return big.NewInt(12345), nil }
			}
			type held struct {
				r    *status.StatusResponse
				json string
				at   string
			}
			var helds []held
			var hist []string
			nontrivial := false
			check := func(when string) {
				for _, h := range helds {
					b, _ := json.Marshal(h.r)
					if string(b) != h.json {
						rt.Fatalf("%s: a response handed out earlier (%s) has changed under its holder:\n was %.400s\n now %.400s\nhistory: %v", when, h.at, h.json, b, hist)
					}
				}
			}
			nNode := 0
			n := rapid.IntRange(2, 10).Draw(rt, "steps")
			for i := 0; i < n; i++ {
				switch op := rapid.SampledFrom([]string{"request", "request", "mutate", "expire", "failNext", "burst"}).Draw(rt, "op"); op {
				case "request":
					r, err := ps.Status(context.Background())
					hist = append(hist, fmt.Sprintf("request -> err=%v", err))
					if r != nil {
						b, _ := json.Marshal(r)
						helds = append(helds, held{r, string(b), fmt.Sprintf("step %d", i)})
					}
					ss.mu.Lock()
					ss.failNext = false
					ss.mu.Unlock()
				case "mutate":
					nNode++
					id := store.NodeID(fmt.Sprintf("node%d", nNode))
					ss.Store.SetNode(store.Node{ID: id, IsHost: nNode%2 == 0, LastSeen: time.Now(), Kind: "geth"})
					ss.Store.AddNodeBalance(id, big.NewInt(int64(1000*nNode)))
					hist = append(hist, "store changes")
				case "expire":
					time.Sleep(61 * time.Second)
					hist = append(hist, "cache expires")
				case "failNext":
					ss.mu.Lock()
					ss.failNext = true
					ss.mu.Unlock()
					hist = append(hist, "next refresh fails")
					if len(helds) > 0 {
						nontrivial = true
					}
				case "burst":
					time.Sleep(61 * time.Second)
					k := rapid.IntRange(2, 8).Draw(rt, "simultaneous")
					gate := make(chan struct{})
					ss.mu.Lock()
					ss.gate, ss.entered = gate, 0
					ss.mu.Unlock()
					var wg sync.WaitGroup
					var dmu sync.Mutex
					done := 0
					for j := 0; j < k; j++ {
						wg.Add(1)
						go func() {
							defer wg.Done()
							r, _ := ps.Status(context.Background())
							dmu.Lock()
							done++
							if r != nil {
								b, _ := json.Marshal(r)
								helds = append(helds, held{r, string(b), fmt.Sprintf("burst at step %d", i)})
							}
							dmu.Unlock()
						}()
					}
					// wait (in real terms) until one request is inside the refresh and the others queue up behind it; they
					// wait on a lock, which is not a durable block, so the bubble's own Wait cannot be used here
					for spin := 0; spin < 200000; spin++ {
						ss.mu.Lock()
						in := ss.entered
						ss.mu.Unlock()
						if in > 0 && spin > 2000 {
							break
						}
						runtime.Gosched()
					}
					close(gate)
					ss.mu.Lock()
					ss.gate = nil
					ss.mu.Unlock()
					time.Sleep(5 * time.Second)
					synctest.Wait()
					dmu.Lock()
					d := done
					dmu.Unlock()
					hist = append(hist, fmt.Sprintf("%d simultaneous requests with an expired cache -> %d answered", k, d))
					if d != k {
						fmt.Printf("C10 FAILURE DETAIL: %d simultaneous status requests with an expired cache: only %d were answered within 5 s (the others are blocked for good); history %v\n", k, d, hist)
						rt.Fatalf("%d simultaneous status requests with an expired cache: only %d were answered within 5 s; history %v", k, d, hist)
					}
					wg.Wait()
					nontrivial = true
				}
				check(fmt.Sprintf("after step %d", i))
			}
			time.Sleep(time.Hour)
			synctest.Wait()
			if left := bubbleLeftovers(); len(left) > 0 {
				rt.Fatalf("goroutines still blocked at the end: %v", left)
			}
			rec.Case(fmt.Sprintf("status|%v", hist), nontrivial, []string{"status"}, func() interface{} {
				return map[string]interface{}{"kind": "status service snapshots and simultaneous requests", "history": hist}
			})
		})
	})
}
