package props

// C08 — peer requests return only eligible hosts that already whitelisted the requester.

import (
	"fmt"
	"math/big"
	"sort"
	"strings"
	"sync"
	"testing"
	"testing/synctest"
	"time"

	"github.com/vipnode/vipnode/v2/pool"
	"github.com/vipnode/vipnode/v2/pool/store"
	"pgregory.net/rapid"

	"verif/vt"
)

type c08Host struct {
	calls   int    // whitelist calls seen (for the "late once" behaviour)
	Idx     int    `json:"idx"`
	Name    string `json:"name"`
	Kind    string `json:"kind"`
	Age     string `json:"age"`
	Conn    string `json:"conn"`      // live, closed, rereg-closeold, rereg-keepold
	Behave  string `json:"whitelist"` // ack, slowack, lateack, error, noresult, never
	Tracked bool   `json:"already_peer"`
	age     time.Duration
	delay   time.Duration
}

var c08Ages = []time.Duration{0, 30 * time.Second, 119900 * time.Millisecond, 120100 * time.Millisecond, 300 * time.Second}

func c08Case(rt *rapid.T, rec *vt.Rec) {
	cfg := sessCfg{Driver: rapid.SampledFrom([]string{"memory", "memory", "badger"}).Draw(rt, "driver"), Price: big.NewInt(1000), Interval: time.Minute}
	cfg.MaxRequestHosts = rapid.SampledFrom([]int{0, 0, 1, 2, 5}).Draw(rt, "maxHosts")
	nHosts := rapid.IntRange(0, 6).Draw(rt, "nHosts")
	nClients := rapid.IntRange(1, 3).Draw(rt, "nClients")
	s := newSession(rt, cfg, nHosts+nClients+1) // (+1: a late-coming client for the second request)
	defer s.close()
	var hosts []*c08Host
	healthy := rapid.Bool().Draw(rt, "healthyPopulation")
	for i := 0; i < nHosts; i++ {
		// a host may spell its node id in upper case or with a 0x prefix (accepted by request verification, kept as
		// sent): the id the pool hands to clients is the id clients report back as their peer
		switch rapid.SampledFrom([]string{"plain", "plain", "plain", "upper", "0x"}).Draw(rt, "idSpelling") {
		case "upper":
			s.agents[i].id.nodeID = strings.ToUpper(s.agents[i].id.nodeID)
		case "0x":
			s.agents[i].id.nodeID = "0x" + s.agents[i].id.nodeID
		}
		h := &c08Host{Idx: i, Name: s.agents[i].id.name}
		h.Kind = rapid.SampledFrom([]string{"geth", "geth", "parity", ""}).Draw(rt, "kind")
		h.age = rapid.SampledFrom(c08Ages).Draw(rt, "age")
		h.Conn = rapid.SampledFrom([]string{"live", "live", "live", "closed", "rereg-closeold", "rereg-keepold"}).Draw(rt, "conn")
		h.Behave = rapid.SampledFrom([]string{"ack", "ack", "ack", "slowack", "lateack", "lateonce", "error", "noresult", "never"}).Draw(rt, "behave")
		if healthy && rapid.IntRange(0, 5).Draw(rt, "perturbed") > 0 {
			// mostly healthy populations: the count rules only show when enough hosts cooperate
			h.Kind = "geth"
			h.age = rapid.SampledFrom([]time.Duration{0, 30 * time.Second, 119900 * time.Millisecond}).Draw(rt, "freshAge")
			h.Conn = rapid.SampledFrom([]string{"live", "live", "rereg-closeold"}).Draw(rt, "liveConn")
			h.Behave = rapid.SampledFrom([]string{"ack", "ack", "slowack"}).Draw(rt, "ackBehave")
		}
		h.Age = h.age.String()
		switch h.Behave {
		case "slowack":
			h.delay = time.Duration(rapid.Int64Range(1, int64(5*time.Second)-1).Draw(rt, "delay"))
		case "lateack", "lateonce":
			h.delay = time.Duration(rapid.Int64Range(int64(5*time.Second)+1, int64(10*time.Second)).Draw(rt, "delay"))
		case "never":
			h.delay = time.Hour
		}
		hosts = append(hosts, h)
	}
	var behaveMu sync.Mutex
	s.behave = func(hostIdx, connID int, method, arg string) (time.Duration, error) {
		if hostIdx >= nHosts || method != "whitelist" {
			return 0, nil
		}
		h := hosts[hostIdx]
		switch h.Behave {
		case "error":
			return 0, errScripted
		case "noresult":
			return 0, errNoResult
		case "lateonce":
			// too late for the first request that reaches it, prompt ever after
			behaveMu.Lock()
			h.calls++
			first := h.calls == 1
			behaveMu.Unlock()
			if !first {
				return 0, nil
			}
		}
		return h.delay, nil
	}
	var hist []string
	logf := func(f string, a ...interface{}) {
		hist = append(hist, fmt.Sprintf("[t+%s] ", time.Since(bubbleEpoch()))+fmt.Sprintf(f, a...))
	}
	fail := func(f string, a ...interface{}) {
		var hs []string
		for _, h := range hosts {
			hs = append(hs, fmt.Sprintf("%s kind=%q age=%s conn=%s whitelist=%s(%s) alreadyPeer=%v", h.Name, h.Kind, h.Age, h.Conn, h.Behave, h.delay, h.Tracked))
		}
		fmt.Printf("C08 FAILURE DETAIL: %.1500s\n  history: %.3000s\n", fmt.Sprintf(f, a...), strings.Join(hist, "\n  "))
		rt.Fatalf("%s\nconfig: %s\nhosts:\n  %s\nhistory:\n  %s", fmt.Sprintf(f, a...), cfg, strings.Join(hs, "\n  "), strings.Join(hist, "\n  "))
	}
	// clients register first
	for c := nHosts; c < nHosts+nClients; c++ {
		ac := s.openConn(c, "")
		if rapid.IntRange(0, 4).Draw(rt, "clientWasHost") == 0 {
			// this node used to run as a full-node host and now comes back as a light client: its latest role counts
			s.model.connect(s.agents[c].id.nodeID, ac.id, true, "geth", "")
			if err := s.connect(c, ac, true, "geth", ""); err != nil {
				fail("connect: %v", err)
			}
			logf("client %s first registers as a host (old role)", s.agents[c].id.name)
		}
		s.model.connect(s.agents[c].id.nodeID, ac.id, false, "geth", "")
		if err := s.connect(c, ac, false, "geth", ""); err != nil {
			fail("client connect: %v", err)
		}
	}
	// hosts connect at T-age, oldest first
	order := append([]*c08Host(nil), hosts...)
	sort.SliceStable(order, func(i, j int) bool { return order[i].age > order[j].age })
	maxAge := time.Duration(0)
	if len(order) > 0 {
		maxAge = order[0].age
	}
	start := time.Now()
	T := start.Add(maxAge)
	for _, h := range order {
		if d := T.Add(-h.age).Sub(time.Now()); d > 0 {
			time.Sleep(d)
		}
		ac := s.openConn(h.Idx, "")
		if rapid.IntRange(0, 4).Draw(rt, "hostWasClient") == 0 {
			// this node used to run as a light client and now registers as a host: its latest role counts
			s.model.connect(s.agents[h.Idx].id.nodeID, ac.id, false, h.Kind, "")
			if err := s.connect(h.Idx, ac, false, h.Kind, ""); err != nil {
				fail("connect: %v", err)
			}
			logf("host %s first registers as a light client (old role)", h.Name)
		}
		s.model.connect(s.agents[h.Idx].id.nodeID, ac.id, true, h.Kind, "")
		if err := s.connect(h.Idx, ac, true, h.Kind, ""); err != nil {
			fail("host connect: %v", err)
		}
		logf("host %s connects (kind %q) on conn#%d", h.Name, h.Kind, ac.id)
		switch h.Conn {
		case "closed":
			s.closeConn(ac)
			logf("host %s connection closed", h.Name)
		case "rereg-closeold", "rereg-keepold":
			ac2 := s.openConn(h.Idx, "")
			s.model.connect(s.agents[h.Idx].id.nodeID, ac2.id, true, h.Kind, "")
			if err := s.connect(h.Idx, ac2, true, h.Kind, ""); err != nil {
				fail("host reconnect: %v", err)
			}
			logf("host %s re-registers on conn#%d", h.Name, ac2.id)
			if h.Conn == "rereg-closeold" {
				s.closeConn(ac)
				logf("host %s old conn#%d closed", h.Name, ac.id)
			}
		}
	}
	if d := T.Sub(time.Now()); d > 0 {
		time.Sleep(d)
	}
	// requester and its already-tracked peers
	reqIdx := rapid.IntRange(0, nHosts+nClients-1).Draw(rt, "requester")
	requester := s.agents[reqIdx].id
	reqIsHost := reqIdx < nHosts
	if !reqIsHost && nHosts > 0 && rapid.Bool().Draw(rt, "hasPeers") {
		var rep []string
		for _, h := range hosts {
			if rapid.IntRange(0, 2).Draw(rt, "reportHost") == 0 {
				rep = append(rep, s.agents[h.Idx].id.nodeID)
			}
		}
		e := s.model.update(requester.nodeID, rep, 1)
		if _, err := s.update(reqIdx, rep, 1, false, false); err != nil {
			fail("requester keep-alive: %v", err)
		}
		for _, h := range hosts {
			for _, a := range e.Active {
				if a == s.agents[h.Idx].id.nodeID {
					h.Tracked = true
				}
			}
		}
		logf("requester %s keep-alive reporting %v -> tracked peers %v", requester.name, names(rep), names(e.Active))
		// some time passes before the request: hosts keep checking in (or not), the requester does not report again,
		// so what it reported stays its tracked peer set
		if gap := rapid.SampledFrom([]time.Duration{0, 0, 30 * time.Second, 100 * time.Second, 125 * time.Second}).Draw(rt, "gapBeforeRequest"); gap > 0 {
			time.Sleep(gap)
			for _, h := range hosts {
				checksIn := h.Conn != "closed" && rapid.IntRange(0, 3).Draw(rt, "hostChecksIn") > 0
				if checksIn {
					s.model.update(s.agents[h.Idx].id.nodeID, nil, 2)
					if _, err := s.update(h.Idx, nil, 2, false, false); err != nil {
						fail("host keep-alive: %v", err)
					}
					h.age = 0
				} else {
					h.age += gap
				}
				h.Age = h.age.String()
			}
			logf("%s pass; hosts now: %v", gap, func() []string {
				var o []string
				for _, h := range hosts {
					o = append(o, h.Name+" age "+h.Age)
				}
				return o
			}())
		}
	}
	// Somebody else asked a moment ago, and hosts that had fallen silent have resumed their keep-alives since: what
	// counts for THIS request is each host's check-in as of now, not as of the earlier request (a host list kept
	// from one request to the next goes stale with the first keep-alive).
	if nHosts+nClients > 1 && rapid.IntRange(0, 3).Draw(rt, "earlierRequest") == 0 {
		// (by anybody - also by the requester itself: an agent asks again on every round until it has enough peers)
		pi := rapid.IntRange(0, nHosts+nClients-1).Draw(rt, "earlierRequester")
		tp := time.Now()
		_, perr := s.peer(pi, 3, "")
		logf("earlier request by %s (err=%v)", s.agents[pi].id.name, perr)
		var resumed []string
		for _, h := range hosts {
			if _, live := s.model.liveHost(s.agents[h.Idx].id.nodeID); live && rapid.IntRange(0, 3).Draw(rt, "hostMoves") == 0 {
				// the host registers again over a new connection (the old one stays open, or closes afterwards):
				// from now on instructions for it - also for a requester it acknowledged before - go over the new one
				old := s.agents[h.Idx].lastConn()
				ac2 := s.openConn(h.Idx, "")
				s.model.connect(s.agents[h.Idx].id.nodeID, ac2.id, true, h.Kind, "")
				if err := s.connect(h.Idx, ac2, true, h.Kind, ""); err != nil {
					fail("host reconnect: %v", err)
				}
				if old != nil && old.open && rapid.Bool().Draw(rt, "closeOldAfterMove") {
					s.closeConn(old)
				}
				h.age = -time.Since(tp)
				resumed = append(resumed, h.Name+"(moved to conn#"+fmt.Sprint(ac2.id)+")")
				continue
			}
			if h.Conn != "closed" && rapid.IntRange(0, 2).Draw(rt, "hostResumes") > 0 {
				s.model.update(s.agents[h.Idx].id.nodeID, nil, 3)
				if _, err := s.update(h.Idx, nil, 3, false, false); err != nil {
					fail("host keep-alive: %v", err)
				}
				h.age = -time.Since(tp) // (the elapsed time is added back below)
				resumed = append(resumed, h.Name)
			}
		}
		time.Sleep(time.Duration(rapid.Int64Range(0, int64(4*time.Second)).Draw(rt, "sinceEarlierRequest")))
		el := time.Since(tp)
		for _, h := range hosts {
			h.age += el
			h.Age = h.age.String()
		}
		logf("hosts %v check in again; %s after the earlier request", resumed, el)
	}
	// the request
	legacy := !reqIsHost && rapid.IntRange(0, 2).Draw(rt, "legacyClient") == 0
	// (kinds the pool does not know - "unknown" is what an agent sends for an undetected node - match no host)
	kind := rapid.SampledFrom([]string{"", "", "geth", "geth", "parity", "parity", "unknown", "nethermind"}).Draw(rt, "reqKind")
	supply := 0
	for _, h := range hosts {
		if (kind == "" || h.Kind == kind) && h.age < 120*time.Second {
			supply++
		}
	}
	num := rapid.SampledFrom([]int{-7, -1, 0, 1, 2, 3, supply, supply + 2}).Draw(rt, "num")
	nEff := num
	if legacy {
		if num <= 0 {
			nEff = 3
		}
		// vipnode_client re-registers the requester as a light client of the requested kind
		s.model.connect(requester.nodeID, s.agents[reqIdx].lastConn().id, false, kind, "")
	}
	if cfg.MaxRequestHosts > 0 && nEff > cfg.MaxRequestHosts {
		nEff = cfg.MaxRequestHosts
	}
	// model: eligible and acknowledging hosts at request time
	eligible := map[string]*c08Host{}
	acks := map[string]*c08Host{}
	active, activeAll := 0, 0
	for _, h := range hosts {
		id := s.agents[h.Idx].id.nodeID
		if !(kind == "" || h.Kind == kind) || h.age >= 120*time.Second {
			continue
		}
		active++
		activeAll++
		if h.Idx == reqIdx || h.Tracked {
			continue
		}
		if _, live := s.model.liveHost(id); !live {
			continue
		}
		eligible[id] = h
		behaveMu.Lock()
		calledBefore := h.calls > 0
		behaveMu.Unlock()
		if h.Behave == "ack" || h.Behave == "slowack" || (h.Behave == "lateonce" && calledBefore) {
			// (a late-once host that the earlier request already reached is prompt now)
			acks[id] = h
		}
	}
	t0 := time.Now()
	seq0 := nextSeq()
	var got []store.Node
	var err error
	if legacy {
		var resp *pool.ClientResponse
		req := pool.ClientRequest{Kind: kind, NumHosts: num}
		n := s.nonce(requester.nodeID)
		resp, err = s.pool.Client(rpcCtx(), mustSign(requester.key, "vipnode_client", requester.nodeID, n, req), requester.nodeID, n, req)
		if resp != nil {
			got = resp.Hosts
		}
	} else {
		var resp *pool.PeerResponse
		resp, err = s.peer(reqIdx, num, kind)
		if resp != nil {
			got = resp.Peers
		}
	}
	seq1 := nextSeq()
	took := time.Since(t0)
	var gotNames []string
	for _, n := range got {
		gotNames = append(gotNames, nodeName(string(n.ID)))
	}
	logf("%s requests num=%d kind=%q legacy=%v (n_eff=%d, eligible=%v, acking=%v) -> %v err=%v in %s", requester.name, num, kind, legacy, nEff, names(sortedKeys(eligible)), names(sortedKeys(acks)), gotNames, err, took)
	if classifyErr(err).Kind == "verify" {
		fail("correctly signed request refused: %v", err)
	}
	if took > 5*time.Second+time.Millisecond {
		fail("peer request took %s of virtual time; hosts that do not answer within 5s must be left out", took)
	}
	seen := map[string]bool{}
	for _, n := range got {
		id := string(n.ID)
		if seen[id] {
			fail("host %s returned twice", nodeName(id))
		}
		seen[id] = true
		h, ok := eligible[id]
		if !ok {
			why := "not an eligible host"
			for _, hh := range hosts {
				if s.agents[hh.Idx].id.nodeID == id {
					why = fmt.Sprintf("kind=%q age=%s conn=%s alreadyPeer=%v isRequester=%v", hh.Kind, hh.Age, hh.Conn, hh.Tracked, hh.Idx == reqIdx)
				}
			}
			fail("returned host %s is not eligible for this request (%s)", nodeName(id), why)
		}
		if !n.IsHost {
			fail("returned node %s is not a host", nodeName(id))
		}
		// acknowledged whitelist(requester) on its current connection before the reply
		cid, _ := s.model.liveHost(id)
		acked := false
		for _, ac := range s.agents[h.Idx].conns {
			for _, c := range ac.svc.Calls() {
				if c.Method == "whitelist" && c.Arg == requester.nodeID && c.Seq > seq0 && c.Seq < seq1 && ac.id == cid && h.Behave != "error" && h.Behave != "noresult" {
					acked = true
				}
			}
		}
		if !acked {
			fail("returned host %s (whitelist behaviour %s, delay %s) had not acknowledged a whitelist instruction for %s on its current connection before the reply", nodeName(id), h.Behave, h.delay, requester.name)
		}
	}
	if nEff <= 0 && len(got) != 0 {
		fail("request for %d hosts returned %d", num, len(got))
	}
	if nEff > 0 && len(got) > nEff {
		fail("request for %d hosts (max %d, effective %d) returned %d", num, cfg.MaxRequestHosts, nEff, len(got))
	}
	if len(got) > 0 && err != nil {
		fail("hosts were provided but an error was returned too: %v", err)
	}
	if nEff <= 0 && err != nil && !legacy {
		fail("a request for no hosts returned an error: %v", err)
	}
	// when the request is large enough for the pool to try EVERY eligible host, the reply is exactly the hosts that
	// acknowledged - on both endpoints - and it is not an error as long as one did
	skipCount := 1
	if !legacy || true {
		if peers, perr := s.model.st.NodePeers(store.NodeID(requester.nodeID)); perr == nil {
			skipCount += len(peers)
		}
	}
	if nEff > 0 && nEff+skipCount >= activeAll && nEff >= len(eligible) && len(acks) > 0 {
		var gotIDs []string
		for _, n := range got {
			gotIDs = append(gotIDs, string(n.ID))
		}
		if !setEq(gotIDs, sortedKeys(acks)) || err != nil {
			fail("all %d eligible hosts were tried (requested %d): the reply must be exactly the %d hosts that acknowledged (%v) without an error; got %v err=%v", len(eligible), nEff, len(acks), names(sortedKeys(acks)), gotNames, err)
		}
	}
	if nEff > 0 && active > 0 && len(acks) == active {
		want := nEff
		if active < want {
			want = active
		}
		if len(got) != want {
			fail("every active host of kind %q is eligible and acknowledges, so the reply must hold min(requested %d, supply %d) = %d hosts; got %d (err=%v)", kind, nEff, active, want, len(got), err)
		}
	}
	// a second request, later, by a client that has just arrived: a host that was too slow (or whose caller gave up)
	// ONCE is still a connected host - being left out of one reply is all that may happen to it
	secondDone := false
	if rapid.IntRange(0, 2).Draw(rt, "secondRequest") == 0 {
		time.Sleep(12 * time.Second)
		elapsed := time.Since(t0)
		lateIdx := nHosts + nClients
		lac := s.openConn(lateIdx, "")
		s.model.connect(s.agents[lateIdx].id.nodeID, lac.id, false, "geth", "")
		if err := s.connect(lateIdx, lac, false, "geth", ""); err != nil {
			fail("late client connect: %v", err)
		}
		num2 := nHosts + 2
		nEff2 := num2
		if cfg.MaxRequestHosts > 0 && nEff2 > cfg.MaxRequestHosts {
			nEff2 = cfg.MaxRequestHosts
		}
		active2, ok2 := 0, map[string]bool{}
		allGood := true
		for _, h := range hosts {
			if h.age+elapsed >= 120*time.Second {
				continue
			}
			active2++
			id := s.agents[h.Idx].id.nodeID
			_, live := s.model.liveHost(id)
			acks := h.Behave == "ack" || h.Behave == "slowack" || h.Behave == "lateonce"
			if h.Behave == "lateonce" {
				behaveMu.Lock()
				acks = h.calls >= 1 // its one slow answer is behind it
				behaveMu.Unlock()
			}
			if live && acks {
				ok2[id] = true
			} else {
				allGood = false
			}
		}
		resp2, err2 := s.peer(lateIdx, num2, "")
		var got2 []string
		if resp2 != nil {
			for _, n := range resp2.Peers {
				got2 = append(got2, string(n.ID))
			}
		}
		logf("late client %s requests num=%d -> %v err=%v (hosts that can be provided now: %v)", s.agents[lateIdx].id.name, num2, names(got2), err2, names(sortedKeys(ok2)))
		for _, id := range got2 {
			if !ok2[id] {
				fail("second request returned %s, which is not an active, connected, acknowledging host", nodeName(id))
			}
		}
		// (only when the request is large enough for the pool to try every active host: with a small configured
		// maximum it samples a few candidates and may legitimately hit only failing ones)
		if nEff2 >= active2 && len(ok2) > 0 && len(got2) == 0 {
			fail("second request (12 s later, by a client that has just arrived) returned no host (err=%v) although %v are active, connected and acknowledge at once - a host that was slow once, or whose caller gave up once, must not be forgotten", err2, names(sortedKeys(ok2)))
		}
		if allGood {
			want2 := nEff2
			if active2 < want2 {
				want2 = active2
			}
			if len(got2) != want2 {
				fail("second request: every active host is connected and acknowledges, so the reply must hold min(%d, %d) hosts; got %d (err=%v)", nEff2, active2, len(got2), err2)
			}
		}
		secondDone = true
		s.closeConn(lac)
	}
	// let late/never-answering handlers finish inside the bubble, then look for wedged goroutines
	s.close()
	time.Sleep(2 * time.Hour)
	synctest.Wait()
	if left := bubbleLeftovers(); len(left) > 0 {
		fail("goroutines are still blocked after every connection and the store were closed:\n%s", strings.Join(left, "\n\n"))
	}
	nontrivial := (active > 0 && len(acks) < active) || (nEff != active && active > 0)
	cl := []string{"driver:" + cfg.Driver, fmt.Sprintf("legacy:%v", legacy), fmt.Sprintf("returned:%d", min(len(got), 3)), fmt.Sprintf("err:%v", err != nil), fmt.Sprintf("n_eff<=0:%v", nEff <= 0), fmt.Sprintf("second-request:%v", secondDone)}
	for _, h := range hosts {
		cl = append(cl, "whitelist:"+h.Behave, "conn:"+h.Conn)
	}
	var hsig []string
	for _, h := range hosts {
		hsig = append(hsig, fmt.Sprintf("%s/%s/%s/%s/%v", h.Kind, h.Age, h.Conn, h.Behave, h.Tracked))
	}
	rec.Case(fmt.Sprintf("%s|max%d|num%d|%q|legacy%v|req%d|%v", cfg.Driver, cfg.MaxRequestHosts, num, kind, legacy, reqIdx, hsig), nontrivial, cl, func() interface{} {
		return map[string]interface{}{"config": cfg.String(), "hosts": hosts, "requester": requester.name, "num": num, "kind": kind, "legacy_client_call": legacy, "n_eff": nEff, "returned": gotNames, "error": fmt.Sprint(err), "virtual_duration": took.String()}
	})
}

func TestC08PeerRequests(t *testing.T) {
	defer vt.Watch("TestC08PeerRequests", 120*time.Second)()
	rec := vt.For("C08")
	rec.Rule("pool session in virtual time: 0-6 hosts with kind in {geth,parity,\"\"}, last check-in age in {0,30s,119.9s,120.1s,300s}, connection in {live, closed, re-registered with old connection closed or kept}, whitelist behaviour in {ack, ack after d<5s, ack after d>5s, error, reply without result, never}; 1-3 clients; requester (client or host) with tracked peers from a keep-alive; vipnode_peer{num in {-7,-1,0,1,2,3,supply,supply+2}, kind} or legacy vipnode_client{num_hosts,kind}; max-request-hosts in {0,1,2,5}; oracle (validity predicate): every returned node is an eligible host (kind, recency, not requester, not already a peer, live current connection) whose whitelist(requester) completed on that connection before the reply, no duplicates, len <= n_eff, n_eff<=0 => empty, hosts returned => no error, reply within 5s of virtual time, and if every active host of the kind is eligible and acks then len == min(n_eff, supply); non-trivial = supply>0 and (>=1 ineligible or failing host, or n_eff != supply); distinct by full population + request")
	check(t, func(rt *rapid.T) {
		rapid.SyncTest(rt, func(rt *rapid.T) { c08Case(rt, rec) })
	})
}
