package props

// C13 against a database that this tree did not write: /verif/fixtures/badger-golden was written by the badger driver
// of the reference tree (tools/mkgolden.sh) together with the result of every read. Reading a current-format database
// must not depend on which build wrote it: an on-disk layout change without a migration shows up here.

import (
	"fmt"
	"os"
	"os/exec"
	"path/filepath"
	"strings"
	"testing"

	"github.com/dgraph-io/badger/v2"
	badgerstore "github.com/vipnode/vipnode/v2/pool/store/badger"
	"pgregory.net/rapid"

	so "verif/storeops"
	"verif/vt"
)

func fixturesDir() string { return filepath.Join(filepath.Dir(harnessDir()), "fixtures") }

func TestC13Golden(t *testing.T) {
	rec := vt.For("C13")
	rec.Rule("golden database: a current-format database written by the reference tree (5 nodes with realistic ids, lower-case / EIP-55 / plain account names, multi-word and negative balances, migrated trial balances, peer sets, saved nonces; fixtures/badger-golden) is copied and opened with the driver under test - with the pool binary's badger options or small tables, after 0-2 extra open/close cycles, as it is or relabelled as format version 1 or 0 (forcing the migrations) - and every read is compared with what the reference tree returned; saved nonces must still be refused (current format) ; non-trivial = every case; distinct by (options, reopen count, version label)")
	want, err := os.ReadFile(filepath.Join(fixturesDir(), "badger-golden", "expected.txt"))
	if err != nil {
		t.Fatalf("[setup failed] golden fixture missing: %v", err)
	}
	wantLines := strings.Split(strings.TrimSpace(string(want)), "\n")
	check(t, func(rt *rapid.T) {
		dir := tempDir("c13-golden-")
		defer removeAll(dir)
		if out, err := exec.Command("cp", "-r", filepath.Join(fixturesDir(), "badger-golden", "db"), filepath.Join(dir, "db")).CombinedOutput(); err != nil {
			rt.Fatalf("[setup failed] copy fixture: %v %s", err, out)
		}
		db := filepath.Join(dir, "db")
		version := rapid.SampledFrom([]int{2, 2, 2, 1, 0}).Draw(rt, "labelledVersion")
		if version != 2 {
			setRawVersion(rt, db, version)
		}
		opts := rapid.SampledFrom([]string{"pool-binary", "small-tables"}).Draw(rt, "options")
		open := func() (closer interface{ Close() error }, lines []string, observe func() []string) {
			o := badger.DefaultOptions(db).WithTruncate(true).WithMaxCacheSize(1 << 20).WithMaxTableSize(1 << 20).WithLogger(nil)
			if opts == "small-tables" {
				o = smallBadgerOpts(db)
			}
			st, err := badgerstore.Open(o)
			if err != nil {
				rt.Fatalf("opening the golden database (labelled version %d, %s options): %v", version, opts, err)
			}
			return st, nil, func() []string { return so.GoldenObserve(st) }
		}
		cycles := rapid.IntRange(0, 2).Draw(rt, "extraOpenClose")
		for i := 0; i < cycles; i++ {
			st, _, _ := open()
			if err := st.Close(); err != nil {
				rt.Fatalf("close: %v", err)
			}
		}
		st, _, observe := open()
		got := observe()
		st.Close()
		if len(got) != len(wantLines) {
			rt.Fatalf("the golden database yields %d observations, the reference tree recorded %d", len(got), len(wantLines))
		}
		for i := range got {
			isNonce := strings.Contains(wantLines[i], "nonce")
			if version != 2 && isNonce {
				continue // the migration from format 1 drops the saved nonces by design
			}
			if got[i] != wantLines[i] {
				rt.Fatalf("reading the golden database (written by the reference tree; labelled version %d, %s options, %d extra open/close cycles) differs from what the reference tree read:\n  got:  %.600s\n  want: %.600s", version, opts, cycles, got[i], wantLines[i])
			}
		}
		rec.Case(fmt.Sprintf("golden|%d|%s|%d", version, opts, cycles), true, []string{"golden", fmt.Sprintf("golden:version-label:%d", version)}, func() interface{} {
			return map[string]interface{}{"kind": "golden database", "labelled_version": version, "options": opts, "extra_open_close": cycles, "observations": len(got)}
		})
	})
}
