package props

// Free-running concurrent workloads (true parallelism, race detector) whose
// final state is schedule-independent, compared exactly with the model at
// quiescence. Used by C01 (no credit lost or created under concurrent
// updates, incl. badger transaction conflicts) and C10 (no lost update, no
// data race).

import (
	"fmt"
	"math/big"
	"strings"
	"sync"
	"testing"
	"time"

	"github.com/vipnode/vipnode/v2/pool/store"
	"pgregory.net/rapid"

	"verif/vt"
)

type concResult struct {
	who string
	op  string
	err error
}

func concCase(rt *rapid.T, prop string, rec *vt.Rec) {
	cfg := sessCfg{}
	cfg.Driver = rapid.SampledFrom([]string{"badger", "badger", "memory"}).Draw(rt, "driver")
	cfg.Price, _ = new(big.Int).SetString(rapid.SampledFrom([]string{"1", "1000", "100000000000", "18446744073709551619"}).Draw(rt, "price"), 10)
	cfg.Interval = rapid.SampledFrom([]time.Duration{time.Second, time.Minute}).Draw(rt, "interval")
	cfg.Fee = ""
	nHosts := rapid.IntRange(1, 3).Draw(rt, "hosts")
	nClients := rapid.IntRange(2, 6).Draw(rt, "clients")
	n := nHosts + nClients
	s := newSession(rt, cfg, n)
	defer s.close()
	var hist []string
	logf := func(f string, a ...interface{}) { hist = append(hist, fmt.Sprintf(f, a...)) }
	fail := func(f string, a ...interface{}) {
		rt.Fatalf("%s\nconfig: %s hosts=%d clients=%d\nhistory:\n  %s", fmt.Sprintf(f, a...), cfg, nHosts, nClients, strings.Join(hist, "\n  "))
	}
	var hostIDs []string
	for i := 0; i < n; i++ {
		ac := s.openConn(i, "")
		isHost := i < nHosts
		s.model.connect(s.agents[i].id.nodeID, ac.id, isHost, "geth", "")
		if err := s.connect(i, ac, isHost, "geth", ""); err != nil {
			fail("connect: %v", err)
		}
		if isHost {
			hostIDs = append(hostIDs, s.agents[i].id.nodeID)
		}
	}
	// wallets: some nodes share wallet w0 / w1; linking happens concurrently with billing in some round
	walletOf := make([]int, n)
	linkRound := make([]int, n)
	rounds := rapid.IntRange(1, 4).Draw(rt, "rounds")
	for i := range walletOf {
		walletOf[i] = rapid.IntRange(-1, 1).Draw(rt, "wallet")
		linkRound[i] = rapid.IntRange(0, rounds).Draw(rt, "linkRound") // 0 = before the first round
	}
	doLink := func(i int) error { return s.addNode(walletIdent(walletOf[i]), s.agents[i].id.nodeID) }
	for i := 0; i < n; i++ {
		if walletOf[i] >= 0 && linkRound[i] == 0 {
			if err := doLink(i); err != nil {
				fail("link: %v", err)
			}
			s.model.st.AddAccountNode(store.Account(walletIdent(walletOf[i]).addr), store.NodeID(s.agents[i].id.nodeID))
			logf("link %s -> %s", s.agents[i].id.name, walletIdent(walletOf[i]).name)
		}
	}
	// every client first reports the hosts (elapsed 0, free) so that they are tracked - or not: then the very first
	// keep-alives the balance manager ever sees arrive together (first-use initialisation inside the manager is
	// exercised by the race detector)
	cold := rapid.IntRange(0, 2).Draw(rt, "cold") == 0
	if cold {
		logf("no warm-up keep-alives: the first billing calls are concurrent")
	}
	for i := nHosts; i < n && !cold; i++ {
		s.model.update(s.agents[i].id.nodeID, hostIDs, 1)
		if _, err := s.update(i, hostIDs, 1, false, false); err != nil {
			fail("first update: %v", err)
		}
	}
	overlaps := 0
	for r := 1; r <= rounds; r++ {
		d := time.Duration(rapid.Int64Range(1, int64(40*time.Second)).Draw(rt, "advance"))
		time.Sleep(d)
		logf("advance %s; round %d: all %d agents act concurrently", d, r, n)
		var wg sync.WaitGroup
		resCh := make(chan concResult, 4*n)
		startCh := make(chan struct{})
		// harness-side nonces must be drawn before the goroutines start (s.nonce is per id and thread-safe)
		for i := 0; i < n; i++ {
			i := i
			wg.Add(1)
			go func() {
				defer wg.Done()
				<-startCh
				rep := hostIDs
				if i < nHosts {
					rep = nil
				}
				_, err := s.update(i, rep, uint64(r), i%2 == 0, i%3 == 0)
				resCh <- concResult{s.agents[i].id.name, "update", err}
				if i >= nHosts && prop == "C10" {
					// an agent is sequential: its peer request follows its keep-alive
					_, err := s.peer(i, 1, "")
					if err != nil && classifyErr(err).Kind == "nohosts" {
						err = nil // every host is already a peer of this client
					}
					resCh <- concResult{s.agents[i].id.name, "peer", err}
				}
			}()
		}
		// a wallet is one identity: its own requests are sequential (one goroutine per wallet)
		for w := 0; w < 2; w++ {
			var mine []int
			for i := 0; i < n; i++ {
				if walletOf[i] == w && linkRound[i] == r {
					mine = append(mine, i)
				}
			}
			if len(mine) == 0 {
				continue
			}
			overlaps++
			wg.Add(1)
			go func() {
				defer wg.Done()
				<-startCh
				for _, i := range mine {
					resCh <- concResult{s.agents[i].id.name, "addNode", doLink(i)}
				}
			}()
		}
		close(startCh)
		wg.Wait()
		close(resCh)
		for res := range resCh {
			if res.err != nil {
				fail("round %d: %s of %s failed: %v", r, res.op, res.who, res.err)
			}
		}
		// model: same operations one at a time (the workload is commutative: no expiries, fixed peer sets)
		for i := 0; i < n; i++ {
			rep := hostIDs
			if i < nHosts {
				rep = nil
			}
			e := s.model.update(s.agents[i].id.nodeID, rep, uint64(r))
			if i >= nHosts && len(e.Active) != nHosts {
				fail("model: client %s has %d active peers, expected %d", s.agents[i].id.name, len(e.Active), nHosts)
			}
		}
		for i := 0; i < n; i++ {
			if walletOf[i] >= 0 && linkRound[i] == r {
				s.model.st.AddAccountNode(store.Account(walletIdent(walletOf[i]).addr), store.NodeID(s.agents[i].id.nodeID))
				logf("  (link %s -> %s concurrently)", s.agents[i].id.name, walletIdent(walletOf[i]).name)
			}
		}
		// quiescent: compare every balance and the ledger total
		for i := 0; i < n; i++ {
			id := store.NodeID(s.agents[i].id.nodeID)
			got, err := s.st.GetNodeBalance(id)
			if err != nil {
				fail("GetNodeBalance: %v", err)
			}
			want, _ := s.model.st.GetNodeBalance(id)
			if got.Credit.Cmp(&want.Credit) != 0 || got.Account != want.Account {
				fail("after round %d: balance of %s is account=%q credit=%s; any one-at-a-time order gives account=%q credit=%s (an update was lost or applied twice)", r, s.agents[i].id.name, got.Account, got.Credit.String(), want.Account, want.Credit.String())
			}
		}
		st, err := s.st.Stats()
		if err != nil {
			fail("Stats: %v", err)
		}
		if st.TotalCredit.Sign() != 0 {
			fail("after round %d: ledger total is %s, must stay 0", r, st.TotalCredit.String())
		}
	}
	sig := fmt.Sprintf("conc|%s|%s|%s|h%d|c%d|r%d|%v|%v", cfg.Driver, cfg.Price, cfg.Interval, nHosts, nClients, rounds, walletOf, linkRound)
	rec.Case(sig, nClients >= 2, []string{"conc", "conc:driver:" + cfg.Driver, fmt.Sprintf("conc:link-overlaps-billing:%v", overlaps > 0)}, func() interface{} {
		return map[string]interface{}{"kind": "free-running concurrent rounds", "config": cfg.String(), "hosts": nHosts, "clients": nClients, "rounds": rounds, "wallet_of": fmt.Sprint(walletOf), "link_round": fmt.Sprint(linkRound), "history": hist}
	})
}

func TestC01Concurrent(t *testing.T) {
	defer vt.Watch("TestC01Concurrent", 120*time.Second)()
	rec := vt.For("C01")
	rec.Rule("free-running (statistical, under the race detector): 1-3 hosts and 2-6 clients on badger/memory; in each round every agent sends its keep-alive at the same virtual instant from its own goroutine while wallet links race the billing; workload is commutative, so at quiescence every balance must equal the model exactly and the ledger total must be 0 (exposes swallowed badger transaction conflicts); non-trivial = >=2 concurrent clients; distinct by config + wallets + link schedule")
	check(t, func(rt *rapid.T) {
		rapid.SyncTest(rt, func(rt *rapid.T) { concCase(rt, "C01", rec) })
	})
}
