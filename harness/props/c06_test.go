package props

// C06 — a refused request changes nothing.

import (
	"encoding/base64"
	"encoding/hex"
	"fmt"
	"math/big"
	"strings"
	"testing"
	"time"

	"github.com/vipnode/vipnode/v2/pool"
	"pgregory.net/rapid"

	"verif/vt"
)

func TestC06RefusedChangesNothing(t *testing.T) {
	defer vt.Watch("TestC06RefusedChangesNothing", 120*time.Second)()
	rec := vt.For("C06")
	rec.Rule("a valid pool session (host with live connection, billed client with peers and balance, linked wallet with credit; generated number of further keep-alives/advances; memory/badger; deposits) into which one refused request is injected: endpoint in {connect,update,peer,host,client,pool_addNode,pool_withdraw} x refusal in {signature by another key, one signature byte flipped, short/empty/garbage signature, stale nonce, replayed nonce} aimed at an existing identity, with a FRESH FUTURE nonce where the refusal is about the signature; oracle: full digest (every node record incl. LastSeen, peers, every balance, wallet links, Stats, NumRemotes, every host's whitelist/disconnect log, settle log) identical before/after, then the victim's own request with a nonce LOWER than the forged one (fresh, above its last accepted) is accepted; non-trivial = every case (refusal injected after the victim has state); distinct by (driver, endpoint, refusal kind, session shape)")
	check(t, func(rt *rapid.T) {
		rapid.SyncTest(rt, func(rt *rapid.T) {
			cfg := sessCfg{Driver: rapid.SampledFrom([]string{"memory", "badger"}).Draw(rt, "driver"), Price: big.NewInt(1000), Interval: time.Minute, Deposits: rapid.Bool().Draw(rt, "deposits")}
			if rapid.Bool().Draw(rt, "withMin") {
				cfg.Min = big.NewInt(-1000000000)
			}
			s := newSession(rt, cfg, 5)
			defer s.close()
			host, client := 0, 1
			hostID, clientID := s.agents[host].id.nodeID, s.agents[client].id.nodeID
			if err := s.connect(host, s.openConn(host, ""), true, "geth", ""); err != nil {
				rt.Fatal(err)
			}
			if err := s.connect(client, s.openConn(client, ""), false, "geth", ""); err != nil {
				rt.Fatal(err)
			}
			w := walletIdent(0)
			if err := s.addNode(w, hostID); err != nil {
				rt.Fatal(err)
			}
			if _, err := s.update(client, []string{hostID}, 1, false, false); err != nil {
				rt.Fatal(err)
			}
			var shape []string
			for i, n := 0, rapid.IntRange(1, 5).Draw(rt, "warm"); i < n; i++ {
				d := time.Duration(rapid.Int64Range(1, int64(55*time.Second)).Draw(rt, "adv"))
				time.Sleep(d)
				switch rapid.IntRange(0, 2).Draw(rt, "warmOp") {
				case 0:
					if _, err := s.update(client, []string{hostID}, uint64(i), rapid.Bool().Draw(rt, "enode"), false); err != nil {
						rt.Fatalf("warm-up keep-alive: %v", err)
					}
					shape = append(shape, "cu")
				case 1:
					if _, err := s.update(host, []string{clientID}, uint64(i), false, false); err != nil {
						rt.Fatalf("warm-up host keep-alive: %v", err)
					}
					shape = append(shape, "hu")
				default:
					if _, err := s.peer(client, 1, ""); err != nil && classifyErr(err).Kind != "nohosts" {
						rt.Fatalf("warm-up peer: %v", err)
					}
					shape = append(shape, "p")
				}
			}

			endpoint := rapid.SampledFrom([]string{"connect", "update", "peer", "host", "client", "addNode", "withdraw"}).Draw(rt, "endpoint")
			kind := rapid.SampledFrom([]string{"otherkey", "sigbyte", "short", "empty", "garbage", "stale", "replay", "farahead"}).Draw(rt, "refusal")
			isWallet := endpoint == "addNode" || endpoint == "withdraw"
			victimIdx := rapid.SampledFrom([]int{host, client}).Draw(rt, "victim")
			victim := s.agents[victimIdx].id
			vid := victim.nodeID
			if isWallet {
				victim = w
				vid = w.addr
			}
			forger := nodeIdent(4)
			if isWallet {
				forger = walletIdent(2)
			}
			s.mu.Lock()
			lastAccepted := s.nonceLast[vid]
			s.mu.Unlock()
			now := time.Now().UnixNano()
			forgedNonce := now + int64(10*time.Minute) // fresh, in the future
			signKey := forger.key
			switch kind {
			case "stale":
				forgedNonce = now - int64(16*time.Minute)
				signKey = victim.key
			case "replay":
				forgedNonce = lastAccepted
				signKey = victim.key
			case "sigbyte", "short", "empty", "garbage":
				signKey = victim.key
			case "farahead":
				// correctly signed by the owner, nonce far ahead of the pool's clock (a skewed agent clock). Whether the
				// pool honours such a request is not this property's business; IF it refuses it, the refusal must leave
				// no trace like any other.
				forgedNonce = now + int64(rapid.SampledFrom([]time.Duration{16 * time.Minute, time.Hour, 24 * time.Hour, 24 * 365 * time.Hour}).Draw(rt, "ahead"))
				signKey = victim.key
			}
			var method string
			var arg interface{}
			switch endpoint {
			case "connect":
				method, arg = "vipnode_connect", s.connectReq(victimIdx == host, "parity", "0xfeed")
			case "update":
				method, arg = "vipnode_update", pool.UpdateRequest{PeerInfo: peerInfos([]string{hostID, clientID}, false), BlockNumber: 999}
			case "peer":
				method, arg = "vipnode_peer", pool.PeerRequest{Num: 3}
			case "host":
				method, arg = "vipnode_host", pool.HostRequest{Kind: "parity", Payout: "0xfeed", NodeURI: "enode://" + vid + "@6.6.6.6:30303"}
			case "client":
				method, arg = "vipnode_client", pool.ClientRequest{Kind: "geth", NumHosts: 2}
			case "addNode":
				method, arg = "pool_addNode", clientID
			case "withdraw":
				method = "pool_withdraw"
			}
			var sig string
			if arg != nil {
				sig = mustSign(signKey, method, vid, forgedNonce, arg)
			} else {
				sig = mustSign(signKey, method, vid, forgedNonce)
			}
			dec := func(x string) []byte {
				if isWallet {
					b, _ := hex.DecodeString(x)
					return b
				}
				b, _ := base64.StdEncoding.DecodeString(x)
				return b
			}
			enc := func(b []byte) string {
				if isWallet {
					return hex.EncodeToString(b)
				}
				return base64.StdEncoding.EncodeToString(b)
			}
			switch kind {
			case "sigbyte":
				b := dec(sig)
				b[rapid.IntRange(0, 63).Draw(rt, "pos")] ^= byte(rapid.IntRange(1, 255).Draw(rt, "mask"))
				sig = enc(b)
			case "short":
				sig = enc(dec(sig)[:rapid.IntRange(1, 63).Draw(rt, "len")])
			case "empty":
				sig = ""
			case "garbage":
				sig = rapid.SampledFrom([]string{"!!!!", "AAAA", "0x", "zz", strings.Repeat("A", 88)}).Draw(rt, "garbage")
			}
			f := &c04Fixture{s: s, host: host, client: client}
			r := c04Req{endpoint: endpoint, method: method, wallet: isWallet}
			viaRPC := rapid.Bool().Draw(rt, "viaRPC")
			// requests travel over the client's connection when sent as JSON-RPC
			before := s.digest()
			err := f.submit(r, sig, vid, forgedNonce, arg, viaRPC)
			// an attacker does not stop at one: the same refused request again and again (any number of refusals
			// leaves as little trace as one)
			burst := rapid.SampledFrom([]int{0, 0, 0, 1, 4, 5, 7, 12}).Draw(rt, "moreRefusals")
			for k := 0; k < burst && classifyErr(err).Kind == "verify"; k++ {
				if e2 := f.submit(r, sig, vid, forgedNonce, arg, viaRPC); classifyErr(e2).Kind != "verify" {
					rt.Fatalf("%s with refusal kind %q against %s was refused once and then not refused when sent again (attempt %d): %v", method, kind, victim.name, k+2, e2)
				}
			}
			after := s.digest()
			if kind == "farahead" && classifyErr(err).Kind != "verify" {
				// honoured (or failed for a reason other than authentication): not a refused request, nothing to check here
				rec.Case(fmt.Sprintf("%s|%s|farahead-not-refused", cfg.Driver, endpoint), false, []string{"endpoint:" + endpoint, "refusal:farahead(not refused)", "driver:" + cfg.Driver}, nil)
				return
			}
			if classifyErr(err).Kind != "verify" {
				rt.Fatalf("%s with refusal kind %q against %s was not refused by verification: %v", method, kind, victim.name, err)
			}
			if before != after {
				rt.Fatalf("refused %s (%s) against %s left a trace:\n%s", method, kind, victim.name, diffDigest(before, after))
			}
			// the owner's next request: nonce below the forged one (when that was the future one), fresh, above its last accepted
			ownNonce := lastAccepted + 1
			if n := time.Now().UnixNano(); n > ownNonce {
				ownNonce = n
			}
			if kind != "stale" && kind != "replay" && ownNonce >= forgedNonce {
				rt.Fatalf("harness: own nonce %d not below forged nonce %d", ownNonce, forgedNonce)
			}
			s.mu.Lock()
			s.nonceLast[vid] = ownNonce
			s.mu.Unlock()
			var ownErr error
			var ownWhat string
			if isWallet && endpoint == "withdraw" {
				// the owner's own withdrawal must go through (no minimum is configured, settlement succeeds)
				ownWhat = "pool_withdraw"
				ownErr = s.pay.Withdraw(rpcCtx(), mustSign(w.key, "pool_withdraw", w.addr, ownNonce), w.addr, ownNonce)
			} else if isWallet {
				ownWhat = "pool_addNode"
				ownErr = s.pay.AddNode(rpcCtx(), mustSign(w.key, "pool_addNode", w.addr, ownNonce, hostID), w.addr, ownNonce, hostID)
			} else {
				ownWhat = "vipnode_update"
				req := pool.UpdateRequest{PeerInfo: peerInfos(nil, false), BlockNumber: 5}
				_, ownErr = s.pool.Update(rpcCtx(), mustSign(victim.key, "vipnode_update", vid, ownNonce, req), vid, ownNonce, req)
			}
			if ownErr != nil {
				rt.Fatalf("after a refused %s (%s, forged nonce now+10min) the legitimate owner %s sent %s with a fresh smaller nonce and was refused: %v (the refused request left a trace: a consumed nonce or a lock)", method, kind, victim.name, ownWhat, ownErr)
			}
			// "no host connection is registered": the pool must still reach the host on the connection it registered on
			// (a fresh requester asks for a peer; the whitelist instruction must arrive on the host's own connection)
			if _, err := s.update(host, nil, 77, false, false); err != nil {
				rt.Fatalf("host check-in before the probe: %v", err)
			}
			probeIdx := 3
			if err := s.connect(probeIdx, s.openConn(probeIdx, ""), false, "geth", ""); err != nil {
				rt.Fatalf("probe client connect: %v", err)
			}
			hostConn := s.agents[host].lastConn()
			callsBefore := len(hostConn.svc.Calls())
			presp, perr := s.peer(probeIdx, 1, "")
			if perr != nil || len(presp.Peers) != 1 || string(presp.Peers[0].ID) != hostID {
				rt.Fatalf("after a refused %s (%s) against %s the pool can no longer offer the registered host: peers=%v err=%v", method, kind, victim.name, presp, perr)
			}
			if len(hostConn.svc.Calls()) != callsBefore+1 {
				rt.Fatalf("after a refused %s (%s, sent over the client's connection) the whitelist instruction for the host did not arrive on the host's own connection (the refused request re-registered the host's route)", method, kind)
			}
			transport := "direct"
			if viaRPC {
				transport = "jsonrpc"
			}
			rec.Case(fmt.Sprintf("%s|%s|%s|%s|%s|%v", cfg.Driver, endpoint, kind, transport, victim.name, shape), true, []string{"endpoint:" + endpoint, "refusal:" + kind, "driver:" + cfg.Driver}, func() interface{} {
				return map[string]interface{}{"driver": cfg.Driver, "endpoint": method, "refusal": kind, "victim": victim.name, "transport": transport, "session": shape, "error": err.Error()}
			})
		})
	})
}
