package props

// C19 through the shipped binary: real TCP source addresses (IPv4, IPv6,
// link-local with a zone) as the gorilla codec and server.go report them.

import (
	"context"
	"fmt"
	"net"
	"net/http"
	"strings"
	"testing"
	"time"

	"github.com/gorilla/websocket"
	"github.com/vipnode/vipnode/v2/ethnode"
	"github.com/vipnode/vipnode/v2/jsonrpc2"
	"github.com/vipnode/vipnode/v2/pool"
	"pgregory.net/rapid"

	"verif/vt"
)

// localAddrs lists addresses of this machine that a connection can be made to (and therefore from).
func localAddrs() []net.IPAddr {
	var out []net.IPAddr
	ifs, _ := net.Interfaces()
	for _, ifc := range ifs {
		addrs, _ := ifc.Addrs()
		for _, a := range addrs {
			if ipn, ok := a.(*net.IPNet); ok {
				x := net.IPAddr{IP: ipn.IP}
				if ipn.IP.IsLinkLocalUnicast() {
					if ipn.IP.To4() != nil {
						continue
					}
					x.Zone = ifc.Name // link-local IPv6 addresses are only usable with their zone
				}
				out = append(out, x)
			}
		}
	}
	return out
}

func TestC19Binary(t *testing.T) {
	rec := vt.For("C19")
	rec.Rule("binary level: `vipnode pool` listens on all interfaces ([::]); a host connects over a real WebSocket to one of this machine's addresses (IPv4 loopback, IPv6 loopback, the interface's IPv4 / IPv6 addresses), so that the source address the pool sees is that address in the form the TCP stack and the gorilla codec report it, with a generated node-URI override (absent, own id with host, own id without host, own id with [::], other port); a light client then asks for a peer over HTTP; oracle: the handed-out URI parses to the host's authenticated id, host = override host or the real source address, port = override port or 30303, and host:port splits (IPv6 in brackets); distinct by (address family, override class)")
	addrs := localAddrs()
	if len(addrs) == 0 {
		t.Skip("no local addresses")
	}
	idBase := 0
	check(t, func(rt *rapid.T) {
		// a pool of its own per case: hosts of earlier cases would stay "active" for two minutes and crowd the
		// candidate list of the client's peer request
		p := startPoolOn(rt, "[::]")
		defer p.stop()
		_, port, _ := net.SplitHostPort(p.addr)
		ipa := rapid.SampledFrom(addrs).Draw(rt, "address")
		ip := ipa.String() // "fe80::1%eth0" for zoned addresses
		family := "ipv4"
		target := ip
		if ipa.IP.To4() == nil {
			family = "ipv6"
			target = "[" + strings.Replace(ip, "%", "%25", 1) + "]"
			if ipa.Zone != "" {
				family = "ipv6zone"
			}
		}
		idBase++
		host := mkIdent(fmt.Sprintf("c19host%d", idBase))
		client := mkIdent(fmt.Sprintf("c19cli%d", idBase))
		ovClass := rapid.SampledFrom([]string{"absent", "absent", "hostless", "unspecified", "ownhost4", "ownhost6", "otherport"}).Draw(rt, "override")
		override, wantHost, wantPort := "", ip, "30303"
		switch ovClass {
		case "hostless":
			override = "enode://" + host.nodeID + "@:30305"
			wantPort = "30305"
		case "unspecified":
			override = "enode://" + host.nodeID + "@[::]:30303"
		case "ownhost4":
			override = "enode://" + host.nodeID + "@203.0.113.9:30303"
			wantHost = "203.0.113.9"
		case "ownhost6":
			override = "enode://" + host.nodeID + "@[2001:db8::9]:30304"
			wantHost, wantPort = "2001:db8::9", "30304"
		case "otherport":
			override = "enode://" + host.nodeID + "@" + target + ":31313"
			wantPort = "31313"
		}
		ctx, cancel := context.WithTimeout(context.Background(), 30*time.Second)
		defer cancel()
		// sometimes the request carries a proxy's X-Forwarded-For header. Whether the pool honours it is its business;
		// the address it then advertises must be the connection's source or exactly the forwarded one
		var hdr http.Header
		forwarded := ""
		if rapid.IntRange(0, 3).Draw(rt, "forwardedFor") == 0 {
			forwarded = rapid.SampledFrom([]string{"203.0.113.50", "2001:db8::25", "2001:db8::beef", "::1", "2001:db8:0:1::30", "198.51.100.1, 2001:db8::9"}).Draw(rt, "xff")
			hdr = http.Header{"X-Forwarded-For": []string{forwarded}}
		}
		conn, _, err := websocket.DefaultDialer.Dial("ws://"+target+":"+port+"/", hdr)
		if err != nil {
			rt.Fatalf("%s (target %s)", p.dialFailure(err), target)
		}
		codec := &wsTestCodec{conn: conn}
		svc := &HostSvc{}
		remote := &jsonrpc2.Remote{Codec: codec, Server: svc.handler(), Client: &jsonrpc2.Client{}}
		go remote.Serve()
		defer conn.Close()
		req := pool.ConnectRequest{VipnodeVersion: "verif", NodeURI: override, NodeInfo: ethnode.UserAgent{Version: "Geth/verif", Kind: ethnode.Geth, IsFullNode: true, Network: 1}}
		n := time.Now().UnixNano()
		var resp pool.ConnectResponse
		if err := remote.Call(ctx, &resp, "vipnode_connect", mustSign(host.key, "vipnode_connect", host.nodeID, n, req), host.nodeID, n, req); err != nil {
			rt.Fatalf("host connecting from %s with override %q refused: %v\n%s", ip, override, err, tailLines(p.log(), 10))
		}
		rp := pool.Remote(httpClient("127.0.0.1:"+port), client.key)
		if _, err := rp.Connect(ctx, pool.ConnectRequest{VipnodeVersion: "verif", NodeInfo: ethnode.UserAgent{Kind: ethnode.Geth, Network: 1}}); err != nil {
			rt.Fatalf("client connect: %v", err)
		}
		presp, err := rp.Peer(ctx, pool.PeerRequest{Num: 50})
		if err != nil {
			rt.Fatalf("client peer request: %v", err)
		}
		uri := ""
		for _, pn := range presp.Peers {
			if string(pn.ID) == host.nodeID {
				uri = pn.URI
			}
		}
		if uri == "" {
			rt.Fatalf("the host that just registered from %s was not handed out (got %d peers)", ip, len(presp.Peers))
		}
		func() {
			defer func() {
				if r := recover(); r != nil {
					fmt.Printf("C19 binary: host connected from %s with override %q\n", ip, override)
					panic(r)
				}
			}()
			wh := wantHost
			if forwarded != "" && wantHost == ip {
				// no override host: the forwarded client address (last hop) is acceptable too, intact
				last := strings.TrimSpace(forwarded[strings.LastIndex(forwarded, ",")+1:])
				if u, err := ethnode.ParseNodeURI(uri); err == nil {
					if h, _, err := net.SplitHostPort(u.Host); err == nil && h == last {
						wh = last
					}
				}
			}
			checkAdvertised(rt, fmt.Sprintf("handed to a client (host connected from %s, X-Forwarded-For %q, override %q)", ip, forwarded, override), uri, host.nodeID, wh, wantPort, true)
		}()
		if strings.Contains(p.log(), "panic:") {
			rt.Fatalf("pool binary log contains a panic:\n%s", tailLines(p.log(), 40))
		}
		rec.Case(fmt.Sprintf("bin|%s|%s", family, ovClass), family != "ipv4" || ovClass != "absent", []string{"binary", "binary:" + family, "binary:override:" + ovClass}, func() interface{} {
			return map[string]interface{}{"kind": "pool binary", "source_address": ip, "override": override, "advertised": uri}
		})
	})
}

var _ = strings.Contains
