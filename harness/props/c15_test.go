package props

// C15 — no message from the network can crash or wedge a pool or an agent.

import (
	"bytes"
	"context"
	"encoding/base64"
	"encoding/hex"
	"encoding/json"
	"fmt"
	"io"
	"math/big"
	"net"
	"net/http"
	"net/http/httptest"
	"runtime/debug"
	"strings"
	"sync"
	"testing"
	"testing/synctest"
	"time"

	"github.com/ethereum/go-ethereum/rpc"
	"github.com/vipnode/vipnode/v2/agent"
	"github.com/vipnode/vipnode/v2/ethnode"
	"github.com/vipnode/vipnode/v2/jsonrpc2"
	"github.com/vipnode/vipnode/v2/pool"
	"github.com/vipnode/vipnode/v2/request"
	"pgregory.net/rapid"

	"verif/vt"
)

// safeHandler records panics of the wrapped handler instead of letting them
// kill the process (in production a panic in a request goroutine ends the pool).
type safeHandler struct {
	jsonrpc2.Handler
	mu     sync.Mutex
	panics []string
}

func (h *safeHandler) Handle(ctx context.Context, req *jsonrpc2.Message) (resp *jsonrpc2.Message) {
	defer func() {
		if r := recover(); r != nil {
			h.mu.Lock()
			h.panics = append(h.panics, fmt.Sprintf("%v\n%s", r, debug.Stack()))
			h.mu.Unlock()
			resp = &jsonrpc2.Message{ID: req.ID, Version: "2.0", Response: &jsonrpc2.Response{Error: &jsonrpc2.ErrResponse{Code: -32099, Message: "PANIC"}}}
		}
	}()
	return h.Handler.Handle(ctx, req)
}

func (h *safeHandler) firstPanic() string {
	h.mu.Lock()
	defer h.mu.Unlock()
	if len(h.panics) == 0 {
		return ""
	}
	return h.panics[0]
}

// ---------------------------------------------------------------------------
// hostile value generators

func genSig(rt *rapid.T) string {
	n := rapid.SampledFrom([]int{0, 1, 3, 31, 32, 63, 64, 65, 66, 100}).Draw(rt, "sigLen")
	b := rapid.SliceOfN(rapid.Byte(), n, n).Draw(rt, "sigBytes")
	switch rapid.IntRange(0, 4).Draw(rt, "sigEnc") {
	case 0:
		return base64.StdEncoding.EncodeToString(b)
	case 1:
		return hex.EncodeToString(b)
	case 2:
		return "0x" + hex.EncodeToString(b)
	case 3:
		return genText(rt, "sigText")
	default:
		return base64.URLEncoding.EncodeToString(b)
	}
}

func genIdentity(rt *rapid.T) string {
	nodes, wallets := idents()
	switch rapid.IntRange(0, 8).Draw(rt, "idClass") {
	case 0, 1:
		return rapid.SampledFrom(nodes[:4]).Draw(rt, "nodeID").nodeID
	case 2:
		return rapid.SampledFrom(wallets).Draw(rt, "wallet").addr
	case 3:
		return ""
	case 4:
		return strings.Repeat("z", 128)
	case 5:
		return strings.Repeat("0", rapid.SampledFrom([]int{1, 11, 12, 13, 40, 42, 43, 127, 128, 129, 130}).Draw(rt, "idLen"))
	case 6:
		return "0x" + strings.Repeat("g", 40)
	default:
		return genText(rt, "idText")
	}
}

func genURI(rt *rapid.T) string {
	nodes, _ := idents()
	id := rapid.SampledFrom(nodes[:3]).Draw(rt, "uriID").nodeID
	return rapid.SampledFrom([]string{
		"", "enode://", "enode://@", "enode://" + id, "enode://" + id + "@", "enode://" + id + "@1.2.3.4", "enode://" + id + "@1.2.3.4:30303",
		"enode://" + id + "@[::1", "enode://" + id + "@[::]:30303?discport=0", id, id + "@1.2.3.4:1", "http://" + id + "@h:1/p?q#f", "://", ":", "%zz", "enode://%41@h",
		"enode://" + id[:10] + "@1.2.3.4:30303", "enode://" + id + id + "@1.2.3.4:30303", "enode://u:p@h:99999999", "enode://[", "\x00", strings.Repeat("a", 5000),
	}).Draw(rt, "uri")
}

func genHostilePeerInfo(rt *rapid.T) ethnode.PeerInfo {
	p := genPeerInfo(rt)
	if rapid.Bool().Draw(rt, "hostileEnode") {
		p.Enode = rapid.SampledFrom([]string{"enode://", "enode://ab", strings.Repeat("e", 8+127), strings.Repeat("e", 8+128), strings.Repeat("e", 8+129), genURI(rt)}).Draw(rt, "enode")
	}
	if rapid.Bool().Draw(rt, "hostileID") {
		p.ID = genIdentity(rt)
	}
	return p
}

func rawJSON(v interface{}) json.RawMessage {
	b, err := json.Marshal(v)
	if err != nil {
		return json.RawMessage("null")
	}
	return b
}

// genHostileCall returns a method name and positional params (raw JSON each).
func genHostileCall(rt *rapid.T) (string, []json.RawMessage) {
	method := rapid.SampledFrom([]string{"vipnode_connect", "vipnode_update", "vipnode_peer", "vipnode_client", "vipnode_host", "vipnode_ping", "pool_account", "pool_addNode", "pool_withdraw", "pool_status", "vipnode_nope", ""}).Draw(rt, "method")
	nonce := rapid.SampledFrom([]int64{0, -1, 1, time.Now().UnixNano(), time.Now().UnixNano() + int64(time.Hour), 1<<63 - 1, -1 << 63}).Draw(rt, "nonce")
	var body interface{}
	switch method {
	case "vipnode_connect":
		r := genConnectReq(rt)
		r.NodeURI = genURI(rt)
		body = r
	case "vipnode_update":
		r := genUpdateReq(rt, false)
		for i := 0; i < rapid.IntRange(0, 3).Draw(rt, "nHostileInfo"); i++ {
			r.PeerInfo = append(r.PeerInfo, genHostilePeerInfo(rt))
		}
		body = r
	case "vipnode_peer":
		body = pool.PeerRequest{Num: rapid.SampledFrom([]int{-1 << 63, -1 << 31, -7, -1, 0, 1, 3, 1 << 30, 1 << 62, 1<<63 - 1, 1<<63 - 2}).Draw(rt, "num"), Kind: genText(rt, "kind")}
	case "vipnode_client":
		body = pool.ClientRequest{Kind: genText(rt, "kind"), NumHosts: rapid.SampledFrom([]int{-1 << 63, -1 << 31, -1, 0, 1, 1 << 30, 1<<63 - 1, 1<<63 - 2}).Draw(rt, "numHosts")}
	case "vipnode_host":
		body = pool.HostRequest{Kind: genText(rt, "kind"), Payout: genIdentity(rt), NodeURI: genURI(rt)}
	}
	var params []json.RawMessage
	switch method {
	case "vipnode_ping", "pool_status":
	case "pool_account":
		params = []json.RawMessage{rawJSON(genIdentity(rt))}
	case "pool_addNode":
		params = []json.RawMessage{rawJSON(genSig(rt)), rawJSON(genIdentity(rt)), rawJSON(nonce), rawJSON(genIdentity(rt))}
	case "pool_withdraw":
		params = []json.RawMessage{rawJSON(genSig(rt)), rawJSON(genIdentity(rt)), rawJSON(nonce)}
	default:
		params = []json.RawMessage{rawJSON(genSig(rt)), rawJSON(genIdentity(rt)), rawJSON(nonce), rawJSON(body)}
	}
	// sometimes a correctly SIGNED request with hostile content
	if rapid.IntRange(0, 2).Draw(rt, "signIt") == 0 && len(params) >= 3 {
		who := nodeIdent(rapid.IntRange(0, 3).Draw(rt, "signer"))
		id := who.nodeID
		if strings.HasPrefix(method, "pool_") {
			who = walletIdent(0)
			id = who.addr
		}
		n := c15Nonce(id) // the identity's own next nonce: the signed request is a genuine one of that identity
		var args []interface{}
		for _, p := range params[3:] {
			args = append(args, json.RawMessage(p))
		}
		if sig, err := request.Sign(who.key, method, id, n, args...); err == nil {
			params[0], params[1], params[2] = rawJSON(sig), rawJSON(id), rawJSON(n)
		}
	}
	// structural damage: arity and types
	switch rapid.IntRange(0, 9).Draw(rt, "damage") {
	case 0:
		if len(params) > 0 {
			params = params[:rapid.IntRange(0, len(params)-1).Draw(rt, "truncate")]
		}
	case 1:
		params = append(params, rawJSON("extra"))
	case 2:
		if len(params) > 0 {
			params[rapid.IntRange(0, len(params)-1).Draw(rt, "pos")] = json.RawMessage(rapid.SampledFrom([]string{`null`, `{}`, `[]`, `"s"`, `1e400`, `-0`, `1.5`, `true`, `[[[[[[]]]]]]`, `{"peers_info":[{"id":5}]}`, `{"num":"x"}`, `{"node_info":{"kind":"geth"}}`}).Draw(rt, "junk"))
		}
	}
	return method, params
}

// c15MinBalance: the minimum balance of the next C15 session (drawn by the structured test: with 0 a billed client
// is cut off, which takes the pool through its low-balance / disconnect path).
var c15MinBalance int64 = -1000000

// c15Driver: the store driver of the next C15 session (drawn by the structured test).
var c15Driver = "memory"

func c15Session(rt interface{ Fatalf(string, ...interface{}) }) (*session, *safeHandler) {
	cfg := sessCfg{Driver: c15Driver, Price: big.NewInt(1000), Interval: time.Minute, Min: big.NewInt(c15MinBalance)}
	s := newSession(rt, cfg, 4)
	sh := &safeHandler{Handler: s.srv}
	// reconnect helper: all connections of this session go through the panic-recording handler
	return s, sh
}

// rawConn is a raw client of the pool: JSON bytes in, decoded replies out.
type rawConn struct {
	end  *chanCodec
	pool *jsonrpc2.Remote
	done chan struct{}
}

func dialRaw(h jsonrpc2.Handler, onClose func(jsonrpc2.Service) error) *rawConn {
	agentEnd, poolEnd := newCodecPair("pool:0", "203.0.113.77:5555")
	rc := &rawConn{end: agentEnd, done: make(chan struct{})}
	rc.pool = &jsonrpc2.Remote{Codec: poolEnd, Server: h, Client: &jsonrpc2.Client{}, PendingLimit: 50, PendingDiscard: 10}
	go func() {
		rc.pool.Serve()
		poolEnd.Close()
		if onClose != nil {
			onClose(rc.pool)
		}
		close(rc.done)
	}()
	return rc
}

func (rc *rawConn) roundTrip(body []byte, timeout time.Duration) (*jsonrpc2.Message, error) {
	if err := rc.end.writeRaw(body); err != nil {
		return nil, err
	}
	type res struct {
		m   *jsonrpc2.Message
		err error
	}
	ch := make(chan res, 1)
	go func() {
		for {
			m, err := rc.end.ReadMessage()
			if err == nil && m.Request != nil {
				// a hostile request may have registered this very connection as a host: the pool then sends IT
				// reverse requests (vipnode_whitelist); answer them like an agent would and keep waiting
				rc.end.writeRaw([]byte(fmt.Sprintf(`{"jsonrpc":"2.0","id":%s,"result":null}`, string(m.ID))))
				continue
			}
			ch <- res{m, err}
			return
		}
	}()
	select {
	case r := <-ch:
		return r.m, r.err
	case <-time.After(timeout):
		return nil, fmt.Errorf("no reply within %s", timeout)
	}
}

func (rc *rawConn) close() {
	rc.end.Close()
	<-rc.done
}

var c15Tick = func(string) {}

// c15Nonce gives the nonce of correctly signed hostile requests; the structured case points it at the session's
// per-identity nonce sequence so that the honest requests of the same identity made afterwards are not replays.
var c15Nonce = func(string) int64 { return time.Now().UnixNano() }

func c15StructuredCase(rt *rapid.T, rec *vt.Rec) {
	c15MinBalance = rapid.SampledFrom([]int64{-1000000, -1000000, 0}).Draw(rt, "minBalance")
	defer func() { c15MinBalance = -1000000 }()
	c15Driver = rapid.SampledFrom([]string{"memory", "memory", "badger"}).Draw(rt, "driver")
	defer func() { c15Driver = "memory" }()
	s, sh := c15Session(rt)
	c15Nonce = s.nonce
	defer func() { c15Nonce = func(string) int64 { return time.Now().UnixNano() } }()
	defer func() {
		c15Tick("closing every connection and the store after the requests above")
		s.close()
		c15Tick("closed")
	}()
	// a registered host with a live connection and a registered client, so that hostile requests meet real state
	hostConn := s.openConnWith(0, sh)
	if err := s.connect(0, hostConn, true, "geth", ""); err != nil {
		rt.Fatalf("host connect: %v", err)
	}
	cliConn := s.openConnWith(1, sh)
	if err := s.connect(1, cliConn, false, "geth", ""); err != nil {
		rt.Fatalf("client connect: %v", err)
	}
	time.Sleep(time.Duration(rapid.Int64Range(0, int64(90*time.Second)).Draw(rt, "age")))
	// with a minimum balance of 0: a billed client's update takes the pool through its low-balance path (the pool
	// asks the client's hosts to disconnect it) -- also when the host's connection is gone by then. That update is a
	// request like any other: it must be answered.
	if c15MinBalance == 0 && rapid.Bool().Draw(rt, "lowBalanceUpdate") {
		hostID, cliID := s.agents[0].id.nodeID, s.agents[1].id.nodeID
		if _, err := s.update(0, []string{cliID}, 1, false, true); err != nil {
			rt.Fatalf("host update: %v", err)
		}
		if _, err := s.update(1, []string{hostID}, 1, false, true); err != nil && classifyErr(err).Kind != "lowbalance" {
			rt.Fatalf("client update: %v", err)
		}
		time.Sleep(time.Duration(rapid.IntRange(30, 100).Draw(rt, "billedSeconds")) * time.Second)
		if _, err := s.update(0, []string{cliID}, 2, false, true); err != nil {
			rt.Fatalf("host update: %v", err)
		}
		hostGone := rapid.Bool().Draw(rt, "hostConnectionGone")
		if hostGone {
			s.closeConn(hostConn)
			synctest.Wait()
		}
		c15Tick(fmt.Sprintf("billed client's update on the low-balance path (host connection gone: %v)", hostGone))
		errCh := make(chan error, 1)
		go func() {
			_, err := s.update(1, []string{hostID}, 2, false, true)
			errCh <- err
		}()
		var err error
		select {
		case err = <-errCh:
		case <-time.After(2 * time.Minute):
			// (the request's goroutine is stuck in the pool for good, so the bubble cannot end cleanly: say why first)
			fmt.Printf("C15 FAILURE DETAIL: the vipnode_update of a client below the minimum balance (host connection gone: %v) got no reply within 2 virtual minutes\n", hostGone)
			rt.Fatalf("the vipnode_update of a client below the minimum balance (host connection gone: %v) got no reply within 2 virtual minutes", hostGone)
		}
		if k := classifyErr(err).Kind; err != nil && k != "lowbalance" {
			rt.Fatalf("the update of a client below the minimum balance (host connection gone: %v) was not answered with the low-balance error or a result: %v", hostGone, err)
		}
		if p := sh.firstPanic(); p != "" {
			rt.Fatalf("low-balance update made the pool panic:\n%s", p)
		}
		rec.Count(fmt.Sprintf("structured:low-balance-update:refused=%v:hostGone=%v", err != nil, hostGone), 1)
	}
	rc := dialRaw(sh, s.pool.CloseRemote)
	defer rc.close()
	_ = synctest.Wait
	nMsgs := rapid.IntRange(1, 6).Draw(rt, "nMsgs")
	var sample []string
	reached := 0
	for i := 0; i < nMsgs; i++ {
		method, params := genHostileCall(rt)
		idRaw := rapid.SampledFrom([]string{"1", "0", "-5", `"abc"`, "null", "1.5", `"` + strings.Repeat("i", 300) + `"`, "[1]", `{"a":1}`, "18446744073709551616"}).Draw(rt, "id")
		pj, _ := json.Marshal(params)
		if params == nil && rapid.Bool().Draw(rt, "omitParams") {
			pj = nil
		}
		mj, _ := json.Marshal(method)
		// the version member is what other client libraries make of it: "2.0", an older one, absent
		ver := rapid.SampledFrom([]string{`"jsonrpc":"2.0",`, `"jsonrpc":"2.0",`, `"jsonrpc":"2.0",`, `"jsonrpc":"1.0",`, `"jsonrpc":"2",`, `"jsonrpc":"",`, ``}).Draw(rt, "version")
		body := fmt.Sprintf(`{%s"id":%s,"method":%s`, ver, idRaw, mj)
		if pj != nil {
			body += `,"params":` + string(pj)
		}
		// a request that ALSO carries reply members is still a request
		hybrid := rapid.SampledFrom([]string{"", "", "", "", `,"result":null`, `,"error":null`, `,"result":1`, `,"error":{"code":1,"message":"x"}`}).Draw(rt, "hybrid")
		body += hybrid + "}"
		before := s.digest()
		c15Tick("sending " + body)
		reply, err := rc.roundTrip([]byte(body), 30*time.Second)
		if p := sh.firstPanic(); p != "" {
			rt.Fatalf("request made the pool panic:\n%.600s\n%s", body, p)
		}
		if err != nil {
			rt.Fatalf("well-formed JSON-RPC request got no reply (%v): %.600s", err, body)
		}
		if reply.Response == nil || (reply.Response.Error == nil && len(reply.Response.Result) == 0) {
			rt.Fatalf("reply has neither result nor error: request %.300s reply %s", body, canonMsg(reply))
		}
		var wantID, gotID interface{}
		json.Unmarshal([]byte(idRaw), &wantID)
		json.Unmarshal(reply.ID, &gotID)
		if compactJSON(idRaw) != compactJSON(string(reply.ID)) && !(idRaw == "null" && len(reply.ID) == 0) {
			rt.Fatalf("reply carries id %s, the request's id is %s", reply.ID, idRaw)
		}
		code := 0
		if reply.Response.Error != nil {
			code = reply.Response.Error.Code
		}
		if code != jsonrpc2.ErrCodeMethodNotFound {
			reached++
		}
		// a request refused by verification must not change anything (C06's rule, here for hostile shapes)
		if reply.Response.Error != nil && strings.Contains(reply.Response.Error.Message, "failed to verify signature") {
			if after := s.digest(); after != before {
				rt.Fatalf("request refused by verification changed state:\n%s\nrequest: %.400s", diffDigest(before, after), body)
			}
		}
		sample = append(sample, fmt.Sprintf("%.160s -> code %d", body, code))
		// the same connection and another connection still work
		if pong, err := rc.roundTrip([]byte(`{"jsonrpc":"2.0","id":99,"method":"vipnode_ping"}`), 30*time.Second); err != nil || string(pong.Response.Result) != `"pong"` {
			rt.Fatalf("after a hostile request the sending connection no longer answers vipnode_ping (%v): %.400s", err, body)
		}
	}
	var pong string
	if err := cliConn.c.agentSide.Call(context.Background(), &pong, "vipnode_ping"); err != nil || pong != "pong" {
		rt.Fatalf("another connection no longer answers vipnode_ping: %v", err)
	}
	// ... and requests that need more than the RPC layer are still served on other connections
	c15Tick("peer request of the honest client after: " + strings.Join(sample, " ; "))
	if _, err := s.peer(1, 1, ""); err != nil && classifyErr(err).Kind != "nohosts" {
		rt.Fatalf("after the hostile requests the honest client's peer request fails: %v", err)
	}
	// nothing may be left blocked once every connection is closed (a request goroutine stuck for good is a leak
	// that a stream of such requests turns into a wedge)
	c15Tick("closing")
	rc.close()
	s.close()
	time.Sleep(time.Minute)
	synctest.Wait()
	if left := bubbleLeftovers(); len(left) > 0 {
		rt.Fatalf("goroutines are still blocked after all connections were closed:\n%s\nrequests: %v", strings.Join(left, "\n\n"), sample)
	}
	rec.Case(fmt.Sprintf("structured|%v", sample), reached > 0, []string{"structured"}, func() interface{} {
		return map[string]interface{}{"target": "structured requests to the production registration", "requests": sample}
	})
}

func compactJSON(s string) string {
	var b bytes.Buffer
	if err := json.Compact(&b, []byte(s)); err != nil {
		return s
	}
	return b.String()
}

func TestC15Structured(t *testing.T) {
	rec := vt.For("C15")
	rec.Rule("T1 structured: messages of valid JSON-RPC shape sent over a connection to the production registration (pool with a live host and a client, payment, status): every documented method with correctly TYPED but hostile values (signatures of every length and alphabet, node ids / wallets of every length, extreme nonces and counts, hostile node URIs and peer descriptions, sometimes correctly signed), plus arity/type damage and unknown methods, ids of every JSON type; oracle: no panic in any goroutine (panic-recording handler), exactly one reply per request within 30 virtual seconds carrying the request's id and an error or a result, the sending and another connection still answer vipnode_ping, a request refused by verification changes nothing; non-trivial = the message reached a registered method; distinct by request texts")
	defer vt.Watch("TestC15Structured", 75*time.Second)()
	c15Tick = vt.Tick
	defer func() { c15Tick = func(string) {} }()
	check(t, func(rt *rapid.T) {
		rapid.SyncTest(rt, func(rt *rapid.T) { c15StructuredCase(rt, rec) })
	})
}

// ---------------------------------------------------------------------------
// T2 raw bytes into the real stream codec

func genRawBytes(rt *rapid.T) ([]byte, bool) {
	wellFormed := false
	var b []byte
	switch rapid.IntRange(0, 6).Draw(rt, "rawClass") {
	case 0:
		b = rapid.SliceOfN(rapid.Byte(), 0, 200).Draw(rt, "bytes")
	case 1:
		b = []byte(rapid.SampledFrom([]string{`{`, `{"id":1`, `{"id":1,"jsonrpc":"2.0","method":`, `[]`, `null`, `1`, `"x"`, `{}{}{}`, `{"id":{}}`, `{"method":5}`, `{"params":5,"method":"vipnode_ping","id":1}`, `{"id":1,"result":1,"error":{"code":1,"message":"x"},"method":"vipnode_ping"}`, "\xff\xfe", `{"id":1,"jsonrpc":"2.0","method":"vipnode_ping"}` + "\x00", strings.Repeat("[", 10000), `{"id":` + strings.Repeat("9", 400) + `}`}).Draw(rt, "fragment"))
	case 2: // unsolicited replies
		b = []byte(rapid.SampledFrom([]string{`{"id":1,"jsonrpc":"2.0","result":"x"}`, `{"id":1,"jsonrpc":"2.0"}`, `{"id":"z","jsonrpc":"2.0","error":{"code":-1,"message":"m"}}`, `{"jsonrpc":"2.0","result":1}`, `{"id":null,"result":null}`}).Draw(rt, "reply"))
		// Unsolicited replies with DISTINCT ids. (Two unsolicited replies with the same id stop that connection's
		// read loop for good - the second blocks on the one-slot pending channel nobody reads; the property allows
		// floods of unsolicited replies to cost the sender its own connection, and a read loop stuck like that cannot
		// be torn down inside a bubble, so the generator does not produce it; see DESIGN.md §7.)
		n := rapid.IntRange(1, 80).Draw(rt, "floods")
		var all []byte
		for i := 0; i < n; i++ {
			line := bytes.Replace(b, []byte(`"id":1`), []byte(fmt.Sprintf(`"id":%d`, 1000+i)), 1)
			line = bytes.Replace(line, []byte(`"id":"z"`), []byte(fmt.Sprintf(`"id":"z%d"`, i)), 1)
			if i > 0 && bytes.Equal(line, b) {
				break // no id to vary (null / absent id): send it once
			}
			all = append(append(all, line...), '\n')
		}
		b = all
	default:
		method, params := genHostileCall(rt)
		pj, _ := json.Marshal(params)
		mj, _ := json.Marshal(method)
		b = []byte(fmt.Sprintf(`{"jsonrpc":"2.0","id":%d,"method":%s,"params":%s}`, rapid.IntRange(1, 1000).Draw(rt, "id"), mj, pj))
		wellFormed = true
		if rapid.IntRange(0, 3).Draw(rt, "twice") == 0 {
			b = append(append(b, '\n'), b...)
		}
	}
	return b, wellFormed
}

func c15RawCase(rt *rapid.T, rec *vt.Rec) {
	s, sh := c15Session(rt)
	defer s.close()
	hostConn := s.openConnWith(0, sh)
	if err := s.connect(0, hostConn, true, "geth", ""); err != nil {
		rt.Fatalf("host connect: %v", err)
	}
	other := s.openConnWith(1, sh)
	a, b := net.Pipe()
	remote := &jsonrpc2.Remote{Codec: jsonrpc2.IOCodec(b), Server: sh, Client: &jsonrpc2.Client{}, PendingLimit: 50, PendingDiscard: 10}
	served := make(chan error, 1)
	go func() { served <- remote.Serve(); b.Close(); s.pool.CloseRemote(remote) }()
	data, wellFormed := genRawBytes(rt)
	// reader of whatever comes back
	var replies []rawReply
	var rmu sync.Mutex
	readDone := make(chan struct{})
	go func() {
		defer close(readDone)
		dec := json.NewDecoder(a)
		for {
			var r rawReply
			if err := dec.Decode(&r); err != nil {
				return
			}
			rmu.Lock()
			replies = append(replies, r)
			rmu.Unlock()
		}
	}()
	chunk := rapid.SampledFrom([]int{1, 7, 1 << 20}).Draw(rt, "chunk")
	go func() {
		for off := 0; off < len(data); off += chunk {
			end := off + chunk
			if end > len(data) {
				end = len(data)
			}
			if _, err := a.Write(data[off:end]); err != nil {
				return
			}
		}
		a.Write([]byte("\n"))
	}()
	time.Sleep(40 * time.Second) // virtual: everything that can happen has happened
	if p := sh.firstPanic(); p != "" {
		rt.Fatalf("bytes made the pool panic:\n%q\n%s", data, p)
	}
	// every other connection keeps being served
	var pong string
	ctx, cancel := context.WithTimeout(context.Background(), 30*time.Second)
	err := other.c.agentSide.Call(ctx, &pong, "vipnode_ping")
	cancel()
	if err != nil || pong != "pong" {
		rt.Fatalf("after %q another connection no longer answers vipnode_ping: %v", data, err)
	}
	sameConnAlive := false
	select {
	case <-served:
	default:
		sameConnAlive = true
	}
	if wellFormed {
		if !sameConnAlive {
			rt.Fatalf("a well-formed (hostile) request ended its connection: %q", data)
		}
		// the same connection still answers
		go a.Write([]byte(`{"jsonrpc":"2.0","id":424242,"method":"vipnode_ping"}` + "\n"))
		time.Sleep(10 * time.Second)
		rmu.Lock()
		ok := false
		nReplies := 0
		for _, r := range replies {
			if string(r.ID) == "424242" && string(r.Result) == `"pong"` {
				ok = true
			} else {
				nReplies++
			}
		}
		rmu.Unlock()
		if !ok {
			rt.Fatalf("after a well-formed hostile request the same connection does not answer vipnode_ping any more: %q", data)
		}
		want := 1 + bytes.Count(data, []byte("\n"))
		if nReplies != want {
			rt.Fatalf("%d request(s) sent, %d replies received: %q", want, nReplies, data)
		}
	}
	a.Close()
	<-readDone
	if sameConnAlive {
		<-served
	}
	rec.Case(fmt.Sprintf("raw|%q|%d", data, chunk), wellFormed || sameConnAlive, []string{"raw", fmt.Sprintf("raw:wellformed:%v", wellFormed), fmt.Sprintf("raw:conn-survived:%v", sameConnAlive)}, func() interface{} {
		return map[string]interface{}{"target": "raw bytes -> IOCodec -> Remote.Serve", "bytes": fmt.Sprintf("%.300q", data), "write_chunk": chunk, "connection_survived": sameConnAlive}
	})
}

func TestC15RawBytes(t *testing.T) {
	defer vt.Watch("TestC15RawBytes", 120*time.Second)()
	rec := vt.For("C15")
	rec.Rule("T2 raw: generated byte strings (random bytes, truncated/garbled JSON, deep nesting, floods of unsolicited replies, well-formed hostile requests, duplicates), written in chunks of 1 / 7 / all bytes into the real IOCodec + Remote.Serve of a pool connection (net.Pipe, virtual time); oracle: no panic, another connection still answers vipnode_ping, a well-formed request never ends its own connection, gets exactly one reply per request, and the connection then still answers; undecodable JSON may end that one connection; distinct by bytes")
	check(t, func(rt *rapid.T) {
		rapid.SyncTest(rt, func(rt *rapid.T) { c15RawCase(rt, rec) })
	})
}

// ---------------------------------------------------------------------------
// T3 hostile replies to a waiting caller

var hostileReplies = []string{
	`{"id":%ID,"jsonrpc":"2.0"}`,
	`{"id":%ID,"jsonrpc":"2.0","result":null}`,
	`{"id":%ID,"jsonrpc":"2.0","result":1,"error":{"code":-32000,"message":"both"}}`,
	`{"id":%ID,"jsonrpc":"2.0","error":null}`,
	`{"id":%ID,"jsonrpc":"2.0","error":{}}`,
	`{"id":%ID,"jsonrpc":"2.0","error":{"code":"x","message":5}}`,
	`{"id":%ID,"jsonrpc":"2.0","result":"a string"}`,
	`{"id":%ID,"jsonrpc":"2.0","result":12345678901234567890123456789}`,
	`{"id":%ID,"jsonrpc":"2.0","result":[1,2,3]}`,
	`{"id":%ID,"jsonrpc":"2.0","result":{"peers":"x","hosts":5,"balance":"y","invalid_peers":7,"active_peers":{},"pool_version":[]}}`,
	`{"id":%ID,"jsonrpc":"2.0","result":{"peers":[{"ID":5}],"invalid_peers":[null,"",":","enode://"],"active_peers":["enode://","%zz",""],"balance":{"credit":"1e999","deposit":-1}}}`,
	`{"id":%ID,"jsonrpc":"2.0","result":{"peers":[{"ID":"x","uri":"enode://[::1"},{"ID":"y","uri":""}],"invalid_peers":["` + strings.Repeat("f", 128) + `"],"active_peers":["enode://` + strings.Repeat("f", 128) + `@1.2.3.4:1"]}}`,
	`{"id":%ID,"id":%ID,"jsonrpc":"2.0","result":true,"result":false}`,
	`{"id":%ID,"jsonrpc":"2.0","result":{"balance":null,"invalid_peers":[],"active_peers":["http://host/x","%zz","enode://id@1.2.3.4:notaport",":","enode://[::1","\u0000"],"latest_block_number":1}}`,
	`{"id":%ID,"jsonrpc":"2.0","result":{"balance":{"credit":5,"deposit":0},"invalid_peers":["%zz","http://x/y","enode://a@b:c:d",""],"active_peers":[],"latest_block_number":18446744073709551615}}`,
	`{"id":%ID,"jsonrpc":"2.0","result":{"invalid_peers":null,"active_peers":null,"peers":[{"ID":"","uri":"%zz"},{"ID":"q","uri":"http://h"}],"pool_version":"v","message":"m"}}`,
	`{"id":%ID,"jsonrpc":"1.0","result":{"balance":{"credit":` + strings.Repeat("9", 5000) + `}}}`,
}

func c15ReplyCase(rt *rapid.T, rec *vt.Rec) {
	// the caller side is a real Remote; the far end is scripted by the test
	agentEnd, farEnd := newCodecPair("far:0", "near:0")
	caller := &jsonrpc2.Remote{Codec: agentEnd, Server: &jsonrpc2.Server{}, Client: &jsonrpc2.Client{}}
	clientOnly := rapid.IntRange(0, 3).Draw(rt, "clientOnly") == 0
	if clientOnly {
		// as the `vipnode client` command builds its pool connection: nothing is served on it
		caller = &jsonrpc2.Remote{Codec: agentEnd}
	}
	go caller.Serve()
	defer agentEnd.Close()
	tmpl := rapid.SampledFrom(hostileReplies).Draw(rt, "reply")
	preNoise := rapid.SliceOfN(rapid.SampledFrom([]string{`{"id":999,"jsonrpc":"2.0","result":1}`, `{"jsonrpc":"2.0","result":1}`, `{"id":"1","jsonrpc":"2.0","result":"string id"}`, `{"id":1.0,"jsonrpc":"2.0","result":"float id"}`, `{"id":null,"jsonrpc":"2.0","error":{"code":1,"message":"m"}}`}), 0, 3).Draw(rt, "noise")
	dup := rapid.Bool().Draw(rt, "duplicate")
	// the far end may also send requests of its own before it answers (the caller serves none of these names)
	reqNoise := rapid.SliceOfN(rapid.SampledFrom([]string{`{"id":777,"jsonrpc":"2.0","method":"vipnode_whitelist","params":["abc"]}`, `{"id":777,"jsonrpc":"2.0","method":"vipnode_disconnect","params":[]}`, `{"id":777,"jsonrpc":"2.0","method":"","params":null}`, `{"id":777,"jsonrpc":"2.0","method":"x"}`}), 0, 2).Draw(rt, "requestsFromFarEnd")
	var rmu sync.Mutex
	sentReqs := map[string]string{}
	gotReplies := map[string][]*jsonrpc2.Message{}
	// far end: answer every request with the scripted reply
	noiseSeq, nullSent := 0, false
	go func() {
		for {
			m, err := farEnd.ReadMessage()
			if err != nil {
				return
			}
			if m.Request == nil {
				// the caller's answer to one of the far end's own requests
				rmu.Lock()
				gotReplies[string(m.ID)] = append(gotReplies[string(m.ID)], m)
				rmu.Unlock()
				continue
			}
			for _, n := range reqNoise {
				noiseSeq++
				id := fmt.Sprintf("%d", 200000+noiseSeq)
				n = strings.Replace(n, `"id":777`, `"id":`+id, 1)
				rmu.Lock()
				sentReqs[id] = n
				rmu.Unlock()
				farEnd.writeRaw([]byte(n))
			}
			for _, n := range preNoise {
				// every unsolicited reply carries an id of its own (see genRawBytes for why)
				noiseSeq++
				n = strings.Replace(n, `"id":999`, fmt.Sprintf(`"id":%d`, 100000+noiseSeq), 1)
				n = strings.Replace(n, `"id":"1"`, fmt.Sprintf(`"id":"s%d"`, noiseSeq), 1)
				n = strings.Replace(n, `"id":1.0`, fmt.Sprintf(`"id":%d.5`, noiseSeq), 1)
				if strings.Contains(n, `"id":null`) {
					if nullSent {
						continue
					}
					nullSent = true
				}
				farEnd.writeRaw([]byte(n))
			}
			body := strings.ReplaceAll(tmpl, "%ID", string(m.ID))
			farEnd.writeRaw([]byte(body))
			if dup {
				farEnd.writeRaw([]byte(body))
			}
		}
	}()
	who := nodeIdent(0)
	target := rapid.SampledFrom([]string{"call-nil", "call-string", "remotepool-connect", "remotepool-update", "remotepool-peer", "remotepool-client", "remotepool-host", "agent-update"}).Draw(rt, "target")
	ctx, cancel := context.WithTimeout(context.Background(), 20*time.Second)
	defer cancel()
	rp := pool.Remote(caller, who.key)
	var err error
	t0 := time.Now()
	func() {
		defer func() {
			if r := recover(); r != nil {
				rt.Fatalf("reply %s made the caller (%s) panic: %v\n%s", tmpl, target, r, debug.Stack())
			}
		}()
		switch target {
		case "call-nil":
			err = caller.Call(ctx, nil, "x")
		case "call-string":
			var s string
			err = caller.Call(ctx, &s, "x")
		case "remotepool-connect":
			_, err = rp.Connect(ctx, pool.ConnectRequest{})
		case "remotepool-update":
			_, err = rp.Update(ctx, pool.UpdateRequest{})
		case "remotepool-peer":
			_, err = rp.Peer(ctx, pool.PeerRequest{Num: 1})
		case "remotepool-client":
			_, err = rp.Client(ctx, pool.ClientRequest{})
		case "remotepool-host":
			_, err = rp.Host(ctx, pool.HostRequest{})
		case "agent-update":
			node := &recNode{enode: "enode://" + hexID(99) + "@[::]:30303", ua: ethnode.UserAgent{Kind: ethnode.Geth, IsFullNode: false}}
			node.setPeers([]ethnode.PeerInfo{{ID: hexID(1)}, {ID: "short", Enode: "enode://ab"}})
			ag := &agent.Agent{EthNode: node, NumHosts: 3, StrictPeers: rapid.Bool().Draw(rt, "strict")}
			err = ag.UpdatePeers(ctx, rp)
		}
	}()
	// The caller must come back by its context's deadline at the latest (two unsolicited replies with the same id can
	// stop this connection's read loop - allowed by the property - and then the deadline is what ends the call).
	if el := time.Since(t0); el > 21*time.Second {
		rt.Fatalf("caller %s returned only after %s of virtual time (deadline 20s) after reply %s (err=%v)", target, el, tmpl, err)
	}
	// every request of the far end got exactly one well-formed answer with its id and an error (nothing is served here)
	synctest.Wait()
	rmu.Lock()
	for id, raw := range sentReqs {
		rs := gotReplies[id]
		if len(rs) != 1 {
			rmu.Unlock()
			rt.Fatalf("the far end's request %s received %d replies, want exactly one (caller built without a server: %v)", raw, len(rs), clientOnly)
		}
		if rs[0].Response == nil || rs[0].Response.Error == nil {
			rmu.Unlock()
			rt.Fatalf("the far end's request %s (no such method is served) was answered without an error: %v", raw, rs[0])
		}
	}
	nReq := len(sentReqs)
	rmu.Unlock()
	rec.Case(fmt.Sprintf("reply|%s|%s|%v|%v|%v|%v", target, tmpl, preNoise, dup, clientOnly, reqNoise), true, []string{"hostile-reply", "hostile-reply:" + target, fmt.Sprintf("hostile-reply:requests-to-a-caller:%v", nReq > 0), fmt.Sprintf("hostile-reply:caller-without-server:%v", clientOnly)}, func() interface{} {
		return map[string]interface{}{"target": "hostile reply to " + target, "reply": fmt.Sprintf("%.200s", tmpl), "noise_before": preNoise, "duplicate": dup, "caller_result": fmt.Sprint(err)}
	})
}

func TestC15HostileReplies(t *testing.T) {
	defer vt.Watch("TestC15HostileReplies", 120*time.Second)()
	rec := vt.For("C15")
	rec.Rule("T3 replies: a real Remote (plain Call, every pool.RemotePool method, Agent.UpdatePeers on top of it) waits for a reply and the far end answers with generated hostile replies (no result, both result and error, null/empty/mistyped error objects, wrong result types, huge numbers, duplicate keys, hostile peer/URI lists) preceded by unsolicited replies with unknown/string/float/null ids and optionally duplicated; oracle: no panic, the caller returns (error or not) within 20 virtual seconds; distinct by (caller, reply, noise)")
	check(t, func(rt *rapid.T) {
		rapid.SyncTest(rt, func(rt *rapid.T) { c15ReplyCase(rt, rec) })
	})
}

func TestC15HTTPReplies(t *testing.T) {
	rec := vt.For("C15")
	rec.Rule("T3 (HTTP): jsonrpc2.HTTPService.Call and pool.RemotePool over it against an HTTP server that answers with the same hostile replies, wrong status codes, empty and truncated bodies; oracle: no panic, Call returns; distinct by (reply, status)")
	var mu sync.Mutex
	body, status := "", 200
	ts := httptest.NewServer(http.HandlerFunc(func(w http.ResponseWriter, r *http.Request) {
		io.Copy(io.Discard, r.Body)
		mu.Lock()
		b, st := body, status
		mu.Unlock()
		w.WriteHeader(st)
		io.WriteString(w, b)
	}))
	defer ts.Close()
	check(t, func(rt *rapid.T) {
		tmpl := rapid.SampledFrom(append(append([]string{}, hostileReplies...), "", "{", "null", "[]", `{"id":1}`, strings.Repeat("x", 70000))).Draw(rt, "reply")
		mu.Lock()
		body = strings.ReplaceAll(tmpl, "%ID", "1")
		status = rapid.SampledFrom([]int{200, 200, 200, 204, 400, 500}).Draw(rt, "status")
		st := status
		mu.Unlock()
		hs := &jsonrpc2.HTTPService{Endpoint: ts.URL, MaxContentLength: int64(rapid.SampledFrom([]int{0, 10, 100000}).Draw(rt, "max"))}
		rp := pool.Remote(hs, nodeIdent(0).key)
		var err error
		func() {
			defer func() {
				if r := recover(); r != nil {
					rt.Fatalf("HTTP reply %q (status %d) made the caller panic: %v\n%s", body, st, r, debug.Stack())
				}
			}()
			switch rapid.IntRange(0, 2).Draw(rt, "caller") {
			case 0:
				var s string
				err = hs.Call(context.Background(), &s, "x")
			case 1:
				_, err = rp.Update(context.Background(), pool.UpdateRequest{})
			default:
				_, err = rp.Peer(context.Background(), pool.PeerRequest{Num: 1})
			}
		}()
		rec.Case(fmt.Sprintf("http|%s|%d", tmpl, st), true, []string{"hostile-http-reply"}, func() interface{} {
			return map[string]interface{}{"target": "hostile HTTP reply", "body": fmt.Sprintf("%.160s", body), "status": st, "caller_result": fmt.Sprint(err)}
		})
	})
}

// ---------------------------------------------------------------------------
// T4 parsers reachable from the wire

type HostileAdmin struct{ reply func() json.RawMessage }

func (h *HostileAdmin) Peers() json.RawMessage    { return h.reply() }
func (h *HostileAdmin) NetPeers() json.RawMessage { return h.reply() }

func TestC15Parsers(t *testing.T) {
	rec := vt.For("C15")
	rec.Rule("T4 parsers: ethnode.ParseNodeURI and every accessor on generated hostile URIs; PeerInfo.EnodeID/EnodeURI/IsFullNode and Peers.IDs/URIs on generated peer descriptions (enode lengths around the 8+128 cut); request.Verify with generated signatures / identities / arguments; the geth and parity peer-list decoders fed generated JSON through go-ethereum's in-process RPC server; oracle: no panic; distinct by input")
	var mu sync.Mutex
	var adminReply json.RawMessage
	srv := rpc.NewServer()
	ha := &HostileAdmin{reply: func() json.RawMessage { mu.Lock(); defer mu.Unlock(); return adminReply }}
	srv.RegisterName("admin", ha)
	srv.RegisterName("parity", ha)
	fake := &rpcFakeNode{kind: ethnode.Geth}
	srv.RegisterName("web3", &Web3Svc{fake})
	srv.RegisterName("eth", &EthSvc{fake})
	srv.RegisterName("net", &NetSvc{fake})
	client := rpc.DialInProc(srv)
	defer client.Close()
	gethNode, err := ethnode.RemoteNode(client)
	if err != nil {
		t.Fatalf("RemoteNode: %v", err)
	}
	check(t, func(rt *rapid.T) {
		what := rapid.SampledFrom([]string{"nodeuri", "peerinfo", "verify", "peers-json"}).Draw(rt, "what")
		var desc string
		func() {
			defer func() {
				if r := recover(); r != nil {
					rt.Fatalf("%s: input %s caused a panic: %v\n%s", what, desc, r, debug.Stack())
				}
			}()
			switch what {
			case "nodeuri":
				u := genURI(rt)
				if rapid.Bool().Draw(rt, "randomURI") {
					u = genText(rt, "uriText")
				}
				desc = fmt.Sprintf("%.200q", u)
				if p, err := ethnode.ParseNodeURI(u); err == nil {
					_ = p.ID() + p.RemoteAddress() + p.RemoteHost()
				}
			case "peerinfo":
				p := genHostilePeerInfo(rt)
				desc = fmt.Sprintf("%+v", p)
				_ = p.EnodeID() + p.EnodeURI()
				_ = p.IsFullNode()
				ps := ethnode.Peers{p, genHostilePeerInfo(rt)}
				_ = ps.IDs()
				_ = ps.URIs()
			case "verify":
				sig, id := genSig(rt), genIdentity(rt)
				desc = fmt.Sprintf("sig=%.80q id=%.80q", sig, id)
				_ = request.Verify(sig, genText(rt, "method"), id, rapid.Int64().Draw(rt, "nonce"), genJSONValue(rt, 2))
			case "peers-json":
				j := rapid.SampledFrom([]string{`null`, `[]`, `[null]`, `[{}]`, `[{"id":5}]`, `[{"id":"x","protocols":{"eth":1},"network":{"remoteAddress":5}}]`, `{"peers":null}`, `{"peers":[{"id":"a","name":{"ParityClient":{"semver":5}},"protocols":{"eth":{}}}]}`, `{"peers":[{"id":"a","name":"str","protocols":{"eth":null}},{"id":"b","name":7,"protocols":{"x":1}}]}`, `{"peers":[{"name":{"Other":1},"protocols":{"p":1}}]}`, `"str"`, `{"peers":5}`}).Draw(rt, "json")
				desc = j
				mu.Lock()
				adminReply = json.RawMessage(j)
				mu.Unlock()
				gethNode.Peers(context.Background())
				var out interface{}
				client.Call(&out, "parity_netPeers")
			}
		}()
		rec.Case("parser|"+what+"|"+desc, true, []string{"parser:" + what}, func() interface{} {
			return map[string]interface{}{"target": "parser " + what, "input": fmt.Sprintf("%.200s", desc)}
		})
	})
}

// ---------------------------------------------------------------------------
// native fuzz target: raw bytes into a pool connection

func FuzzC15Serve(f *testing.F) {
	f.Add([]byte(`{"jsonrpc":"2.0","id":1,"method":"vipnode_ping"}`))
	f.Add([]byte(`{"jsonrpc":"2.0","id":1,"method":"vipnode_peer","params":["","` + strings.Repeat("0", 128) + `",0,{"num":-3}]}`))
	f.Add([]byte(`{"id":1,"jsonrpc":"2.0"}`))
	f.Add([]byte(`{"jsonrpc":"2.0","id":1,"method":"pool_account","params":["abc"]}`))
	f.Add([]byte(`{"jsonrpc":"2.0","id":1,"method":"vipnode_update","params":["AA==","` + strings.Repeat("a", 128) + `",1,{"peers_info":[{"id":"x","enode":"enode://ab"}],"block_number":1}]}`))
	f.Fuzz(func(t *testing.T, data []byte) {
		s, sh := c15Session(t)
		defer s.close()
		agentEnd, poolEnd := newCodecPair("pool:0", "203.0.113.77:5555")
		remote := &jsonrpc2.Remote{Codec: poolEnd, Server: sh, Client: &jsonrpc2.Client{}}
		done := make(chan struct{})
		go func() { remote.Serve(); close(done) }()
		// split at newlines into messages (the in-memory codec carries one JSON text per message)
		for _, part := range bytes.Split(data, []byte("\n")) {
			if len(part) == 0 {
				continue
			}
			var probe jsonrpc2.Message
			isReq := json.Unmarshal(part, &probe) == nil && probe.Request != nil
			agentEnd.writeRaw(part)
			if isReq {
				ch := make(chan struct{})
				go func() { agentEnd.ReadMessage(); close(ch) }()
				select {
				case <-ch:
				case <-time.After(20 * time.Second):
					t.Fatalf("no reply to %q", part)
				}
			}
		}
		agentEnd.Close()
		<-done
		if p := sh.firstPanic(); p != "" {
			t.Fatalf("panic:\n%s", p)
		}
	})
}
