package props

// C20, command-line level: "while running, a keep-alive is sent every configured interval" - for the agent binary,
// over each kind of pool connection (the wiring between the validated flag and the loop is package main's).

import (
	"bytes"
	"context"
	"fmt"
	"net/http"
	"net/http/httptest"
	"os"
	"os/exec"
	"strings"
	"sync"
	"testing"
	"time"

	"github.com/ethereum/go-ethereum/crypto"
	"github.com/vipnode/vipnode/v2/jsonrpc2"
	"github.com/vipnode/vipnode/v2/jsonrpc2/ws/gorilla"
	"github.com/vipnode/vipnode/v2/pool"
	"pgregory.net/rapid"

	"verif/vt"
)

// CadencePoolSvc notes when each identity's keep-alives arrive.
type CadencePoolSvc struct {
	mu    sync.Mutex
	times map[string][]time.Time
}

func (s *CadencePoolSvc) Connect(ctx context.Context, sig, id string, nonce int64, req pool.ConnectRequest) (*pool.ConnectResponse, error) {
	return &pool.ConnectResponse{PoolVersion: "cadence"}, nil
}
func (s *CadencePoolSvc) Update(ctx context.Context, sig, id string, nonce int64, req pool.UpdateRequest) (*pool.UpdateResponse, error) {
	s.mu.Lock()
	s.times[id] = append(s.times[id], time.Now())
	s.mu.Unlock()
	return &pool.UpdateResponse{InvalidPeers: []string{}, ActivePeers: []string{}}, nil
}
func (s *CadencePoolSvc) Peer(ctx context.Context, sig, id string, nonce int64, req pool.PeerRequest) (*pool.PeerResponse, error) {
	return &pool.PeerResponse{}, nil
}
func (s *CadencePoolSvc) seen(id string) []time.Time {
	s.mu.Lock()
	defer s.mu.Unlock()
	return append([]time.Time(nil), s.times[id]...)
}

func TestC20Cadence(t *testing.T) {
	rec := vt.For("C20")
	rec.Rule("cadence of the binary: two `vipnode agent` processes (fake light-client nodes) run with a generated --update-interval just above the 5 s minimum (5.40-5.49 s: a fractional value that rounding or truncating to whole seconds would shorten by more than the lower bound's slack), one against an http:// and one against a ws:// harness pool that notes when keep-alives arrive; over 3 consecutive gaps per agent: the span is at least 3 x 0.95 x interval (ticks never come early) and the shortest gap is at most 1.25 x interval (stalls of a loaded machine stretch single gaps, a wrong period stretches all of them); distinct by interval")
	rec.Assume("real time; bounds chosen so that machine load cannot produce a false alarm: a late tick is followed by a shorter gap (time.Tick keeps its schedule)")
	bin, err := vipnodeBinary()
	if err != nil {
		t.Fatal(err)
	}
	check(t, func(rt *rapid.T) {
		// a fractional number of seconds just below a half: were the validated value rounded or truncated to whole
		// seconds afterwards, the loop would run at 5 s and four keep-alives would span 15 s - below the lower bound
		interval := 5400*time.Millisecond + time.Duration(rapid.IntRange(0, 90).Draw(rt, "extraMillis"))*time.Millisecond
		dir := tempDir("c20-cadence-")
		defer removeAll(dir)
		svc := &CadencePoolSvc{times: map[string][]time.Time{}}
		srv := &jsonrpc2.Server{}
		if err := srv.Register("vipnode_", svc); err != nil {
			rt.Fatalf("register: %v", err)
		}
		httpSrv := &jsonrpc2.HTTPServer{}
		if err := httpSrv.Register("vipnode_", svc); err != nil {
			rt.Fatalf("register: %v", err)
		}
		up := &gorilla.Upgrader{}
		ts := httptest.NewServer(http.HandlerFunc(func(w http.ResponseWriter, r *http.Request) {
			if strings.EqualFold(r.Header.Get("Upgrade"), "websocket") {
				codec, err := up.Upgrade(r, w, nil)
				if err != nil {
					return
				}
				remote := &jsonrpc2.Remote{Codec: codec, Server: srv, Client: &jsonrpc2.Client{}}
				remote.Serve()
				return
			}
			httpSrv.ServeHTTP(w, r)
		}))
		defer ts.Close()
		type proc struct {
			kind, url string
			id        ident
			cmd       *exec.Cmd
			out       *bytes.Buffer
		}
		procs := []*proc{
			{kind: "http", url: ts.URL, id: nodeIdent(0)},
			{kind: "ws", url: "ws" + strings.TrimPrefix(ts.URL, "http"), id: nodeIdent(1)},
		}
		for _, p := range procs {
			keyFile := fmt.Sprintf("%s/nodekey-%s", dir, p.kind)
			if err := os.WriteFile(keyFile, []byte(fmt.Sprintf("%x", crypto.FromECDSA(p.id.key))), 0o600); err != nil {
				rt.Fatalf("[setup failed] %v", err)
			}
			p.out = &bytes.Buffer{}
			p.cmd = exec.Command(bin, "agent", "-vv", "--rpc", "fakenode://"+p.id.nodeID, "--nodekey", keyFile, "--update-interval", interval.String(), p.url)
			p.cmd.Env = append(os.Environ(), "HOME="+dir)
			p.cmd.Stdout, p.cmd.Stderr = p.out, p.out
			if err := p.cmd.Start(); err != nil {
				rt.Fatalf("[setup failed] start agent: %v", err)
			}
			defer func(p *proc) { p.cmd.Process.Kill(); p.cmd.Wait() }(p)
		}
		const gaps = 3
		deadline := time.Now().Add(time.Duration(gaps)*interval*2 + 40*time.Second)
		for {
			done := true
			for _, p := range procs {
				if len(svc.seen(p.id.nodeID)) < gaps+1 {
					done = false
				}
			}
			if done {
				break
			}
			if time.Now().After(deadline) {
				var sb strings.Builder
				for _, p := range procs {
					fmt.Fprintf(&sb, "%s agent: %d keep-alives seen; output tail:\n%s\n", p.kind, len(svc.seen(p.id.nodeID)), tailLines(p.out.String(), 12))
				}
				rt.Fatalf("--update-interval %s: after %s the pool has not seen %d keep-alives from both agents (a period of twice the configured interval would have sufficed)\n%s", interval, time.Duration(gaps)*interval*2+40*time.Second, gaps+1, sb.String())
			}
			time.Sleep(100 * time.Millisecond)
		}
		summary := map[string]interface{}{"update_interval": interval.String()}
		for _, p := range procs {
			ts := svc.seen(p.id.nodeID)[:gaps+1]
			span := ts[gaps].Sub(ts[0])
			min := span
			var gs []string
			for i := 1; i <= gaps; i++ {
				g := ts[i].Sub(ts[i-1])
				gs = append(gs, g.Round(time.Millisecond).String())
				if g < min {
					min = g
				}
			}
			summary[p.kind+"_gaps"] = gs
			if span < time.Duration(float64(gaps)*0.95*float64(interval)) {
				rt.Fatalf("--update-interval %s, %s pool: %d consecutive keep-alives arrived within %s (gaps %v) - faster than one per interval", interval, p.kind, gaps+1, span, gs)
			}
			if min > time.Duration(1.25*float64(interval)) {
				rt.Fatalf("--update-interval %s, %s pool: the gaps between consecutive keep-alives were %v - every one of them longer than 1.25 x the configured interval: the loop does not run at the configured period", interval, p.kind, gs)
			}
		}
		rec.Case(fmt.Sprintf("cadence|%s", interval), true, []string{"cadence", "cadence:http", "cadence:ws"}, func() interface{} { return summary })
	})
}
