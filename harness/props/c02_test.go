package props

import "testing"

// C02 — a light client pays elapsed x price per active peer; hosts never pay.
func TestC02PoolHistories(t *testing.T) {
	vtRule("C02", "pool level: rapid-generated keep-alive histories in virtual time; for every accepted keep-alive the balance of every node moves by exactly floor(elapsed*price/interval) per active peer on that balance minus the sum for the client (independent math/big model; elapsed = virtual time since the node's previous accepted keep-alive or connect), hosts / zero elapsed / no peers move nothing, response balance == balance read back; non-trivial = a keep-alive that moved credit; distinct by config + op sequence")
	runBilling(t, "C02")
}
