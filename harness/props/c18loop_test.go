package props

// C18 through the agent's own timer: "a failed keep-alive call changes nothing on the node" must also hold for
// the rounds the keep-alive loop runs by itself (TestC18AgentRound drives UpdatePeers directly).

import (
	"errors"
	"fmt"
	"strings"
	"testing"
	"testing/synctest"
	"time"

	"github.com/vipnode/vipnode/v2/agent"
	"github.com/vipnode/vipnode/v2/ethnode"
	"github.com/vipnode/vipnode/v2/pool"
	"pgregory.net/rapid"

	"verif/vt"
)

func c18LoopCase(rt *rapid.T, rec *vt.Rec) {
	interval := time.Duration(rapid.IntRange(1, 90).Draw(rt, "intervalSeconds")) * time.Second
	nPeers := rapid.IntRange(0, 4).Draw(rt, "localPeers")
	var local []ethnode.PeerInfo
	for i := 0; i < nPeers; i++ {
		local = append(local, ethnode.PeerInfo{ID: hexID(10 + i)})
	}
	node := &recNode{enode: "enode://" + hexID(99) + "@[::]:30303", ua: ethnode.UserAgent{Version: "v", Kind: ethnode.Geth, IsFullNode: rapid.Bool().Draw(rt, "fullNode"), Network: 1}}
	node.setPeers(local)
	target := rapid.IntRange(0, 3).Draw(rt, "numHosts")
	strict := rapid.Bool().Draw(rt, "strict")
	failAt := rapid.IntRange(2, 5).Draw(rt, "failingKeepalive") // 1 is the one Start sends
	failPeerCall := rapid.Bool().Draw(rt, "failInPeerRequest")
	sp := &scriptPool{}
	active := func() []string {
		// everything the node has is fine with the pool: nothing is to be dropped in any round
		var r []string
		for _, p := range local {
			r = append(r, p.ID)
		}
		return r
	}
	sp.onUpdate = func(n int, req pool.UpdateRequest) (*pool.UpdateResponse, error) {
		if n == failAt && !failPeerCall {
			return nil, errors.New("scripted keep-alive failure")
		}
		return &pool.UpdateResponse{ActivePeers: active()}, nil
	}
	sp.onPeer = func(n int, req pool.PeerRequest) (*pool.PeerResponse, error) {
		if sp.nUpdate >= failAt && failPeerCall {
			return nil, errors.New("scripted peer-request failure")
		}
		return &pool.PeerResponse{}, nil // no hosts on offer
	}
	a := &agent.Agent{EthNode: node, UpdateInterval: interval, NumHosts: target, StrictPeers: strict}
	if err := a.Start(sp); err != nil {
		rt.Fatalf("Start: %v", err)
	}
	node.take()
	done := make(chan error, 1)
	go func() { done <- a.Wait() }()
	var hist []string
	ended := false
	var loopErr error
	for k := 0; k < 8 && !ended; k++ {
		time.Sleep(interval)
		synctest.Wait()
		select {
		case loopErr = <-done:
			ended = true
		default:
		}
		calls := node.take()
		var changing []string
		for _, c := range calls {
			switch c.Method {
			case "DisconnectPeer", "RemoveTrustedPeer", "ConnectPeer", "AddTrustedPeer":
				changing = append(changing, fmt.Sprintf("%s(%s)", c.Method, shortID(c.Arg)))
			}
		}
		hist = append(hist, fmt.Sprintf("tick %d: keep-alives so far %d, loop ended: %v (%v), node-changing calls: %v", k+1, sp.nUpdate, ended, loopErr, changing))
		if len(changing) > 0 {
			rt.Fatalf("interval=%s local peers=%d target=%d strict=%v, the %d-th keep-alive round fails (in the peer request: %v): the pool lists every local peer as active and offers no hosts, so no round has anything to change on the node, and a failed round changes nothing - yet the node was told %v\nhistory:\n  %s", interval, nPeers, target, strict, failAt, failPeerCall, changing, strings.Join(hist, "\n  "))
		}
	}
	failed := ended && loopErr != nil
	if !ended {
		// (a peer-request failure only happens when there is a shortfall to ask for)
		a.Stop()
		synctest.Wait()
		<-done
	}
	rec.Case(fmt.Sprintf("loop|%s|%d|%d|%v|%d|%v|%v", interval, nPeers, target, strict, failAt, failPeerCall, failed), failed && nPeers > 0, []string{"loop", fmt.Sprintf("loop:round-failed:%v", failed), fmt.Sprintf("loop:failed-in-peer-request:%v", failed && failPeerCall)}, func() interface{} {
		return map[string]interface{}{"kind": "timer-driven rounds", "interval": interval.String(), "local_peers": nPeers, "target": target, "strict": strict, "failing_keepalive": failAt, "history": hist}
	})
}

func TestC18Loop(t *testing.T) {
	defer vt.Watch("TestC18Loop", 120*time.Second)()
	rec := vt.For("C18")
	rec.Rule("timer-driven rounds: a real agent.Agent (recording node with 0-4 local peers, scripted pool that lists every local peer as active and offers no hosts) runs its keep-alive loop in virtual time; the k-th keep-alive (k in 2..5) fails at the pool, in the update or in the follow-up peer request; oracle: no round - the failed one included - makes any call that changes the node (connect/disconnect/trust/un-trust), and the loop ends with the pool's error; non-trivial = a round failed while the node had peers")
	check(t, func(rt *rapid.T) {
		rapid.SyncTest(rt, func(rt *rapid.T) { c18LoopCase(rt, rec) })
	})
}
