package props

// C07 — a withdrawal pays exactly what is owed, once.

import (
	"fmt"
	"math/big"
	"strings"
	"sync"
	"testing"
	"time"

	"github.com/vipnode/vipnode/v2/pool/payment"
	"github.com/vipnode/vipnode/v2/pool/store"
	"pgregory.net/rapid"

	"verif/vt"
)

type c07Wallet struct {
	credit  *big.Int
	deposit *big.Int
}

type c07 struct {
	rt             *rapid.T
	s              *session
	w              map[string]*c07Wallet // by address
	hist           []string
	classes        map[string]bool
	kinds          []string
	nWithdrawOn    map[string]int
	accruedBetween map[string]bool
}

func (c *c07) fail(f string, a ...interface{}) {
	c.rt.Fatalf("%s\nconfig: driver=%s fee=%q withdrawMin=%v deposits=%v settle=%v\nhistory:\n  %s", fmt.Sprintf(f, a...), c.s.cfg.Driver, c.s.cfg.Fee, c.s.cfg.WithdrawMin, c.s.cfg.Deposits, !c.s.cfg.NoSettle, strings.Join(c.hist, "\n  "))
}

func (c *c07) logf(f string, a ...interface{}) { c.hist = append(c.hist, fmt.Sprintf(f, a...)) }

func (c *c07) fee(total *big.Int) *big.Int {
	switch c.s.cfg.Fee {
	case "const":
		return new(big.Int).Sub(total, big.NewInt(25))
	case "prop":
		return new(big.Int).Div(new(big.Int).Mul(total, big.NewInt(99)), big.NewInt(100))
	}
	return new(big.Int).Set(total)
}

func (c *c07) total(addr string) *big.Int {
	return new(big.Int).Add(c.w[addr].credit, c.w[addr].deposit)
}

func (c *c07) checkBalances(after string) {
	for addr, m := range c.w {
		b, err := c.s.bal.GetAccountBalance(store.Account(addr))
		if err != nil {
			c.fail("GetAccountBalance: %v", err)
		}
		if b.Credit.Cmp(m.credit) != 0 || b.Deposit.Cmp(m.deposit) != 0 {
			c.fail("after %s: wallet %s has credit=%s deposit=%s, must have credit=%s deposit=%s", after, nodeName(addr), b.Credit.String(), b.Deposit.String(), m.credit, m.deposit)
		}
	}
}

func (c *c07) settleCount() (int, int) {
	c.s.mu.Lock()
	defer c.s.mu.Unlock()
	return len(c.s.settleLog), len(c.s.feeLog)
}

var c07Amounts = []int64{0, 1, 24, 25, 26, 499, 500, 501, 5000, 123456789}

func c07Case(rt *rapid.T, rec *vt.Rec) {
	cfg := sessCfg{Driver: rapid.SampledFrom([]string{"memory", "badger"}).Draw(rt, "driver"), Price: big.NewInt(1000), Interval: time.Minute, Yield: true}
	cfg.Deposits = rapid.Bool().Draw(rt, "deposits")
	cfg.Fee = rapid.SampledFrom([]string{"", "const", "prop"}).Draw(rt, "fee")
	switch rapid.IntRange(0, 3).Draw(rt, "wmin") {
	case 1:
		cfg.WithdrawMin = big.NewInt(0)
	case 2:
		cfg.WithdrawMin = big.NewInt(500)
	case 3:
		cfg.WithdrawMin = big.NewInt(5000000000000000)
	}
	cfg.NoSettle = rapid.IntRange(0, 9).Draw(rt, "noSettle") == 0
	s := newSession(rt, cfg, 4)
	defer s.close()
	c := &c07{rt: rt, s: s, w: map[string]*c07Wallet{}, classes: map[string]bool{}, nWithdrawOn: map[string]int{}, accruedBetween: map[string]bool{}}
	wallets := []ident{walletIdent(0), walletIdent(1)}
	for _, w := range wallets {
		c.w[w.addr] = &c07Wallet{new(big.Int), new(big.Int)}
	}
	// nodes 0,1 -> w0 ; node 2 -> w1
	for i := 0; i < 3; i++ {
		if err := s.connect(i, s.openConn(i, ""), true, "geth", ""); err != nil {
			rt.Fatal(err)
		}
	}
	linkTo := []int{0, 0, 1}
	for i, wi := range linkTo {
		if err := s.addNode(wallets[wi], s.agents[i].id.nodeID); err != nil {
			rt.Fatal(err)
		}
	}
	accrue := func(wi int, amt *big.Int, viaNode bool) {
		w := wallets[wi]
		if viaNode {
			node := 2
			if wi == 0 {
				node = rapid.IntRange(0, 1).Draw(rt, "node")
			}
			if err := s.raw.AddNodeBalance(store.NodeID(s.agents[node].id.nodeID), amt); err != nil {
				c.fail("accrue: %v", err)
			}
		} else if err := s.raw.AddAccountBalance(store.Account(w.addr), amt); err != nil {
			c.fail("accrue: %v", err)
		}
		c.w[w.addr].credit.Add(c.w[w.addr].credit, amt)
		if c.nWithdrawOn[w.addr] > 0 {
			c.accruedBetween[w.addr] = true
		}
		c.logf("accrue %s += %s", w.name, amt)
	}
	genAmt := func() *big.Int {
		if rapid.IntRange(0, 4).Draw(rt, "bigAmt") == 0 {
			return new(big.Int).Add(big.NewInt(5000000000000000), big.NewInt(rapid.Int64Range(-2, 2).Draw(rt, "aroundMin")))
		}
		return big.NewInt(rapid.SampledFrom(c07Amounts).Draw(rt, "amount"))
	}
	// one withdrawal, sequentially, against the model
	withdraw := func(wi int, settleFails bool) {
		w := wallets[wi]
		// the wallet may earn (or spend) while the slow settlement is in flight: what was not settled stays owed
		during := new(big.Int)
		if rapid.IntRange(0, 2).Draw(rt, "changeDuringSettle") == 0 {
			during = big.NewInt(int64(rapid.SampledFrom([]int{1, 100, -100, 250, 123456789}).Draw(rt, "during")))
		}
		viaNode := rapid.Bool().Draw(rt, "duringViaNode")
		s.mu.Lock()
		s.settleHook = func(acct store.Account, _ *big.Int) error {
			if during.Sign() != 0 {
				var err error
				if viaNode {
					node := 2
					if wi == 0 {
						node = 0
					}
					err = s.raw.AddNodeBalance(store.NodeID(s.agents[node].id.nodeID), during)
				} else {
					err = s.raw.AddAccountBalance(acct, during)
				}
				if err != nil {
					return err
				}
			}
			if settleFails {
				return errScripted
			}
			return nil
		}
		s.mu.Unlock()
		n0, _ := c.settleCount()
		total := c.total(w.addr)
		err := s.withdraw(w)
		n1, _ := c.settleCount()
		c.logf("withdraw %s (model total %s, settleFails=%v, credit changes by %s while settling) -> %v", w.name, total, settleFails, during, err)
		settleRan := !cfg.NoSettle && !(cfg.WithdrawMin != nil && total.Cmp(cfg.WithdrawMin) < 0)
		if settleRan && during.Sign() != 0 {
			c.classes["credit-changed-during-settle"] = true
		}
		c.nWithdrawOn[w.addr]++
		belowMin := cfg.WithdrawMin != nil && total.Cmp(cfg.WithdrawMin) < 0
		switch {
		case cfg.NoSettle:
			if err != payment.ErrWithdrawDisabled {
				c.fail("withdraw without a settle handler: %v", err)
			}
			if n1 != n0 {
				c.fail("settle called although withdrawals are disabled")
			}
		case belowMin:
			if _, ok := err.(payment.WithdrawBalanceMinimumError); !ok {
				c.fail("withdraw of %s with total %s below the minimum %s: got %v", w.name, total, cfg.WithdrawMin, err)
			}
			if n1 != n0 {
				c.fail("settle was called for a balance below the minimum")
			}
			c.classes["below-min"] = true
		default:
			if n1 != n0+1 {
				c.fail("withdraw of %s: settle handler called %d times, want once", w.name, n1-n0)
			}
			s.mu.Lock()
			call := s.settleLog[n1-1]
			s.mu.Unlock()
			if call.Account != w.addr || call.Amount.Cmp(c.fee(total)) != 0 || call.New.Sign() != 0 {
				c.fail("withdraw of %s: settle(%s, amount=%s, newBalance=%s), must be settle(%s, amount=fee(%s)=%s, newBalance=0)", w.name, nodeName(call.Account), call.Amount, call.New, w.name, total, c.fee(total))
			}
			if settleFails {
				if err == nil {
					c.fail("settlement failed but withdraw returned success")
				}
				c.w[w.addr].credit.Add(c.w[w.addr].credit, during)
				c.classes["settle-failed"] = true
			} else {
				if err != nil {
					c.fail("withdraw of %s failed: %v", w.name, err)
				}
				c.w[w.addr].credit.Set(during)
				c.w[w.addr].deposit.SetInt64(0)
				c.classes["paid"] = true
				if total.Sign() > 0 {
					c.classes["paid>0"] = true
				}
			}
		}
	}
	// k concurrent withdrawals (+ optional accrual, + optional other wallet) under the owned scheduler or free-running
	race := func(wi int, scheduled bool) {
		w := wallets[wi]
		k := rapid.IntRange(2, 3).Draw(rt, "k")
		withAccrual := rapid.Bool().Draw(rt, "withAccrual")
		withOther := rapid.Bool().Draw(rt, "withOther")
		failAt := rapid.IntRange(0, k+1).Draw(rt, "failSettleAt") // 0 = never; i = the i-th settle attempt fails
		accrual := genAmt()
		var attempts int
		var amu sync.Mutex
		s.mu.Lock()
		s.settleHook = func(store.Account, *big.Int) error {
			amu.Lock()
			attempts++
			at := attempts
			amu.Unlock()
			if at == failAt {
				return errScripted
			}
			return nil
		}
		nSettle0 := len(s.settleLog)
		nFee0 := len(s.feeLog)
		s.mu.Unlock()
		t0 := map[string]*big.Int{}
		for a := range c.w {
			t0[a] = c.total(a)
		}
		type req struct {
			w     ident
			nonce int64
			sig   string
		}
		var names []string
		var fns []func()
		errs := make([]error, 0)
		var emu sync.Mutex
		results := map[string]error{}
		mk := func(name string, w ident) {
			n := s.nonce(w.addr)
			// the owner may spell its address differently in each request (checksummed, lower case, upper-case digits):
			// it is the same wallet and the same deposit
			as := w.addr
			switch rapid.IntRange(0, 5).Draw(rt, "spelling") {
			case 0:
				as = strings.ToLower(w.addr)
				c.classes["race-other-spelling"] = true
			case 1:
				as = "0x" + strings.ToUpper(w.addr[2:])
				c.classes["race-other-spelling"] = true
			}
			r := req{w, n, mustSign(w.key, "pool_withdraw", as, n)}
			names = append(names, name)
			fns = append(fns, func() {
				err := s.pay.Withdraw(rpcCtx(), r.sig, as, r.nonce)
				emu.Lock()
				results[name] = err
				emu.Unlock()
			})
		}
		for i := 0; i < k; i++ {
			mk(fmt.Sprintf("withdraw%d(%s)", i+1, w.name), w)
		}
		other := wallets[1-wi]
		if withOther {
			mk(fmt.Sprintf("withdraw(%s)", other.name), other)
		}
		if withAccrual {
			names = append(names, "accrue")
			fns = append(fns, func() {
				if err := s.st.AddAccountBalance(store.Account(w.addr), accrual); err != nil {
					emu.Lock()
					results["accrue"] = err
					emu.Unlock()
				}
			})
		}
		var trace []string
		if scheduled {
			sc := newSched()
			s.ys.sc = sc
			if k >= 3 && rapid.IntRange(0, 2).Draw(rt, "pipelined") == 0 {
				// Staggered arrivals instead of a drawn schedule: whenever the withdrawal that is furthest along stands
				// in its settlement, ONE newcomer is let in (as far as its own settlement or until it has to wait),
				// then the leader goes on; the next newcomer only arrives when the next leader stands in its
				// settlement. (Two racing requests behind one that is being settled, then a late third - the order in
				// which a per-wallet lock, queue or in-flight table has to get its hand-overs right.)
				releases := map[int]int{}
				newcomerOf := map[int]int{} // leader task -> newcomer it let in (-1 = none left)
				c.classes["race-pipelined"] = true
				trace = sc.runWith(func(ps []*parkedTask) int {
					pickTask := func(t int) int {
						for i, p := range ps {
							if p.task == t {
								releases[t]++
								return i
							}
						}
						return -1
					}
					for _, p := range ps {
						if p.label != "Settle" {
							continue
						}
						nc, ok := newcomerOf[p.task]
						if !ok {
							nc = -1
							for _, q := range ps {
								if releases[q.task] == 0 {
									nc = q.task
									break
								}
							}
							newcomerOf[p.task] = nc
						}
						if nc >= 0 {
							// still on its way in (parked before its own settlement)?
							for _, q := range ps {
								if q.task == nc && q.label != "Settle" {
									return pickTask(nc)
								}
							}
						}
					}
					// nobody to let in: the task that is furthest along goes on
					best := ps[0].task
					for _, q := range ps {
						if releases[q.task] > releases[best] {
							best = q.task
						}
					}
					return pickTask(best)
				}, names, fns)
			} else {
				trace = sc.run(rt, names, fns)
			}
			s.ys.sc = nil
		} else {
			var wg sync.WaitGroup
			start := make(chan struct{})
			for _, fn := range fns {
				fn := fn
				wg.Add(1)
				go func() { defer wg.Done(); <-start; fn() }()
			}
			close(start)
			wg.Wait()
		}
		_ = errs
		c.logf("race on %s: %v accrual=%v(%s) failSettleAt=%d scheduled=%v\n      schedule: %v\n      results: %v", w.name, names, withAccrual, accrual, failAt, scheduled, trace, fmtResults(names, results))
		if err := results["accrue"]; err != nil {
			c.fail("accrual failed: %v", err)
		}
		// conservation per wallet: sum of settled (pre-fee) totals of successful settlements + what is left == what was owed + accrued
		s.mu.Lock()
		settles := append([]settleCall(nil), s.settleLog[nSettle0:]...)
		s.mu.Unlock()
		_ = nFee0
		paid := map[string]*big.Int{w.addr: new(big.Int), other.addr: new(big.Int)}
		okSettles := map[string]int{}
		for _, sc := range settles {
			if sc.New.Sign() != 0 {
				c.fail("settle called with new on-chain balance %s, must be 0", sc.New)
			}
			if sc.Pre == nil || c.fee(sc.Pre).Cmp(sc.Amount) != 0 {
				c.fail("settle amount %s is not the fee-adjusted value of the balance that was read (%v)", sc.Amount, sc.Pre)
			}
			if !sc.OK {
				continue
			}
			acct := string(canonAccount(store.Account(sc.Account)))
			okSettles[acct]++
			paid[acct].Add(paid[acct], sc.Pre)
		}
		okTasks := map[string]int{}
		for name, err := range results {
			if name == "accrue" {
				continue
			}
			addr := w.addr
			if strings.Contains(name, "("+other.name+")") {
				addr = other.addr
			}
			switch e := err.(type) {
			case nil:
				okTasks[addr]++
			case payment.WithdrawBalanceMinimumError:
			default:
				k := classifyErr(err).Kind
				if k != "verify" && err != errScripted && err != payment.ErrWithdrawDisabled {
					c.fail("racing withdraw %s: unexpected error %v (%T)", name, err, e)
				}
			}
		}
		for _, wl := range []ident{w, other} {
			if okTasks[wl.addr] != okSettles[wl.addr] {
				c.fail("wallet %s: %d withdrawals reported success but %d settlements succeeded", wl.name, okTasks[wl.addr], okSettles[wl.addr])
			}
			b, err := s.bal.GetAccountBalance(store.Account(wl.addr))
			if err != nil {
				c.fail("GetAccountBalance: %v", err)
			}
			left := new(big.Int).Add(&b.Credit, &b.Deposit)
			owed := new(big.Int).Set(t0[wl.addr])
			if wl.addr == w.addr && withAccrual {
				owed.Add(owed, accrual)
			}
			// what was settled (before fees) never exceeds what the wallet was owed: a second payment of the same
			// earnings is not made good by driving the stored credit below zero
			if owed.Sign() >= 0 && paid[wl.addr].Cmp(owed) > 0 {
				c.fail("wallet %s was owed %s in total, the racing withdrawals settled %s (before fees) and left it with %s: the same earnings were paid more than once\n  settle calls: %v", wl.name, owed, paid[wl.addr], left, fmtSettles(settles))
			}
			sum := new(big.Int).Add(paid[wl.addr], left)
			if sum.Cmp(owed) != 0 {
				c.fail("wallet %s: settled (before fees) %s + still owed %s = %s, but it was owed %s in total: earnings were paid twice or lost\n  settle calls: %v", wl.name, paid[wl.addr], left, sum, owed, fmtSettles(settles))
			}
			// resync the model with the real outcome (any serial order is legitimate)
			c.w[wl.addr].credit.Set(&b.Credit)
			c.w[wl.addr].deposit.Set(&b.Deposit)
		}
		c.classes["race"] = true
		if scheduled {
			c.classes["race-scheduled"] = true
		}
		if okSettles[w.addr] > 0 {
			c.classes["race-paid"] = true
		}
	}

	n := rapid.IntRange(3, 14).Draw(rt, "steps")
	for i := 0; i < n; i++ {
		op := rapid.SampledFrom([]string{"accrue", "accrue", "accrueNode", "deposit", "withdraw", "withdraw", "withdrawFail", "refused", "race", "raceFree"}).Draw(rt, "op")
		wi := rapid.IntRange(0, 1).Draw(rt, "wallet")
		switch op {
		case "accrue":
			accrue(wi, genAmt(), false)
		case "accrueNode":
			accrue(wi, genAmt(), true)
		case "deposit":
			if !cfg.Deposits {
				continue
			}
			amt := genAmt()
			s.proxy.setDeposit(store.Account(wallets[wi].addr), amt)
			c.w[wallets[wi].addr].deposit.Set(amt)
			c.logf("deposit %s := %s", wallets[wi].name, amt)
		case "withdraw":
			withdraw(wi, false)
		case "withdrawFail":
			withdraw(wi, true)
		case "refused":
			w := wallets[wi]
			nn := s.nonce(w.addr)
			n0, _ := c.settleCount()
			err := s.pay.Withdraw(rpcCtx(), mustSign(walletIdent(2).key, "pool_withdraw", w.addr, nn), w.addr, nn)
			n1, _ := c.settleCount()
			c.logf("forged withdraw of %s -> %v", w.name, err)
			if classifyErr(err).Kind != "verify" || n1 != n0 {
				c.fail("withdraw signed by another key: err=%v, settle calls %d", err, n1-n0)
			}
			c.classes["refused"] = true
		case "race":
			if cfg.NoSettle {
				continue
			}
			race(wi, true)
		case "raceFree":
			if cfg.NoSettle {
				continue
			}
			race(wi, false)
		}
		c.kinds = append(c.kinds, op)
		c.checkBalances(op)
	}
	nontrivial := c.classes["race"] || c.classes["settle-failed"] || c.classes["credit-changed-during-settle"]
	for a, k := range c.nWithdrawOn {
		if k >= 2 && c.accruedBetween[a] {
			nontrivial = true
		}
	}
	var cl []string
	for k := range c.classes {
		cl = append(cl, k)
	}
	cl = sortedCopy(cl)
	rec.Case(fmt.Sprintf("%s|%s|%v|%v|%v|%s|%s", cfg.Driver, cfg.Fee, cfg.WithdrawMin, cfg.Deposits, cfg.NoSettle, strings.Join(c.kinds, ","), strings.Join(cl, ",")), nontrivial, append(cl, "driver:"+cfg.Driver, "fee:"+cfg.Fee), func() interface{} {
		return map[string]interface{}{"driver": cfg.Driver, "fee": cfg.Fee, "withdraw_min": fmt.Sprint(cfg.WithdrawMin), "deposits": cfg.Deposits, "history": c.hist, "classes": cl}
	})
}

func fmtResults(names []string, res map[string]error) string {
	var p []string
	for _, n := range names {
		p = append(p, fmt.Sprintf("%s=%v", n, res[n]))
	}
	return strings.Join(p, "; ")
}

func fmtSettles(s []settleCall) string {
	var p []string
	for _, c := range s {
		p = append(p, fmt.Sprintf("settle(%s, %s, new=%s) ok=%v", nodeName(c.Account), c.Amount, c.New, c.OK))
	}
	return strings.Join(p, "; ")
}

func TestC07Withdraw(t *testing.T) {
	defer vt.Watch("TestC07Withdraw", 120*time.Second)()
	rec := vt.For("C07")
	rec.Rule("payment fixture (real PaymentService over memory/badger behind the deposit overlay; fee in {none, constant 25, 1%}; minimum in {none,0,500,5e15}; settle handler present or absent; wallets w0 (two nodes) and w1): rules accrue (wallet or via linked node), deposit change, withdraw, withdraw with failing settlement, forged withdraw, race = 2-3 concurrent withdrawals of one wallet (+ a racing accrual, + a withdrawal of the other wallet, settlement failing at a drawn attempt) under the harness-owned scheduler with yield points at every store call and the settle call, and the same free-running; oracle: model decides executes <=> settle configured and deposit+credit >= min and settle ok, settle(amount == fee(deposit+credit), new balance 0), balance 0 afterwards, failure leaves balances unchanged, other wallet untouched; for races conservation: sum of settled pre-fee totals + what is still owed == owed before + accrued, and #successes == #successful settlements; non-trivial = a race, a failed settlement, or >=2 withdrawals of one wallet with accrual in between; distinct by config + op sequence + classes")
	check(t, func(rt *rapid.T) {
		rapid.SyncTest(rt, func(rt *rapid.T) { c07Case(rt, rec) })
	})
}
