package props

// Shared fixtures: deterministic key material, request signing, an in-memory
// JSON codec pair with generated remote addresses, scripted hosts.

import (
	"bytes"
	"context"
	"crypto/ecdsa"
	"crypto/sha256"
	"encoding/gob"
	"encoding/json"
	"errors"
	"fmt"
	"io"
	"os"
	"sort"
	"strings"
	"sync"
	"testing"
	"time"

	"github.com/ethereum/go-ethereum/crypto"
	"github.com/ethereum/go-ethereum/p2p/discv5"
	"github.com/vipnode/vipnode/v2/jsonrpc2"
	"github.com/vipnode/vipnode/v2/request"

	"verif/vt"
)

func TestMain(m *testing.M) {
	code := m.Run()
	vt.Flush()
	if binPath != "" {
		os.Remove(binPath) // the vipnode binary built for the binary-level tests of this process
	}
	if childPath != "" {
		os.Remove(childPath) // the crash child of the C13 tests
	}
	os.Exit(code)
}

// ---------------------------------------------------------------------------
// keys

type ident struct {
	key    *ecdsa.PrivateKey
	nodeID string // 128 hex chars
	addr   string // 0x… wallet address (EIP-55 mixed case)
	name   string
}

func mkIdent(label string) ident {
	for i := 0; ; i++ {
		h := sha256.Sum256([]byte(fmt.Sprintf("verif-key-%s-%d", label, i)))
		k, err := crypto.ToECDSA(h[:])
		if err != nil {
			continue
		}
		return ident{key: k, nodeID: discv5.PubkeyID(&k.PublicKey).String(), addr: crypto.PubkeyToAddress(k.PublicKey).Hex(), name: label}
	}
}

var (
	identOnce    sync.Once
	nodeIdents   []ident
	walletIdents []ident
)

func idents() ([]ident, []ident) {
	identOnce.Do(func() {
		for i := 0; i < 10; i++ {
			nodeIdents = append(nodeIdents, mkIdent(fmt.Sprintf("n%d", i)))
		}
		for i := 0; i < 4; i++ {
			walletIdents = append(walletIdents, mkIdent(fmt.Sprintf("w%d", i)))
		}
	})
	return nodeIdents, walletIdents
}

func nodeIdent(i int) ident   { n, _ := idents(); return n[i] }
func walletIdent(i int) ident { _, w := idents(); return w[i] }

// nodeName maps a node id back to its short harness name for readable samples.
func nodeName(id string) string {
	n, w := idents()
	for _, x := range n {
		// (the same key in another spelling - upper case, 0x prefix - is still that node)
		if x.nodeID == id || strings.EqualFold(x.nodeID, strings.TrimPrefix(strings.TrimPrefix(id, "0x"), "0X")) {
			return x.name
		}
	}
	for _, x := range w {
		if x.addr == id {
			return x.name
		}
	}
	if len(id) > 8 {
		return id[:8]
	}
	return id
}

func mustSign(key *ecdsa.PrivateKey, method, id string, nonce int64, args ...interface{}) string {
	sig, err := request.Sign(key, method, id, nonce, args...)
	if err != nil {
		panic(err)
	}
	return sig
}

// ---------------------------------------------------------------------------
// in-memory codec pair (JSON bytes over channels, like a buffered socket)

type chanCodec struct {
	addr      string
	in        chan []byte
	out       chan []byte
	closed    chan struct{}
	peer      *chanCodec
	closeOnce sync.Once
	latency   time.Duration

	mu       sync.Mutex
	nWritten int
	gate     func() // if set, called at the start of every WriteMessage (lets a test hold a write)
}

func newCodecPair(addrSeenByA, addrSeenByB string) (*chanCodec, *chanCodec) {
	ab := make(chan []byte, 1024)
	ba := make(chan []byte, 1024)
	a := &chanCodec{addr: addrSeenByA, in: ba, out: ab, closed: make(chan struct{})}
	b := &chanCodec{addr: addrSeenByB, in: ab, out: ba, closed: make(chan struct{})}
	a.peer, b.peer = b, a
	return a, b
}

func (c *chanCodec) RemoteAddr() string { return c.addr }

func (c *chanCodec) ReadMessage() (*jsonrpc2.Message, error) {
	// drain what was written before a close, like a socket does
	select {
	case b := <-c.in:
		return decodeMsg(b)
	default:
	}
	select {
	case b := <-c.in:
		return decodeMsg(b)
	case <-c.closed:
		return nil, io.EOF
	case <-c.peer.closed:
		select {
		case b := <-c.in:
			return decodeMsg(b)
		default:
		}
		return nil, io.EOF
	}
}

func decodeMsg(b []byte) (*jsonrpc2.Message, error) {
	var m jsonrpc2.Message
	if err := json.Unmarshal(b, &m); err != nil {
		return nil, err
	}
	return &m, nil
}

func (c *chanCodec) WriteMessage(m *jsonrpc2.Message) error {
	c.mu.Lock()
	g := c.gate
	c.mu.Unlock()
	if g != nil {
		g()
	}
	b, err := json.Marshal(m)
	if err != nil {
		return err
	}
	return c.writeRaw(b)
}

func (c *chanCodec) writeRaw(b []byte) error {
	if c.latency > 0 {
		time.Sleep(c.latency)
	}
	select {
	case <-c.closed:
		return io.ErrClosedPipe
	case <-c.peer.closed:
		return io.ErrClosedPipe
	default:
	}
	select {
	case c.out <- b:
		c.mu.Lock()
		c.nWritten++
		c.mu.Unlock()
		return nil
	case <-c.closed:
		return io.ErrClosedPipe
	case <-c.peer.closed:
		return io.ErrClosedPipe
	}
}

func (c *chanCodec) Close() error {
	c.closeOnce.Do(func() { close(c.closed) })
	return nil
}

// ---------------------------------------------------------------------------
// scripted host service (the reverse RPC a pool calls on full-node hosts)

type hostCall struct {
	Method string
	Arg    string
	At     time.Time // when the handler finished (virtual time in bubbles)
	Seq    int64
}

var seqMu sync.Mutex
var seqCounter int64

func nextSeq() int64 {
	seqMu.Lock()
	defer seqMu.Unlock()
	seqCounter++
	return seqCounter
}

// HostSvc is registered on the host end of a connection. Behaviour per call is
// scripted through Behave.
type HostSvc struct {
	mu     sync.Mutex
	calls  []hostCall
	Behave func(method, arg string) (delay time.Duration, err error)
}

func (h *HostSvc) record(method, arg string) error {
	var d time.Duration
	var err error
	if h.Behave != nil {
		d, err = h.Behave(method, arg)
	}
	if d > 0 {
		time.Sleep(d)
	}
	h.mu.Lock()
	h.calls = append(h.calls, hostCall{Method: method, Arg: arg, At: time.Now(), Seq: nextSeq()})
	h.mu.Unlock()
	return err
}

func (h *HostSvc) Whitelist(ctx context.Context, nodeID string) error {
	return h.record("whitelist", nodeID)
}

func (h *HostSvc) Disconnect(ctx context.Context, nodeID string) error {
	return h.record("disconnect", nodeID)
}

func (h *HostSvc) Calls() []hostCall {
	h.mu.Lock()
	defer h.mu.Unlock()
	return append([]hostCall(nil), h.calls...)
}

func (h *HostSvc) server() *jsonrpc2.Server {
	s := &jsonrpc2.Server{}
	if err := s.RegisterMethod("vipnode_whitelist", h, "Whitelist"); err != nil {
		panic(err)
	}
	if err := s.RegisterMethod("vipnode_disconnect", h, "Disconnect"); err != nil {
		panic(err)
	}
	return s
}

// errNoResult makes the scripted host answer with a message that has neither
// result nor error ({"id":N,"jsonrpc":"2.0"}).
var errNoResult = errors.New("verif:noresult")

// scriptedHandler wraps the host's RPC server so that scripted behaviours can
// produce replies a well-behaved server never sends.
type scriptedHandler struct {
	*jsonrpc2.Server
}

func (h scriptedHandler) Handle(ctx context.Context, req *jsonrpc2.Message) *jsonrpc2.Message {
	resp := h.Server.Handle(ctx, req)
	if resp != nil && resp.Response != nil && resp.Response.Error != nil && resp.Response.Error.Message == errNoResult.Error() {
		return &jsonrpc2.Message{ID: req.ID, Version: jsonrpc2.Version}
	}
	return resp
}

func (h *HostSvc) handler() jsonrpc2.Handler { return scriptedHandler{h.server()} }

// conn is one connection between an agent-side Remote and a pool-side Remote.
type conn struct {
	agentSide *jsonrpc2.Remote
	poolSide  *jsonrpc2.Remote
	agentEnd  *chanCodec
	poolEnd   *chanCodec
	served    chan struct{} // closed when the pool-side Serve loop has returned and onClose ran
	agentDone chan struct{}
}

// dial connects a new agent-side Remote (serving agentHandler for reverse
// calls) to poolHandler the way server.go does for a WebSocket: a Remote per
// connection, Serve until the connection ends, then onClose(remote).
func dial(poolHandler jsonrpc2.Handler, agentHandler jsonrpc2.Handler, sourceAddr string, onClose func(jsonrpc2.Service) error) *conn {
	agentEnd, poolEnd := newCodecPair("pool:0", sourceAddr)
	if agentHandler == nil {
		agentHandler = &jsonrpc2.Server{}
	}
	c := &conn{
		agentEnd:  agentEnd,
		poolEnd:   poolEnd,
		served:    make(chan struct{}),
		agentDone: make(chan struct{}),
	}
	c.poolSide = &jsonrpc2.Remote{Codec: poolEnd, Server: poolHandler, Client: &jsonrpc2.Client{}, PendingLimit: 50, PendingDiscard: 10}
	c.agentSide = &jsonrpc2.Remote{Codec: agentEnd, Server: agentHandler, Client: &jsonrpc2.Client{}}
	go func() {
		c.poolSide.Serve()
		poolEnd.Close()
		if onClose != nil {
			onClose(c.poolSide)
		}
		close(c.served)
	}()
	go func() {
		c.agentSide.Serve()
		close(c.agentDone)
	}()
	return c
}

// Close closes the agent's end and waits until the pool side has noticed and
// ran its disconnect hook.
func (c *conn) Close() {
	c.agentEnd.Close()
	<-c.served
	<-c.agentDone
}

// ---------------------------------------------------------------------------
// misc

var errScripted = errors.New("scripted failure")

func sortedKeys[V any](m map[string]V) []string {
	r := make([]string, 0, len(m))
	for k := range m {
		r = append(r, k)
	}
	sort.Strings(r)
	return r
}

func rpcErrCode(err error) (int, bool) {
	var ec interface{ ErrorCode() int }
	if errors.As(err, &ec) {
		return ec.ErrorCode(), true
	}
	return 0, false
}

func sortStrings(s []string) { sort.Strings(s) }

func removeAll(dir string) { os.RemoveAll(dir) }

func vtRule(id, rule string) { vt.For(id).Rule(rule) }

func gobEncode(w io.Writer, v interface{}) error { return gob.NewEncoder(w).Encode(v) }

func gobDecode(b []byte, v interface{}) error { return gob.NewDecoder(bytes.NewReader(b)).Decode(v) }
