package props

// C19 — a host is advertised only under its own identity and a dialable address.

import (
	"context"
	"errors"
	"fmt"
	"net"
	"strings"
	"sync"
	"testing"
	"time"

	"github.com/vipnode/vipnode/v2/ethnode"
	"github.com/vipnode/vipnode/v2/jsonrpc2"
	"github.com/vipnode/vipnode/v2/pool"
	"github.com/vipnode/vipnode/v2/pool/store"
	"github.com/vipnode/vipnode/v2/pool/store/memory"
	"pgregory.net/rapid"

	"verif/vt"
)

type c19Host struct {
	text  string // as it appears in a URI authority ("1.2.3.4", "[2001:db8::1]", "example.org", "")
	plain string // what Hostname() should give back
	class string
}

func genC19Host() *rapid.Generator[c19Host] {
	return rapid.Custom(func(t *rapid.T) c19Host {
		switch rapid.IntRange(0, 9).Draw(t, "hostClass") {
		case 0, 1:
			ip := fmt.Sprintf("%d.%d.%d.%d", rapid.IntRange(1, 223).Draw(t, "a"), rapid.IntRange(0, 255).Draw(t, "b"), rapid.IntRange(0, 255).Draw(t, "c"), rapid.IntRange(1, 254).Draw(t, "d"))
			return c19Host{ip, ip, "ipv4"}
		case 2, 3, 4:
			ip := rapid.SampledFrom([]string{"2001:db8::1", "2001:db8:0:1::aa:30", "fd00::2", "2a02:6b8::feed:0ff", "::ffff:192.0.2.7", "2001:db8:85a3::8a2e:370:7334"}).Draw(t, "v6")
			return c19Host{"[" + ip + "]", ip, "ipv6"}
		case 5:
			h := rapid.SampledFrom([]string{"node.example.org", "eth-host-1.internal", "a.b"}).Draw(t, "dns")
			if rapid.IntRange(0, 3).Draw(t, "longName") == 0 {
				// DNS allows 253 characters (labels of up to 63): load-balancer and cloud names get long
				n := rapid.SampledFrom([]int{100, 113, 120, 200, 253}).Draw(t, "nameLen")
				h = ""
				for len(h) < n {
					l := 63
					if n-len(h)-1 < l {
						l = n - len(h)
					}
					if h != "" {
						h += "."
						l = min(l, n-len(h))
					}
					h += strings.Repeat("x", max(l, 1))
				}
				h = h[:n]
				h = strings.TrimRight(h, ".")
			}
			return c19Host{h, h, "dns"}
		case 6:
			return c19Host{"", "", "empty"}
		case 7:
			return c19Host{"[::]", "::", "unspec6"}
		case 8:
			return c19Host{"0.0.0.0", "0.0.0.0", "unspec4"}
		default:
			ip := rapid.SampledFrom([]string{"fe80::1%eth0", "fe80::a:b%2"}).Draw(t, "zone")
			return c19Host{"[" + strings.Replace(ip, "%", "%25", 1) + "]", ip, "ipv6zone"}
		}
	})
}

type c19Case struct {
	Source      string `json:"source_addr"`
	Override    string `json:"override"`
	Endpoint    string `json:"endpoint"`
	Accepted    bool   `json:"accepted"`
	Err         string `json:"error,omitempty"`
	Stored      string `json:"stored_uri,omitempty"`
	ExpHost     string `json:"expected_host,omitempty"`
	ExpPort     string `json:"expected_port,omitempty"`
	UserClass   string `json:"user_class"`
	HostClass   string `json:"override_host_class"`
	SourceClass string `json:"source_class"`
}

func TestC19NodeURI(t *testing.T) {
	rec := vt.For("C19")
	rec.Rule("generated (connection source address x node-URI override x endpoint connect/host); oracle: accepted => stored URI parses with ethnode.ParseNodeURI to the authenticated id and a host:port equal to override-or-source host and override-or-30303 port, foreign ids never stored, undeterminable host refused, well-formed class accepted; non-trivial = IPv6 source/override, a missing component, or a foreign id; distinct by (classes, endpoint, outcome)")
	check(t, func(rt *rapid.T) {
		self := nodeIdent(0)
		other := nodeIdent(1)
		client := nodeIdent(2)

		// --- source address as the transport reports it
		src := genC19Host().Filter(func(h c19Host) bool { return h.class != "dns" && h.class != "unspec4" && h.class != "unspec6" }).Draw(rt, "source")
		srcAddr := ""
		if src.class != "empty" {
			srcText := src.text
			if src.class == "ipv6zone" {
				srcText = "[" + src.plain + "]" // net.Addr.String() does not percent-encode zones
			}
			srcAddr = srcText + ":" + fmt.Sprint(rapid.IntRange(1024, 65535).Draw(rt, "srcPort"))
		}

		// --- override
		override := ""
		userClass := "absent"
		var oh c19Host
		oh.class = "absent"
		oport := ""
		scheme := "enode"
		rootless := false
		if rapid.IntRange(0, 5).Draw(rt, "hasOverride") > 0 {
			userClass = rapid.SampledFrom([]string{"own", "own", "own", "other", "empty", "none", "own:password"}).Draw(rt, "user")
			oh = genC19Host().Draw(rt, "ohost")
			oport = rapid.SampledFrom([]string{"", "", ":30303", ":30304", ":1", ":65535"}).Draw(rt, "oport")
			scheme = rapid.SampledFrom([]string{"enode", "enode", "enode", "enode", "http", "ENODE"}).Draw(rt, "scheme")
			tail := rapid.SampledFrom([]string{"", "", "?discport=30301", "/path", "#frag", "?discport=0&x=1"}).Draw(rt, "tail")
			user := ""
			switch userClass {
			case "own":
				user = self.nodeID + "@"
			case "other":
				user = other.nodeID + "@"
			case "empty":
				user = "@"
			case "none":
				user = ""
			case "own:password":
				user = self.nodeID + ":hunter2@"
			}
			override = scheme + "://" + user + oh.text + oport + tail
			if rapid.IntRange(0, 5).Draw(rt, "rootless") == 0 {
				// a scheme but no "//": a rootless URI ("enode:<id>@host:port", "mailto:x"). Outside the documented
				// form; what must hold for it is stated where the result is judged (rootless below)
				override = scheme + ":" + user + oh.text + oport + tail
				if rapid.IntRange(0, 3).Draw(rt, "rootlessOdd") == 0 {
					override = rapid.SampledFrom([]string{"mailto:x", "enode:anything", "enode:", "urn:enode:" + other.nodeID + "@203.0.113.9:30303"}).Draw(rt, "rootlessText")
				}
				rootless = true
			}
			if userClass == "none" && oh.class == "empty" {
				// "enode://:30303" style: no authority at all is still a possible input
			}
		}
		endpoint := rapid.SampledFrom([]string{"connect", "connect", "host"}).Draw(rt, "endpoint")

		// --- system under test
		st := memory.New()
		p := pool.New(st, nil)
		srv := &jsonrpc2.Server{}
		if err := srv.Register("vipnode_", p); err != nil {
			rt.Fatal(err)
		}
		hsvc := &HostSvc{}
		// the registering side: a connection with the generated source address, or - when there is none - sometimes
		// the in-process service (the ":memory:" pool of `vipnode host` / `vipnode agent`), which has no address at all
		var caller jsonrpc2.Service
		transport := "connection"
		if src.class == "empty" && rapid.Bool().Draw(rt, "inProcess") {
			loc := &jsonrpc2.Local{}
			if err := loc.Server.Register("vipnode_", p); err != nil {
				rt.Fatal(err)
			}
			if err := loc.Server.RegisterMethod("vipnode_whitelist", hsvc, "Whitelist"); err != nil {
				rt.Fatal(err)
			}
			caller, transport = loc, "in-process"
		} else {
			c := dial(srv, hsvc.server(), srcAddr, p.CloseRemote)
			defer c.Close()
			caller = c.agentSide
		}
		ctx, cancel := context.WithTimeout(context.Background(), 20*time.Second)
		defer cancel()

		nonce := time.Now().UnixNano()
		var err error
		switch endpoint {
		case "connect":
			req := pool.ConnectRequest{VipnodeVersion: "verif", NodeURI: override, NodeInfo: ethnode.UserAgent{Kind: ethnode.Geth, IsFullNode: true, Network: 1}}
			var resp pool.ConnectResponse
			err = caller.Call(ctx, &resp, "vipnode_connect", mustSign(self.key, "vipnode_connect", self.nodeID, nonce, req), self.nodeID, nonce, req)
		case "host":
			req := pool.HostRequest{Kind: "geth", NodeURI: override}
			var resp pool.HostResponse
			err = caller.Call(ctx, &resp, "vipnode_host", mustSign(self.key, "vipnode_host", self.nodeID, nonce, req), self.nodeID, nonce, req)
		}
		accepted := err == nil

		if transport == "in-process" {
			srcAddr = "(in-process service, no address)"
		}
		cs := c19Case{Source: srcAddr, Override: override, Endpoint: endpoint, Accepted: accepted, UserClass: userClass, HostClass: oh.class, SourceClass: src.class}
		if err != nil {
			cs.Err = err.Error()
			if strings.Contains(cs.Err, "failed to verify") {
				rt.Fatalf("correctly signed %s refused by verification: %v", endpoint, err)
			}
		}

		// expected address
		expHost, hostKnown := "", true
		switch oh.class {
		case "absent", "empty", "unspec6":
			expHost = src.plain
		case "unspec4":
			hostKnown = false // stated don't-care: stored as supplied or refused
		default:
			expHost = oh.plain
		}
		expPort := "30303"
		if oport != "" {
			expPort = oport[1:]
		}
		cs.ExpHost, cs.ExpPort = expHost, expPort

		// the other identity must never appear in the store
		if n, gerr := st.GetNode(store.NodeID(other.nodeID)); gerr == nil {
			rt.Fatalf("a node record for a foreign id appeared: %+v", n)
		}
		stored, gerr := st.GetNode(store.NodeID(self.nodeID))
		if !accepted {
			if gerr == nil && stored.URI != "" {
				// refused but stored: check what would be advertised anyway below
				cs.Stored = stored.URI
				rt.Fatalf("registration refused (%v) but a node with URI %q was stored", err, stored.URI)
			}
			wellFormed := (userClass == "own" || userClass == "empty" || userClass == "absent" || userClass == "own:password") &&
				hostKnown && expHost != "" && (scheme == "enode" || override == "")
			if userClass == "none" || rootless {
				wellFormed = false // "enode://host:port": the host would be read as the id by agents; rootless forms: outside the documented form
			}
			if wellFormed {
				rt.Fatalf("well-formed registration refused: source=%q override=%q: %v", srcAddr, override, err)
			}
		} else {
			if gerr != nil {
				rt.Fatalf("accepted but not stored: %v", gerr)
			}
			cs.Stored = stored.URI
			if rootless {
				// Outside the documented "enode://" form: Go's URL parser sees no host in it and the pool falls back to
				// the connection's address. Either reading is accepted - the address the text names, or the default -
				// but whatever is stored carries the authenticated id and a dialable host:port, also towards clients.
				if u, perr := ethnode.ParseNodeURI(stored.URI); perr != nil || u.ID() != self.nodeID {
					rt.Fatalf("rootless override %q (source %q): stored URI %q does not carry the authenticated id", override, srcAddr, stored.URI)
				} else if h, pt, serr := net.SplitHostPort(u.Host); serr != nil || !((h == src.plain && pt == "30303") || (oh.plain != "" && h == oh.plain && pt == expPort)) {
					rt.Fatalf("rootless override %q (source %q): stored URI %q names neither the connection's address with port 30303 nor the address in the override", override, srcAddr, stored.URI)
				}
				expHost, hostKnown = "", false
				if u, _ := ethnode.ParseNodeURI(stored.URI); u != nil {
					if h, pt, serr := net.SplitHostPort(u.Host); serr == nil {
						expHost, expPort, hostKnown = h, pt, true // a client is handed the same address
					}
				}
			} else {
				checkAdvertised(rt, "stored", stored.URI, self.nodeID, expHost, expPort, hostKnown)
			}
			if hostKnown && expHost == "" {
				rt.Fatalf("registration with no determinable host was accepted: source=%q override=%q stored=%q", srcAddr, override, stored.URI)
			}
			if userClass == "other" && !rootless {
				// (a rootless text is not read as an override at all: the registration goes through under the
				// authenticated id and the connection's address, checked above)
				rt.Fatalf("override naming another id was accepted: %q", override)
			}
			// what a client is handed
			creq := pool.ConnectRequest{VipnodeVersion: "verif", NodeInfo: ethnode.UserAgent{Kind: ethnode.Geth, IsFullNode: false, Network: 1}}
			cc := dial(srv, nil, "198.51.100.9:4000", p.CloseRemote)
			defer cc.Close()
			n2 := nonce + 1
			var cresp pool.ConnectResponse
			if err := cc.agentSide.Call(ctx, &cresp, "vipnode_connect", mustSign(client.key, "vipnode_connect", client.nodeID, n2, creq), client.nodeID, n2, creq); err != nil {
				rt.Fatalf("client connect: %v", err)
			}
			preq := pool.PeerRequest{Num: 1}
			var presp pool.PeerResponse
			n3 := nonce + 2
			if err := cc.agentSide.Call(ctx, &presp, "vipnode_peer", mustSign(client.key, "vipnode_peer", client.nodeID, n3, preq), client.nodeID, n3, preq); err != nil {
				rt.Fatalf("client peer request failed although a host is registered: %v", err)
			}
			if len(presp.Peers) != 1 {
				rt.Fatalf("peer request returned %d peers, want the 1 registered host", len(presp.Peers))
			}
			checkAdvertised(rt, "handed to client", presp.Peers[0].URI, self.nodeID, expHost, expPort, hostKnown)
			if string(presp.Peers[0].ID) != self.nodeID {
				rt.Fatalf("peer handed to client has id %q", presp.Peers[0].ID)
			}
		}

		nontrivial := src.class == "ipv6" || src.class == "ipv6zone" || src.class == "empty" || oh.class == "ipv6" || oh.class == "ipv6zone" ||
			oh.class == "empty" || oh.class == "unspec6" || userClass == "other" || userClass == "empty" || userClass == "none" || (override != "" && oport == "")
		if rootless {
			userClass += "/rootless"
		}
		sig := fmt.Sprintf("%s|%s|%s|%s|%s|%v|%v", src.class, oh.class, userClass, scheme, endpoint, oport != "", accepted)
		rec.Case(sig, nontrivial, []string{"src:" + src.class, "ohost:" + oh.class, "user:" + userClass, fmt.Sprintf("accepted:%v", accepted)}, func() interface{} { return cs })
	})
}

func checkAdvertised(rt *rapid.T, what, uri, wantID, wantHost, wantPort string, hostKnown bool) {
	u, err := ethnode.ParseNodeURI(uri)
	if err != nil {
		rt.Fatalf("%s URI %q does not parse: %v", what, uri, err)
	}
	if u.ID() != wantID {
		rt.Fatalf("%s URI %q carries id %q, want the authenticated id %q", what, uri, nodeName(u.ID()), nodeName(wantID))
	}
	h, pt, err := net.SplitHostPort(u.Host)
	if err != nil {
		rt.Fatalf("%s URI %q: host:port %q is not dialable: %v", what, uri, u.Host, err)
	}
	if hostKnown && h != wantHost {
		rt.Fatalf("%s URI %q: host %q, want %q", what, uri, h, wantHost)
	}
	if pt != wantPort {
		rt.Fatalf("%s URI %q: port %q, want %q", what, uri, pt, wantPort)
	}
}

// ---------------------------------------------------------------------------
// Registration histories: several registrations of one or two identities over
// the same or different connections; the LATEST accepted registration of an
// identity decides what is advertised for it, and nothing of another
// identity or of an earlier registration leaks into it.

type c19Reg struct {
	srcAddr, srcPlain string
	override          string
	userClass, scheme string
	ohClass           string
	expHost, expPort  string
	hostKnown         bool
	wellFormed        bool
}

func genC19Source(rt *rapid.T) (addr, plain, class string) {
	src := genC19Host().Filter(func(h c19Host) bool {
		return h.class != "dns" && h.class != "unspec4" && h.class != "unspec6" && h.class != "empty"
	}).Draw(rt, "source")
	srcText := src.text
	if src.class == "ipv6zone" {
		srcText = "[" + src.plain + "]"
	}
	return srcText + ":" + fmt.Sprint(rapid.IntRange(1024, 65535).Draw(rt, "srcPort")), src.plain, src.class
}

func genC19Override(rt *rapid.T, self, other ident, srcAddr, srcPlain string) c19Reg {
	r := c19Reg{srcAddr: srcAddr, srcPlain: srcPlain, userClass: "absent", scheme: "enode", ohClass: "absent", hostKnown: true}
	oport := ""
	var oh c19Host
	oh.class = "absent"
	if rapid.IntRange(0, 2).Draw(rt, "hasOverride") > 0 {
		r.userClass = rapid.SampledFrom([]string{"own", "own", "own", "own", "other", "empty"}).Draw(rt, "user")
		oh = genC19Host().Draw(rt, "ohost")
		oport = rapid.SampledFrom([]string{"", "", ":30303", ":30304", ":1", ":65535"}).Draw(rt, "oport")
		user := ""
		switch r.userClass {
		case "own":
			user = self.nodeID + "@"
		case "other":
			user = other.nodeID + "@"
		case "empty":
			user = "@"
		}
		r.override = "enode://" + user + oh.text + oport
	}
	r.ohClass = oh.class
	switch oh.class {
	case "absent", "empty", "unspec6":
		r.expHost = srcPlain
	case "unspec4":
		r.hostKnown = false
	default:
		r.expHost = oh.plain
	}
	r.expPort = "30303"
	if oport != "" {
		r.expPort = oport[1:]
	}
	r.wellFormed = r.userClass != "other" && r.hostKnown && r.expHost != ""
	return r
}

func TestC19Reregistration(t *testing.T) {
	rec := vt.For("C19")
	rec.Rule("registration histories: 2-5 registrations of two host identities over the same or a new connection (new source address), each with or without a node-URI override, through vipnode_connect or vipnode_host, sometimes first as a client, on the memory and the on-disk badger driver; oracle after every step: the stored URI of the registering identity is decided by THIS registration alone (its own id, override-or-source host, override-or-30303 port), a refused registration leaves the stored record as it was, the other identity's record is untouched; at the end a client's vipnode_peer hands out each host under its own id and latest address; non-trivial = an identity registers twice with different resulting addresses, or two identities share a connection; distinct by driver + step classes")
	check(t, func(rt *rapid.T) {
		ids := []ident{nodeIdent(0), nodeIdent(1)}
		client := nodeIdent(2)
		driver := rapid.SampledFrom([]string{"memory", "memory", "badger"}).Draw(rt, "driver")
		var st store.Store
		if driver == "memory" {
			st = memory.New()
		} else {
			dir := tempDir("c19-")
			defer removeAll(dir)
			st = mustOpenBadger(rt, dir)
			defer st.Close()
		}
		mgr := &flakyManager{}
		ys := &yieldStore{inner: st}
		p := pool.New(ys, mgr)
		srv := &jsonrpc2.Server{}
		if err := srv.Register("vipnode_", p); err != nil {
			rt.Fatal(err)
		}
		ctx, cancel := context.WithTimeout(context.Background(), 30*time.Second)
		defer cancel()
		type connInfo struct {
			c          *conn
			addr, host string
		}
		var conns []*connInfo
		defer func() {
			for _, ci := range conns {
				ci.c.Close()
			}
		}()
		newConn := func() *connInfo {
			addr, plain, _ := genC19Source(rt)
			hsvc := &HostSvc{}
			ci := &connInfo{c: dial(srv, hsvc.server(), addr, p.CloseRemote), addr: addr, host: plain}
			conns = append(conns, ci)
			return ci
		}
		nonce := time.Now().UnixNano()
		type want struct {
			isHost     bool
			host, port string
			hostKnown  bool
			uri        string // as stored after the latest accepted registration
		}
		latest := map[int]*want{}
		var hist, sig []string
		changed, shared := false, false
		keepaliveElsewhere := false
		connIDs := map[*connInfo]map[int]bool{}
		prober := nodeIdent(4)
		var probeConn *conn
		lastHostConn := map[int]*connInfo{}
		steps := rapid.IntRange(2, 5).Draw(rt, "steps")
		for s := 0; s < steps; s++ {
			who := rapid.IntRange(0, 1).Draw(rt, "who")
			self, other := ids[who], ids[1-who]
			var ci *connInfo
			if len(conns) == 0 || rapid.IntRange(0, 2).Draw(rt, "newConn") == 0 {
				ci = newConn()
			} else {
				ci = conns[rapid.IntRange(0, len(conns)-1).Draw(rt, "conn")]
			}
			reg := genC19Override(rt, self, other, ci.addr, ci.host)
			endpoint := rapid.SampledFrom([]string{"connect", "connect", "host", "client"}).Draw(rt, "endpoint")
			otherBefore, otherErr := st.GetNode(store.NodeID(other.nodeID))
			selfBefore, selfErr := st.GetNode(store.NodeID(self.nodeID))
			// a registered host may send a keep-alive over another connection than the one it registered on (a second
			// agent process, a reconnect without re-registration): that does not change the address it is advertised under
			if latest[who] != nil && latest[who].isHost && selfErr == nil && rapid.IntRange(0, 2).Draw(rt, "keepaliveElsewhere") == 0 {
				var oc *connInfo
				for _, cand := range conns {
					if cand != lastHostConn[who] && cand != ci {
						oc = cand
					}
				}
				if oc == nil {
					oc = newConn()
				}
				ureq := pool.UpdateRequest{PeerInfo: peerInfos(nil, false), BlockNumber: 78}
				nonce++
				var uresp pool.UpdateResponse
				uerr := oc.c.agentSide.Call(ctx, &uresp, "vipnode_update", mustSign(self.key, "vipnode_update", self.nodeID, nonce, ureq), self.nodeID, nonce, ureq)
				after, aerr := st.GetNode(store.NodeID(self.nodeID))
				hist = append(hist, fmt.Sprintf("%s sends a keep-alive over another connection (source %s) -> err=%v", self.name, oc.addr, uerr))
				if aerr != nil || after.URI != selfBefore.URI {
					rt.Fatalf("a keep-alive of host %s sent over another connection (source %s) changed the address it is advertised under: %s -> %s\ndriver=%s history:\n  %s", self.name, oc.addr, uriOrAbsent(selfBefore, selfErr), uriOrAbsent(after, aerr), driver, strings.Join(hist, "\n  "))
				}
				keepaliveElsewhere = true
			}
			// sometimes one of this identity's keep-alives (sent over the connection it last registered on as a host) is
			// still being served while this registration arrives, and then fails in its balance step: the failure must
			// not bring back the record the keep-alive read at its start
			var finishKeepalive func() string
			if prevConn := lastHostConn[who]; prevConn != nil && latest[who] != nil && latest[who].isHost && rapid.IntRange(0, 3).Draw(rt, "keepaliveInFlight") == 0 {
				entered := make(chan struct{}, 1)
				releaseGate := make(chan struct{})
				ys.setHook(func(method string) error {
					if method == "NodePeers" {
						select {
						case entered <- struct{}{}:
							<-releaseGate
						default:
						}
					}
					return nil
				})
				mgr.set(true)
				ureq := pool.UpdateRequest{PeerInfo: peerInfos(nil, false), BlockNumber: 77}
				nonce++
				un := nonce
				udone := make(chan error, 1)
				go func() {
					var uresp pool.UpdateResponse
					udone <- prevConn.c.agentSide.Call(ctx, &uresp, "vipnode_update", mustSign(self.key, "vipnode_update", self.nodeID, un, ureq), self.nodeID, un, ureq)
				}()
				<-entered
				finishKeepalive = func() string {
					close(releaseGate)
					uerr := <-udone
					ys.setHook(nil)
					mgr.set(false)
					return fmt.Sprintf("   (a keep-alive of %s was being served meanwhile and then failed in the balance step: %v)", self.name, uerr)
				}
			}
			nonce++
			var err error
			switch endpoint {
			case "connect", "client":
				req := pool.ConnectRequest{VipnodeVersion: "verif", NodeURI: reg.override, NodeInfo: ethnode.UserAgent{Kind: ethnode.Geth, IsFullNode: endpoint == "connect", Network: 1}}
				var resp pool.ConnectResponse
				err = ci.c.agentSide.Call(ctx, &resp, "vipnode_connect", mustSign(self.key, "vipnode_connect", self.nodeID, nonce, req), self.nodeID, nonce, req)
			case "host":
				req := pool.HostRequest{Kind: "geth", NodeURI: reg.override}
				var resp pool.HostResponse
				err = ci.c.agentSide.Call(ctx, &resp, "vipnode_host", mustSign(self.key, "vipnode_host", self.nodeID, nonce, req), self.nodeID, nonce, req)
			}
			kaNote := ""
			if finishKeepalive != nil {
				kaNote = finishKeepalive()
			}
			step := fmt.Sprintf("%s registers via %s over connection %d (source %s) override=%q -> err=%v", self.name, endpoint, indexOfConn(len(conns), func(i int) bool { return conns[i] == ci }), ci.addr, reg.override, err)
			hist = append(hist, step)
			if kaNote != "" {
				hist = append(hist, kaNote)
			}
			sig = append(sig, fmt.Sprintf("%d:%s:%s:%s:%v", who, endpoint, reg.userClass, reg.ohClass, err == nil))
			fail := func(format string, a ...interface{}) {
				rt.Fatalf("%s\ndriver=%s history:\n  %s", fmt.Sprintf(format, a...), driver, strings.Join(hist, "\n  "))
			}
			if err != nil && strings.Contains(err.Error(), "failed to verify") {
				fail("correctly signed registration refused by verification: %v", err)
			}
			// the other identity's record is untouched
			otherAfter, otherErr2 := st.GetNode(store.NodeID(other.nodeID))
			if (otherErr == nil) != (otherErr2 == nil) || (otherErr == nil && otherAfter.URI != otherBefore.URI) {
				fail("registration of %s changed the stored record of %s: %s -> %s", self.name, other.name, uriOrAbsent(otherBefore, otherErr), uriOrAbsent(otherAfter, otherErr2))
			}
			selfAfter, selfErr2 := st.GetNode(store.NodeID(self.nodeID))
			if err != nil {
				if endpoint != "client" && reg.wellFormed {
					fail("well-formed registration refused: %v", err)
				}
				if (selfErr == nil) != (selfErr2 == nil) || (selfErr == nil && selfAfter.URI != selfBefore.URI) {
					fail("a refused registration changed the stored record of %s: %s -> %s", self.name, uriOrAbsent(selfBefore, selfErr), uriOrAbsent(selfAfter, selfErr2))
				}
				continue
			}
			if selfErr2 != nil {
				fail("accepted but not stored: %v", selfErr2)
			}
			if connIDs[ci] == nil {
				connIDs[ci] = map[int]bool{}
			}
			connIDs[ci][who] = true
			if len(connIDs[ci]) > 1 {
				shared = true
			}
			if endpoint == "client" {
				// only hosts are advertised; what is stored for a client is not part of the property
				latest[who] = &want{isHost: false}
				continue
			}
			if reg.userClass == "other" {
				fail("override naming another id was accepted: %q", reg.override)
			}
			if reg.hostKnown && reg.expHost == "" {
				fail("registration with no determinable host was accepted, stored %q", selfAfter.URI)
			}
			func() {
				defer func() {
					if r := recover(); r != nil {
						fmt.Printf("C19 history:\n  %s\n", strings.Join(hist, "\n  "))
						panic(r)
					}
				}()
				checkAdvertised(rt, "stored (after "+step+")", selfAfter.URI, self.nodeID, reg.expHost, reg.expPort, reg.hostKnown)
			}()
			if prev := latest[who]; prev != nil && prev.isHost && prev.hostKnown && reg.hostKnown && (prev.host != reg.expHost || prev.port != reg.expPort) {
				changed = true
			}
			latest[who] = &want{isHost: true, host: reg.expHost, port: reg.expPort, hostKnown: reg.hostKnown, uri: selfAfter.URI}
			lastHostConn[who] = ci
			// a client that asks right after each registration is handed the address of THIS registration, not one the
			// pool remembered from an earlier request
			if probeConn == nil {
				probeConn = dial(srv, nil, "198.51.100.11:4002", p.CloseRemote)
				defer probeConn.Close()
				pcreq := pool.ConnectRequest{VipnodeVersion: "verif", NodeInfo: ethnode.UserAgent{Kind: ethnode.Geth, IsFullNode: false, Network: 1}}
				nonce++
				var pcresp pool.ConnectResponse
				if err := probeConn.agentSide.Call(ctx, &pcresp, "vipnode_connect", mustSign(prober.key, "vipnode_connect", prober.nodeID, nonce, pcreq), prober.nodeID, nonce, pcreq); err != nil {
					rt.Fatalf("probe client connect: %v", err)
				}
			}
			ppreq := pool.PeerRequest{Num: 5}
			var ppresp pool.PeerResponse
			nonce++
			if err := probeConn.agentSide.Call(ctx, &ppresp, "vipnode_peer", mustSign(prober.key, "vipnode_peer", prober.nodeID, nonce, ppreq), prober.nodeID, nonce, ppreq); err != nil {
				fail("peer request right after the registration failed: %v", err)
			}
			for _, pn := range ppresp.Peers {
				for w2, lw := range latest {
					if lw.isHost && ids[w2].nodeID == string(pn.ID) {
						func() {
							defer func() {
								if r := recover(); r != nil {
									fmt.Printf("C19 history:\n  %s\n", strings.Join(hist, "\n  "))
									panic(r)
								}
							}()
							checkAdvertised(rt, "handed to a client right after "+step+" for "+ids[w2].name, pn.URI, ids[w2].nodeID, lw.host, lw.port, lw.hostKnown)
						}()
					}
				}
			}
		}
		// what a client is handed
		nHosts := 0
		for _, w := range latest {
			if w.isHost {
				nHosts++
			}
		}
		if nHosts > 0 {
			cc := dial(srv, nil, "198.51.100.9:4000", p.CloseRemote)
			defer cc.Close()
			creq := pool.ConnectRequest{VipnodeVersion: "verif", NodeInfo: ethnode.UserAgent{Kind: ethnode.Geth, IsFullNode: false, Network: 1}}
			nonce++
			var cresp pool.ConnectResponse
			if err := cc.agentSide.Call(ctx, &cresp, "vipnode_connect", mustSign(client.key, "vipnode_connect", client.nodeID, nonce, creq), client.nodeID, nonce, creq); err != nil {
				rt.Fatalf("client connect: %v", err)
			}
			preq := pool.PeerRequest{Num: 5}
			var presp pool.PeerResponse
			nonce++
			if err := cc.agentSide.Call(ctx, &presp, "vipnode_peer", mustSign(client.key, "vipnode_peer", client.nodeID, nonce, preq), client.nodeID, nonce, preq); err != nil {
				rt.Fatalf("client peer request failed although %d hosts are registered: %v\nhistory:\n  %s", nHosts, err, strings.Join(hist, "\n  "))
			}
			handed := map[string]string{}
			for _, pn := range presp.Peers {
				handed[string(pn.ID)] = pn.URI
			}
			// the keep-alive reply lists the client's active peers by address too: a second light client registers,
			// the first reports it and the hosts as peers; every address in the reply must be the one of the host it names
			c2 := nodeIdent(3)
			cc2 := dial(srv, nil, "198.51.100.10:4001", p.CloseRemote)
			defer cc2.Close()
			nonce++
			if err := cc2.agentSide.Call(ctx, &cresp, "vipnode_connect", mustSign(c2.key, "vipnode_connect", c2.nodeID, nonce, creq), c2.nodeID, nonce, creq); err != nil {
				rt.Fatalf("second client connect: %v", err)
			}
			report := []string{c2.nodeID}
			for who, w := range latest {
				if w.isHost {
					report = append(report, ids[who].nodeID)
				}
			}
			if rapid.Bool().Draw(rt, "reportOrder") {
				for i, j := 0, len(report)-1; i < j; i, j = i+1, j-1 {
					report[i], report[j] = report[j], report[i]
				}
			}
			ureq := pool.UpdateRequest{PeerInfo: peerInfos(report, false), BlockNumber: 3}
			var uresp pool.UpdateResponse
			nonce++
			if err := cc.agentSide.Call(ctx, &uresp, "vipnode_update", mustSign(client.key, "vipnode_update", client.nodeID, nonce, ureq), client.nodeID, nonce, ureq); err != nil {
				rt.Fatalf("client keep-alive: %v", err)
			}
			seenID := map[string]bool{}
			for _, uri := range uresp.ActivePeers {
				if uri == "" {
					continue
				}
				u, err := ethnode.ParseNodeURI(uri)
				if err != nil {
					rt.Fatalf("keep-alive reply lists an active peer address that does not parse: %q", uri)
				}
				if seenID[u.ID()] {
					rt.Fatalf("keep-alive reply lists the address of %s twice (another peer is advertised under its identity): %v\nhistory:\n  %s", nodeName(u.ID()), uresp.ActivePeers, strings.Join(hist, "\n  "))
				}
				seenID[u.ID()] = true
				found := false
				for who, w := range latest {
					if ids[who].nodeID == u.ID() && w.isHost {
						found = true
						func() {
							defer func() {
								if r := recover(); r != nil {
									fmt.Printf("C19 history:\n  %s\n", strings.Join(hist, "\n  "))
									panic(r)
								}
							}()
							checkAdvertised(rt, "listed in the keep-alive reply for "+ids[who].name, uri, ids[who].nodeID, w.host, w.port, w.hostKnown)
						}()
					}
				}
				if !found {
					rt.Fatalf("keep-alive reply lists address %q, which names %s - not a host among the reported peers", uri, nodeName(u.ID()))
				}
			}
			for who, w := range latest {
				if !w.isHost {
					continue
				}
				uri, ok := handed[ids[who].nodeID]
				if !ok {
					rt.Fatalf("host %s is registered and connected but was not handed to the client (got %d peers)\nhistory:\n  %s", ids[who].name, len(presp.Peers), strings.Join(hist, "\n  "))
				}
				func() {
					defer func() {
						if r := recover(); r != nil {
							fmt.Printf("C19 history:\n  %s\n", strings.Join(hist, "\n  "))
							panic(r)
						}
					}()
					checkAdvertised(rt, "handed to client for "+ids[who].name, uri, ids[who].nodeID, w.host, w.port, w.hostKnown)
				}()
			}
		}
		rec.Case(fmt.Sprintf("rereg|%s|%v", driver, sig), changed || shared, []string{"rereg", "rereg:" + driver, fmt.Sprintf("rereg:address-changed=%v", changed), fmt.Sprintf("rereg:shared-connection=%v", shared), fmt.Sprintf("rereg:keepalive-over-another-connection=%v", keepaliveElsewhere)}, func() interface{} {
			return map[string]interface{}{"kind": "registration history", "driver": driver, "history": hist}
		})
	})
}

func indexOfConn(n int, is func(int) bool) int {
	for i := 0; i < n; i++ {
		if is(i) {
			return i
		}
	}
	return -1
}

// flakyManager is a balance manager that bills nothing and fails keep-alives on demand.
type flakyManager struct {
	mu   sync.Mutex
	fail bool
}

func (m *flakyManager) set(b bool)                     { m.mu.Lock(); m.fail = b; m.mu.Unlock() }
func (m *flakyManager) OnClient(node store.Node) error { return nil }
func (m *flakyManager) OnUpdate(node store.Node, peers []store.Node) (store.Balance, error) {
	m.mu.Lock()
	defer m.mu.Unlock()
	if m.fail {
		return store.Balance{}, errors.New("balance backend unavailable")
	}
	return store.Balance{}, nil
}

func uriOrAbsent(n *store.Node, err error) string {
	if err != nil || n == nil {
		return fmt.Sprintf("(no record: %v)", err)
	}
	return fmt.Sprintf("address %q", n.URI)
}
