package props

// C19 — a host is advertised only under its own identity and a dialable address.

import (
	"context"
	"fmt"
	"net"
	"strings"
	"testing"
	"time"

	"github.com/vipnode/vipnode/v2/ethnode"
	"github.com/vipnode/vipnode/v2/jsonrpc2"
	"github.com/vipnode/vipnode/v2/pool"
	"github.com/vipnode/vipnode/v2/pool/store"
	"github.com/vipnode/vipnode/v2/pool/store/memory"
	"pgregory.net/rapid"

	"verif/vt"
)

type c19Host struct {
	text  string // as it appears in a URI authority ("1.2.3.4", "[2001:db8::1]", "example.org", "")
	plain string // what Hostname() should give back
	class string
}

func genC19Host() *rapid.Generator[c19Host] {
	return rapid.Custom(func(t *rapid.T) c19Host {
		switch rapid.IntRange(0, 9).Draw(t, "hostClass") {
		case 0, 1:
			ip := fmt.Sprintf("%d.%d.%d.%d", rapid.IntRange(1, 223).Draw(t, "a"), rapid.IntRange(0, 255).Draw(t, "b"), rapid.IntRange(0, 255).Draw(t, "c"), rapid.IntRange(1, 254).Draw(t, "d"))
			return c19Host{ip, ip, "ipv4"}
		case 2, 3, 4:
			ip := rapid.SampledFrom([]string{"2001:db8::1", "2001:db8:0:1::aa:30", "fd00::2", "2a02:6b8::feed:0ff", "::ffff:192.0.2.7", "2001:db8:85a3::8a2e:370:7334"}).Draw(t, "v6")
			return c19Host{"[" + ip + "]", ip, "ipv6"}
		case 5:
			h := rapid.SampledFrom([]string{"node.example.org", "eth-host-1.internal", "a.b"}).Draw(t, "dns")
			return c19Host{h, h, "dns"}
		case 6:
			return c19Host{"", "", "empty"}
		case 7:
			return c19Host{"[::]", "::", "unspec6"}
		case 8:
			return c19Host{"0.0.0.0", "0.0.0.0", "unspec4"}
		default:
			ip := rapid.SampledFrom([]string{"fe80::1%eth0", "fe80::a:b%2"}).Draw(t, "zone")
			return c19Host{"[" + strings.Replace(ip, "%", "%25", 1) + "]", ip, "ipv6zone"}
		}
	})
}

type c19Case struct {
	Source      string `json:"source_addr"`
	Override    string `json:"override"`
	Endpoint    string `json:"endpoint"`
	Accepted    bool   `json:"accepted"`
	Err         string `json:"error,omitempty"`
	Stored      string `json:"stored_uri,omitempty"`
	ExpHost     string `json:"expected_host,omitempty"`
	ExpPort     string `json:"expected_port,omitempty"`
	UserClass   string `json:"user_class"`
	HostClass   string `json:"override_host_class"`
	SourceClass string `json:"source_class"`
}

func TestC19NodeURI(t *testing.T) {
	rec := vt.For("C19")
	rec.Rule("generated (connection source address x node-URI override x endpoint connect/host); oracle: accepted => stored URI parses with ethnode.ParseNodeURI to the authenticated id and a host:port equal to override-or-source host and override-or-30303 port, foreign ids never stored, undeterminable host refused, well-formed class accepted; non-trivial = IPv6 source/override, a missing component, or a foreign id; distinct by (classes, endpoint, outcome)")
	rapid.Check(t, func(rt *rapid.T) {
		self := nodeIdent(0)
		other := nodeIdent(1)
		client := nodeIdent(2)

		// --- source address as the transport reports it
		src := genC19Host().Filter(func(h c19Host) bool { return h.class != "dns" && h.class != "unspec4" && h.class != "unspec6" }).Draw(rt, "source")
		srcAddr := ""
		if src.class != "empty" {
			srcText := src.text
			if src.class == "ipv6zone" {
				srcText = "[" + src.plain + "]" // net.Addr.String() does not percent-encode zones
			}
			srcAddr = srcText + ":" + fmt.Sprint(rapid.IntRange(1024, 65535).Draw(rt, "srcPort"))
		}

		// --- override
		override := ""
		userClass := "absent"
		var oh c19Host
		oh.class = "absent"
		oport := ""
		scheme := "enode"
		if rapid.IntRange(0, 5).Draw(rt, "hasOverride") > 0 {
			userClass = rapid.SampledFrom([]string{"own", "own", "own", "other", "empty", "none", "own:password"}).Draw(rt, "user")
			oh = genC19Host().Draw(rt, "ohost")
			oport = rapid.SampledFrom([]string{"", "", ":30303", ":30304", ":1", ":65535"}).Draw(rt, "oport")
			scheme = rapid.SampledFrom([]string{"enode", "enode", "enode", "enode", "http", "ENODE"}).Draw(rt, "scheme")
			tail := rapid.SampledFrom([]string{"", "", "?discport=30301", "/path", "#frag", "?discport=0&x=1"}).Draw(rt, "tail")
			user := ""
			switch userClass {
			case "own":
				user = self.nodeID + "@"
			case "other":
				user = other.nodeID + "@"
			case "empty":
				user = "@"
			case "none":
				user = ""
			case "own:password":
				user = self.nodeID + ":hunter2@"
			}
			override = scheme + "://" + user + oh.text + oport + tail
			if userClass == "none" && oh.class == "empty" {
				// "enode://:30303" style: no authority at all is still a possible input
			}
		}
		endpoint := rapid.SampledFrom([]string{"connect", "connect", "host"}).Draw(rt, "endpoint")

		// --- system under test
		st := memory.New()
		p := pool.New(st, nil)
		srv := &jsonrpc2.Server{}
		if err := srv.Register("vipnode_", p); err != nil {
			rt.Fatal(err)
		}
		hsvc := &HostSvc{}
		c := dial(srv, hsvc.server(), srcAddr, p.CloseRemote)
		defer c.Close()
		ctx, cancel := context.WithTimeout(context.Background(), 20*time.Second)
		defer cancel()

		nonce := time.Now().UnixNano()
		var err error
		switch endpoint {
		case "connect":
			req := pool.ConnectRequest{VipnodeVersion: "verif", NodeURI: override, NodeInfo: ethnode.UserAgent{Kind: ethnode.Geth, IsFullNode: true, Network: 1}}
			var resp pool.ConnectResponse
			err = c.agentSide.Call(ctx, &resp, "vipnode_connect", mustSign(self.key, "vipnode_connect", self.nodeID, nonce, req), self.nodeID, nonce, req)
		case "host":
			req := pool.HostRequest{Kind: "geth", NodeURI: override}
			var resp pool.HostResponse
			err = c.agentSide.Call(ctx, &resp, "vipnode_host", mustSign(self.key, "vipnode_host", self.nodeID, nonce, req), self.nodeID, nonce, req)
		}
		accepted := err == nil

		cs := c19Case{Source: srcAddr, Override: override, Endpoint: endpoint, Accepted: accepted, UserClass: userClass, HostClass: oh.class, SourceClass: src.class}
		if err != nil {
			cs.Err = err.Error()
			if strings.Contains(cs.Err, "failed to verify") {
				rt.Fatalf("correctly signed %s refused by verification: %v", endpoint, err)
			}
		}

		// expected address
		expHost, hostKnown := "", true
		switch oh.class {
		case "absent", "empty", "unspec6":
			expHost = src.plain
		case "unspec4":
			hostKnown = false // stated don't-care: stored as supplied or refused
		default:
			expHost = oh.plain
		}
		expPort := "30303"
		if oport != "" {
			expPort = oport[1:]
		}
		cs.ExpHost, cs.ExpPort = expHost, expPort

		// the other identity must never appear in the store
		if n, gerr := st.GetNode(store.NodeID(other.nodeID)); gerr == nil {
			rt.Fatalf("a node record for a foreign id appeared: %+v", n)
		}
		stored, gerr := st.GetNode(store.NodeID(self.nodeID))
		if !accepted {
			if gerr == nil && stored.URI != "" {
				// refused but stored: check what would be advertised anyway below
				cs.Stored = stored.URI
				rt.Fatalf("registration refused (%v) but a node with URI %q was stored", err, stored.URI)
			}
			wellFormed := (userClass == "own" || userClass == "empty" || userClass == "absent" || userClass == "own:password") &&
				hostKnown && expHost != "" && (scheme == "enode" || override == "")
			if userClass == "none" {
				wellFormed = false // "enode://host:port": the host would be read as the id by agents; outside the documented form
			}
			if wellFormed {
				rt.Fatalf("well-formed registration refused: source=%q override=%q: %v", srcAddr, override, err)
			}
		} else {
			if gerr != nil {
				rt.Fatalf("accepted but not stored: %v", gerr)
			}
			cs.Stored = stored.URI
			checkAdvertised(rt, "stored", stored.URI, self.nodeID, expHost, expPort, hostKnown)
			if hostKnown && expHost == "" {
				rt.Fatalf("registration with no determinable host was accepted: source=%q override=%q stored=%q", srcAddr, override, stored.URI)
			}
			if userClass == "other" {
				rt.Fatalf("override naming another id was accepted: %q", override)
			}
			// what a client is handed
			creq := pool.ConnectRequest{VipnodeVersion: "verif", NodeInfo: ethnode.UserAgent{Kind: ethnode.Geth, IsFullNode: false, Network: 1}}
			cc := dial(srv, nil, "198.51.100.9:4000", p.CloseRemote)
			defer cc.Close()
			n2 := nonce + 1
			var cresp pool.ConnectResponse
			if err := cc.agentSide.Call(ctx, &cresp, "vipnode_connect", mustSign(client.key, "vipnode_connect", client.nodeID, n2, creq), client.nodeID, n2, creq); err != nil {
				rt.Fatalf("client connect: %v", err)
			}
			preq := pool.PeerRequest{Num: 1}
			var presp pool.PeerResponse
			n3 := nonce + 2
			if err := cc.agentSide.Call(ctx, &presp, "vipnode_peer", mustSign(client.key, "vipnode_peer", client.nodeID, n3, preq), client.nodeID, n3, preq); err != nil {
				rt.Fatalf("client peer request failed although a host is registered: %v", err)
			}
			if len(presp.Peers) != 1 {
				rt.Fatalf("peer request returned %d peers, want the 1 registered host", len(presp.Peers))
			}
			checkAdvertised(rt, "handed to client", presp.Peers[0].URI, self.nodeID, expHost, expPort, hostKnown)
			if string(presp.Peers[0].ID) != self.nodeID {
				rt.Fatalf("peer handed to client has id %q", presp.Peers[0].ID)
			}
		}

		nontrivial := src.class == "ipv6" || src.class == "ipv6zone" || src.class == "empty" || oh.class == "ipv6" || oh.class == "ipv6zone" ||
			oh.class == "empty" || oh.class == "unspec6" || userClass == "other" || userClass == "empty" || userClass == "none" || (override != "" && oport == "")
		sig := fmt.Sprintf("%s|%s|%s|%s|%s|%v|%v", src.class, oh.class, userClass, scheme, endpoint, oport != "", accepted)
		rec.Case(sig, nontrivial, []string{"src:" + src.class, "ohost:" + oh.class, "user:" + userClass, fmt.Sprintf("accepted:%v", accepted)}, func() interface{} { return cs })
	})
}

func checkAdvertised(rt *rapid.T, what, uri, wantID, wantHost, wantPort string, hostKnown bool) {
	u, err := ethnode.ParseNodeURI(uri)
	if err != nil {
		rt.Fatalf("%s URI %q does not parse: %v", what, uri, err)
	}
	if u.ID() != wantID {
		rt.Fatalf("%s URI %q carries id %q, want the authenticated id %q", what, uri, nodeName(u.ID()), nodeName(wantID))
	}
	h, pt, err := net.SplitHostPort(u.Host)
	if err != nil {
		rt.Fatalf("%s URI %q: host:port %q is not dialable: %v", what, uri, u.Host, err)
	}
	if hostKnown && h != wantHost {
		rt.Fatalf("%s URI %q: host %q, want %q", what, uri, h, wantHost)
	}
	if pt != wantPort {
		rt.Fatalf("%s URI %q: port %q, want %q", what, uri, pt, wantPort)
	}
}
