package props

// C12 — both storage drivers implement the documented store contract identically.
// One state machine drives the contract model, the memory driver and the badger
// driver in lock-step, in virtual time.

import (
	"fmt"
	"strings"
	"testing"
	"time"

	"github.com/vipnode/vipnode/v2/pool/store"
	"github.com/vipnode/vipnode/v2/pool/store/memory"
	"pgregory.net/rapid"

	so "verif/storeops"
	"verif/vt"
)

type namedStore struct {
	name string
	s    store.Store
}

type lockstep struct {
	model   *so.Model
	drivers []namedStore
	ops     []string
	kinds   []string
	classes map[string]bool
	steps   int

	// bookkeeping for the non-triviality rule
	trialCredit map[string]bool // node has non-zero trial credit (model view)
	linked      map[string]string
	hasPeers    map[string]bool
	registered  map[string]bool
}

func newLockstep(drivers ...namedStore) *lockstep {
	return &lockstep{model: so.NewModel(), drivers: drivers, classes: map[string]bool{}, trialCredit: map[string]bool{}, linked: map[string]string{}, hasPeers: map[string]bool{}, registered: map[string]bool{}}
}

func (l *lockstep) step(rt *rapid.T, o so.Op) {
	l.steps++
	l.ops = append(l.ops, o.String())
	l.kinds = append(l.kinds, o.K)
	if o.K == "Advance" {
		time.Sleep(time.Duration(o.DeltaNs))
		return
	}
	if o.K == "Nonce" {
		nonce := time.Now().UnixNano() + o.DeltaNs
		verdict := l.model.NonceVerdict(o.Node, nonce)
		var first string
		for i, d := range l.drivers {
			r := so.Apply(d.s, o, so.ExactTime)
			got := "accept"
			if r.Err != "" {
				if r.Err != store.ErrInvalidNonce.Error() {
					rt.Fatalf("%s: %s: unexpected error %q", d.name, o, r.Err)
				}
				got = "reject"
			}
			if verdict != "either" && got != verdict {
				rt.Fatalf("%s: %s: driver says %s, contract says %s\nhistory:\n  %s", d.name, o, got, verdict, strings.Join(l.ops, "\n  "))
			}
			if i == 0 {
				first = got
			} else if got != first {
				rt.Fatalf("drivers disagree on %s: %s says %s, %s says %s", o, l.drivers[0].name, first, d.name, got)
			}
		}
		if first == "accept" || (first == "" && verdict == "accept") {
			l.model.CommitNonce(o.Node, nonce)
			l.classes["nonce-accept"] = true
		} else {
			l.classes["nonce-reject"] = true
		}
		if verdict == "either" {
			l.classes["nonce-boundary"] = true
		}
		return
	}
	// bookkeeping before the op (model view)
	switch o.K {
	case "SetNode":
		if o.Node != "" && l.registered[o.Node] && l.hasPeers[o.Node] {
			l.classes["re-setnode-with-peers"] = true
		}
	case "AddAccountNode":
		if l.registered[o.Node] {
			if l.trialCredit[o.Node] {
				l.classes["link-after-trial-credit"] = true
			}
			if prev, ok := l.linked[o.Node]; ok && prev != o.Acct {
				l.classes["re-link"] = true
			}
		}
	}
	want := so.Apply(l.model, o, so.ExactTime)
	for _, d := range l.drivers {
		got := so.Apply(d.s, o, so.ExactTime)
		if err := compareResults(o, d.name, got, want); err != nil {
			rt.Fatalf("step %d: %v\nhistory:\n  %s", l.steps, err, strings.Join(l.ops, "\n  "))
		}
	}
	// bookkeeping after
	if want.Err == "" {
		switch o.K {
		case "SetNode":
			l.registered[o.Node] = true
		case "AddNodeBalance":
			if _, isLinked := l.linked[o.Node]; !isLinked && o.Amount != "0" {
				l.trialCredit[o.Node] = true
			}
		case "AddAccountNode":
			l.linked[o.Node] = o.Acct
			delete(l.trialCredit, o.Node)
		case "UpdateNodePeers":
			l.hasPeers[o.Node] = len(l.model.TrackedSeen(store.NodeID(o.Node))) > 0
			if len(want.Set) > 0 {
				l.classes["peer-expired"] = true
			}
		case "ActiveHosts":
			if o.Limit > 0 && o.Limit < len(want.Set) {
				l.classes["limit<supply"] = true
			}
			if len(want.Set) > 0 {
				l.classes["hosts-nonempty"] = true
			}
		}
	} else {
		l.classes["op-error"] = true
	}
}

func (l *lockstep) observeAll(rt *rapid.T) {
	nodes := append(append([]string{}, storeNodes...), "")
	accts := append(append([]string{}, storeAccts...), "")
	want := so.Observe(l.model, nodes, accts, so.ExactTime, true)
	for _, d := range l.drivers {
		got := so.Observe(d.s, nodes, accts, so.ExactTime, true)
		if err := diffObservations(d.name, got, want); err != nil {
			rt.Fatalf("after step %d: %v\nhistory:\n  %s", l.steps, err, strings.Join(l.ops, "\n  "))
		}
	}
}

func (l *lockstep) nontrivial() bool {
	return l.classes["link-after-trial-credit"] || l.classes["re-link"] || l.classes["limit<supply"] || l.classes["re-setnode-with-peers"]
}

func (l *lockstep) classList() []string {
	var r []string
	for k := range l.classes {
		r = append(r, k)
	}
	return r
}

func c12Rule() string {
	return "rapid state machine over every store.Store method (identifier style per case: short {a,b,c,d}/{X,Y}, realistic 128-digit node ids and 42-character wallets sharing long prefixes, or nested ids that are prefixes of one another; plus \"\" and unknown ids incl. strict prefixes / extensions of known ones; kinds {geth,parity,\"\"}, boundary ages/advances/amounts incl. negative and multi-word, limits 0..5) applied in lock-step and in virtual time to the contract model, the memory driver and the badger driver; after every call error identity and value equality (ActiveHosts as subset+size predicate), full observation of all getters and Stats every 5 steps and at the end; non-trivial = sequence contains a link after trial credit, a re-link, an ActiveHosts limit below supply, or a re-SetNode of a node with tracked peers; distinct by op-kind sequence + classes"
}

func runC12(t *testing.T, onDisk bool) {
	defer vt.Watch("TestC12Lockstep", 180*time.Second)()
	rec := vt.For("C12")
	rec.Rule(c12Rule())
	check(t, func(rt *rapid.T) {
		rapid.SyncTest(rt, func(rt *rapid.T) {
			style, restore := useStoreAlphabet(rt)
			defer restore()
			mem := memory.New()
			dir := ""
			if onDisk {
				dir = tempDir("c12-badger-")
				defer removeAll(dir)
			}
			bdg := mustOpenBadger(rt, dir)
			defer closeStore(bdg)
			l := newLockstep(namedStore{"memory", mem}, namedStore{"badger", bdg})
			n := rapid.IntRange(5, 40).Draw(rt, "steps")
			for i := 0; i < n; i++ {
				l.step(rt, genStoreOp(rt, allStoreOpKinds))
				if (i+1)%5 == 0 {
					l.observeAll(rt)
				}
			}
			l.observeAll(rt)
			sig := strings.Join(l.kinds, ",") + "|" + strings.Join(sortedCopy(l.classList()), ",")
			drv := "badger-inmemory"
			if onDisk {
				drv = "badger-ondisk"
			}
			rec.Case(style+"|"+sig, l.nontrivial(), append(l.classList(), "driver:"+drv, "identifiers:"+style), func() interface{} {
				return map[string]interface{}{"drivers": []string{"model", "memory", drv}, "identifier_style": style, "ops": l.ops, "classes": sortedCopy(l.classList())}
			})
		})
	})
}

func TestC12Lockstep(t *testing.T) { runC12(t, false) }

func TestC12LockstepOnDisk(t *testing.T) {
	if !vt.Thorough() {
		t.Skip("thorough tier only")
	}
	runC12(t, true)
}

func sortedCopy(s []string) []string {
	r := append([]string(nil), s...)
	sortStrings(r)
	return r
}

var _ = fmt.Sprint
