package props

// Generators and helpers for store-level operation sequences (C05, C11, C12, C13).

import (
	"fmt"
	"math/big"
	"os"
	"sort"
	"strings"
	"time"

	"github.com/dgraph-io/badger/v2"
	"github.com/vipnode/vipnode/v2/pool/store"
	badgerstore "github.com/vipnode/vipnode/v2/pool/store/badger"
	"pgregory.net/rapid"

	so "verif/storeops"
)

var (
	storeNodes = []string{"a", "b", "c", "d"}
	storeAccts = []string{"X", "Y"}
	storeKinds = []string{"geth", "parity", ""}
)

func bigPow(b, e int64) *big.Int { return new(big.Int).Exp(big.NewInt(b), big.NewInt(e), nil) }

var storeAmounts = []string{"0", "1", "-1", "7", "-7", "1000", "-1000", "9223372036854775808", "18446744073709551619", "-18446744073709551619", bigPow(2, 130).String()}

var storeAges = []time.Duration{0, time.Second, 59 * time.Second, 120*time.Second - 1, 120 * time.Second, 120*time.Second + 1, 121 * time.Second, 10 * time.Minute, -5 * time.Second}

var storeAdvances = []time.Duration{1, time.Second, 30 * time.Second, 59 * time.Second, 60 * time.Second, 61 * time.Second, 119 * time.Second, 120 * time.Second, 121 * time.Second, 14 * time.Minute, 15 * time.Minute, 16 * time.Minute}

var nonceDeltas = []time.Duration{-15*time.Minute - 1, -15 * time.Minute, -15*time.Minute + 1, -14 * time.Minute, -time.Second, -1, 0, 1, time.Second, time.Minute, 20 * time.Minute, 2 * time.Hour}

// Identifier styles. The short alphabet makes collisions the norm; the other two give identifiers the shapes real
// ones have - 128-digit node ids and 42-character wallet addresses that share long prefixes, and ids that are
// prefixes of one another - for everything that depends on length or on a common prefix (keys built by formatting,
// prefix seeks, abbreviation).
var storeAlphabets = map[string][2][]string{
	"short": {{"a", "b", "c", "d"}, {"X", "Y"}},
	"realistic": {{
		"5b7f3c9e" + strings.Repeat("0", 112) + "aaaaaaa1",
		"5b7f3c9e" + strings.Repeat("0", 112) + "aaaaaaa2",
		"c1" + strings.Repeat("7", 126),
		"0d" + strings.Repeat("e", 126),
	}, {"0x52a9D1c4F0e7B6a5948372615Fedcba098765401", "0x52a9D1c4F0e7B6a5948372615Fedcba098765402"}},
	"nested": {{"aa", "aabb", "aabbcc", "b"}, {"acct-0000000000001", "acct-0000000000002"}},
}

// useStoreAlphabet picks the identifier style of one generated case (restore with the returned function).
func useStoreAlphabet(t *rapid.T) (style string, restore func()) {
	style = rapid.SampledFrom([]string{"short", "short", "realistic", "nested"}).Draw(t, "identifierStyle")
	oldN, oldA := storeNodes, storeAccts
	storeNodes, storeAccts = storeAlphabets[style][0], storeAlphabets[style][1]
	return style, func() { storeNodes, storeAccts = oldN, oldA }
}

func genNodeID(t *rapid.T, label string) string {
	if rapid.IntRange(0, 19).Draw(t, label+"Empty") == 0 {
		return ""
	}
	return rapid.SampledFrom(storeNodes).Draw(t, label)
}

func genAcct(t *rapid.T, label string, allowEmpty bool) string {
	if allowEmpty && rapid.IntRange(0, 29).Draw(t, label+"Empty") == 0 {
		return ""
	}
	return rapid.SampledFrom(storeAccts).Draw(t, label)
}

func genPeerList(t *rapid.T) []string {
	n := rapid.IntRange(0, 4).Draw(t, "npeers")
	r := make([]string, 0, n)
	for i := 0; i < n; i++ {
		switch rapid.IntRange(0, 9).Draw(t, "peerClass") {
		case 0:
			// ids the store does not know - among them a strict prefix of a known id and a known id with a tail
			known := storeNodes[rapid.IntRange(0, len(storeNodes)-1).Draw(t, "nearKnown")]
			r = append(r, rapid.SampledFrom([]string{"zz", "unknown", "", known[:(len(known)+1)/2] + "", known + "0", known[:len(known)-1]}).Draw(t, "unknownPeer"))
		default:
			r = append(r, rapid.SampledFrom(storeNodes).Draw(t, "peer"))
		}
	}
	return r
}

// genStoreOp draws one operation; weights favour mutators that build state.
func genStoreOp(t *rapid.T, kinds []string) so.Op {
	k := rapid.SampledFrom(kinds).Draw(t, "op")
	o := so.Op{K: k}
	switch k {
	case "SetNode":
		o.Node = genNodeID(t, "node")
		o.IsHost = rapid.Bool().Draw(t, "isHost")
		o.Kind = rapid.SampledFrom(storeKinds).Draw(t, "kind")
		o.AgeNs = int64(rapid.SampledFrom(storeAges).Draw(t, "age"))
		o.Block = uint64(rapid.IntRange(0, 5).Draw(t, "block"))
		o.URI = "enode://" + o.Node + "@192.0.2.1:30303"
	case "GetNode", "NodePeers", "GetNodeBalance":
		o.Node = genNodeID(t, "node")
	case "UpdateNodePeers":
		o.Node = genNodeID(t, "node")
		o.Peers = genPeerList(t)
		o.Block = uint64(rapid.IntRange(0, 9).Draw(t, "block"))
	case "AddNodeBalance":
		o.Node = genNodeID(t, "node")
		o.Amount = rapid.SampledFrom(storeAmounts).Draw(t, "amount")
	case "AddAccountBalance":
		o.Acct = genAcct(t, "acct", true)
		o.Amount = rapid.SampledFrom(storeAmounts).Draw(t, "amount")
	case "GetAccountBalance", "GetAccountNodes":
		o.Acct = genAcct(t, "acct", true)
	case "AddAccountNode", "IsAccountNode":
		o.Acct = genAcct(t, "acct", true)
		o.Node = genNodeID(t, "node")
	case "ActiveHosts":
		o.Kind = rapid.SampledFrom(storeKinds).Draw(t, "kind")
		o.Limit = rapid.IntRange(0, 5).Draw(t, "limit")
	case "Nonce":
		o.Node = rapid.SampledFrom([]string{"a", "b", "X"}).Draw(t, "nonceID")
		if rapid.Bool().Draw(t, "boundaryDelta") {
			o.DeltaNs = int64(rapid.SampledFrom(nonceDeltas).Draw(t, "delta"))
		} else {
			o.DeltaNs = rapid.Int64Range(int64(-16*time.Minute), int64(30*time.Minute)).Draw(t, "deltaRange")
		}
	case "Advance":
		o.DeltaNs = int64(rapid.SampledFrom(storeAdvances).Draw(t, "advance"))
	case "Stats", "Reopen":
	default:
		panic("genStoreOp: " + k)
	}
	return o
}

var allStoreOpKinds = []string{
	"SetNode", "SetNode", "SetNode", "GetNode", "NodePeers", "GetNodeBalance", "UpdateNodePeers", "UpdateNodePeers", "UpdateNodePeers",
	"AddNodeBalance", "AddNodeBalance", "AddAccountBalance", "GetAccountBalance", "GetAccountNodes", "AddAccountNode", "AddAccountNode",
	"IsAccountNode", "ActiveHosts", "ActiveHosts", "Nonce", "Nonce", "Advance", "Advance", "Stats",
}

// ---------------------------------------------------------------------------
// badger helpers

func smallBadgerOpts(dir string) badger.Options {
	o := badger.DefaultOptions(dir).
		WithMaxCacheSize(1 << 20).WithMaxTableSize(1 << 20).WithNumMemtables(1).
		WithNumLevelZeroTables(1).WithNumLevelZeroTablesStall(2).WithNumCompactors(0).WithLogger(nil)
	if dir == "" {
		o = o.WithInMemory(true)
	} else {
		o = o.WithValueLogFileSize(1 << 20).WithSyncWrites(false).WithTruncate(true) // (as pool.go opens it: a torn tail after a kill is cut off)
	}
	return o
}

func openBadger(dir string) (store.Store, error) {
	return badgerstore.Open(smallBadgerOpts(dir))
}

func mustOpenBadger(t interface{ Fatalf(string, ...interface{}) }, dir string) store.Store {
	s, err := openBadger(dir)
	if err != nil {
		t.Fatalf("badger open %q: %v", dir, err)
	}
	return s
}

func tempDir(prefix string) string {
	base := os.Getenv("VERIF_WORKDIR")
	if base == "" {
		base = os.TempDir()
	}
	d, err := os.MkdirTemp(base, prefix)
	if err != nil {
		panic(err)
	}
	return d
}

// ---------------------------------------------------------------------------
// comparison

// compareResults checks one driver result against the model result for op.
func compareResults(o so.Op, driver string, got, want so.Result) error {
	if o.K == "ActiveHosts" {
		if got.Err != "" || want.Err != "" {
			if got.Err != want.Err {
				return fmt.Errorf("%s: %s: error %q, model %q", driver, o, got.Err, want.Err)
			}
			return nil
		}
		cand := map[string]bool{}
		for _, c := range want.Set {
			cand[c] = true
		}
		seen := map[string]bool{}
		for _, g := range got.Set {
			if !cand[g] {
				return fmt.Errorf("%s: %s returned a host that is not eligible: %s (eligible: %v)", driver, o, g, want.Set)
			}
			if seen[g] {
				return fmt.Errorf("%s: %s returned a duplicate: %s", driver, o, g)
			}
			seen[g] = true
		}
		need := len(want.Set)
		if o.Limit > 0 && o.Limit < need {
			need = o.Limit
		}
		if len(got.Set) != need {
			return fmt.Errorf("%s: %s returned %d hosts, contract requires %d (eligible %d)", driver, o, len(got.Set), need, len(want.Set))
		}
		return nil
	}
	if got.Err != want.Err {
		return fmt.Errorf("%s: %s: error %q, contract says %q", driver, o, got.Err, want.Err)
	}
	if got.Val != want.Val {
		return fmt.Errorf("%s: %s = %s, contract says %s", driver, o, got.Val, want.Val)
	}
	if strings.Join(got.Set, "\n") != strings.Join(want.Set, "\n") {
		return fmt.Errorf("%s: %s = %v, contract says %v", driver, o, got.Set, want.Set)
	}
	return nil
}

func diffObservations(driver string, got, want []string) error {
	if len(got) != len(want) {
		return fmt.Errorf("%s: observation length %d vs %d", driver, len(got), len(want))
	}
	var diffs []string
	for i := range got {
		if got[i] != want[i] {
			diffs = append(diffs, fmt.Sprintf("  %s\n  model: %s", got[i], want[i]))
		}
	}
	if len(diffs) > 0 {
		sort.Strings(diffs)
		return fmt.Errorf("%s: full observation differs from the contract model:\n%s", driver, strings.Join(diffs, "\n"))
	}
	return nil
}
