package props

// C17: the first messages a WebSocket server sends may travel in the same segment as its handshake response
// ("however the transport chunks"): the dialling side must still read every one of them, once, in order.

import (
	"bufio"
	"context"
	"crypto/sha1"
	"encoding/base64"
	"encoding/binary"
	"encoding/json"
	"fmt"
	"net"
	"net/http"
	"testing"
	"time"

	"github.com/vipnode/vipnode/v2/jsonrpc2"
	"github.com/vipnode/vipnode/v2/jsonrpc2/ws/gobwas"
	"github.com/vipnode/vipnode/v2/jsonrpc2/ws/gorilla"
	"pgregory.net/rapid"

	"verif/vt"
)

func serverFrame(payload []byte, binaryOp bool) []byte {
	op := byte(0x81)
	if binaryOp {
		op = 0x82
	}
	out := []byte{op}
	switch n := len(payload); {
	case n < 126:
		out = append(out, byte(n))
	case n < 65536:
		out = append(out, 126, 0, 0)
		binary.BigEndian.PutUint16(out[len(out)-2:], uint16(n))
	default:
		out = append(out, 127, 0, 0, 0, 0, 0, 0, 0, 0)
		binary.BigEndian.PutUint64(out[len(out)-8:], uint64(n))
	}
	return append(out, payload...)
}

type c17HsConn struct {
	sent  []string
	early []byte
	cut   int
}

func c17HandshakeCase(rt *rapid.T, rec *vt.Rec) {
	lib := rapid.SampledFrom([]string{"gobwas", "gorilla"}).Draw(rt, "dialler")
	// one to three connections are dialled one after the other BEFORE anything is read from the first (a process that
	// opens its connections first and serves them afterwards): what arrived with each handshake belongs to that
	// connection, whatever the later dials do
	nConns := rapid.SampledFrom([]int{1, 1, 2, 3}).Draw(rt, "connections")
	nEarly := rapid.IntRange(1, 3).Draw(rt, "messagesWithTheHandshake")
	conns := make([]*c17HsConn, nConns)
	for ci := range conns {
		hc := &c17HsConn{}
		for i := 0; i < nEarly+1; i++ {
			m := map[string]interface{}{"jsonrpc": "2.0", "id": 100*ci + i + 1, "method": "early", "params": []interface{}{genJSONValue(rt, 1), fmt.Sprintf("conn%d-m%d", ci, i)}}
			if i == nEarly {
				m["method"] = "sentinel"
			}
			b, _ := json.Marshal(m)
			hc.sent = append(hc.sent, string(b))
			if i < nEarly {
				body := b
				if rapid.Bool().Draw(rt, "trailingNewline") {
					body = append(append([]byte{}, b...), '\n')
				}
				hc.early = append(hc.early, serverFrame(body, rapid.Bool().Draw(rt, "binaryFrame"))...)
			}
		}
		// where the stream is cut: the response and k bytes of the frames travel together, the rest follows
		hc.cut = rapid.IntRange(0, len(hc.early)).Draw(rt, "earlyBytesInTheHandshakeSegment")
		if rapid.IntRange(0, 2).Draw(rt, "allTogether") == 0 {
			hc.cut = len(hc.early)
		}
		conns[ci] = hc
	}
	ln, err := net.Listen("tcp", "127.0.0.1:0")
	if err != nil {
		rt.Fatalf("[setup failed] listen: %v", err)
	}
	defer ln.Close()
	release := make(chan struct{}) // closed once every connection is dialled: the servers then send the rest
	go func() {
		for ci := 0; ci < nConns; ci++ {
			c, err := ln.Accept()
			if err != nil {
				return
			}
			hc := conns[ci]
			go func() {
				defer c.Close()
				req, err := http.ReadRequest(bufio.NewReader(c))
				if err != nil {
					return
				}
				h := sha1.Sum([]byte(req.Header.Get("Sec-WebSocket-Key") + "258EAFA5-E914-47DA-95CA-C5AB0DC85B11"))
				resp := "HTTP/1.1 101 Switching Protocols\r\nUpgrade: websocket\r\nConnection: Upgrade\r\nSec-WebSocket-Accept: " + base64.StdEncoding.EncodeToString(h[:]) + "\r\n\r\n"
				if _, err := c.Write(append([]byte(resp), hc.early[:hc.cut]...)); err != nil {
					return
				}
				<-release
				time.Sleep(30 * time.Millisecond)
				if hc.cut < len(hc.early) {
					c.Write(hc.early[hc.cut:])
					time.Sleep(10 * time.Millisecond)
				}
				c.Write(serverFrame([]byte(hc.sent[nEarly]), false))
				time.Sleep(2 * time.Second) // keep the connection open while the client reads
			}()
		}
	}()
	ctx, cancel := context.WithTimeout(context.Background(), 20*time.Second)
	defer cancel()
	url := "ws://" + ln.Addr().String() + "/"
	codecs := make([]jsonrpc2.Codec, nConns)
	for ci := range codecs {
		if lib == "gobwas" {
			codecs[ci], err = gobwas.WebSocketDial(ctx, url)
		} else {
			codecs[ci], err = gorilla.WebSocketDial(ctx, url)
		}
		if err != nil {
			rt.Fatalf("%s dial #%d: %v", lib, ci, err)
		}
		defer codecs[ci].Close()
	}
	close(release)
	norm := func(ss []string) []string {
		var out []string
		for _, s := range ss {
			var m jsonrpc2.Message
			json.Unmarshal([]byte(s), &m)
			b, _ := json.Marshal(&m)
			out = append(out, string(b))
		}
		return out
	}
	cutAny := false
	for ci, codec := range codecs {
		hc := conns[ci]
		var got []string
		readErr := make(chan error, 1)
		go func() {
			for {
				m, err := codec.ReadMessage()
				if err != nil {
					readErr <- err
					return
				}
				b, _ := json.Marshal(m)
				got = append(got, string(b))
				if m.Request != nil && m.Request.Method == "sentinel" {
					readErr <- nil
					return
				}
			}
		}()
		select {
		case err = <-readErr:
		case <-ctx.Done():
			err = fmt.Errorf("nothing more arrives: %v", ctx.Err())
			codec.Close()
			<-readErr
		}
		want := norm(hc.sent)
		if err != nil || fmt.Sprint(got) != fmt.Sprint(want) {
			rt.Fatalf("%s dialling side, connection #%d of %d (all dialled before the first read): the server sent %d message(s) right after its handshake response (%d of their %d bytes in the same segment as the response), then a last one; read: %v (err=%v); sent: %v", lib, ci, nConns, nEarly, hc.cut, len(hc.early), got, err, want)
		}
		cutAny = cutAny || hc.cut > 0
	}
	rec.Case(fmt.Sprintf("handshake|%s|%d|%d|%d/%d", lib, nConns, nEarly, conns[0].cut, len(conns[0].early)), cutAny, []string{"handshake-coalesced", "handshake-coalesced:" + lib, fmt.Sprintf("handshake-coalesced:connections:%d", nConns), fmt.Sprintf("handshake-coalesced:whole-frames-with-response:%v", conns[0].cut == len(conns[0].early))}, func() interface{} {
		return map[string]interface{}{"kind": "frames coalesced with the handshake response", "dialler": lib, "connections_dialled_before_reading": nConns, "early_messages": nEarly, "bytes_with_response": conns[0].cut, "early_bytes": len(conns[0].early)}
	})
}

func TestC17HandshakeCoalesced(t *testing.T) {
	rec := vt.For("C17")
	rec.Rule("handshake boundary: a raw TCP server answers the WebSocket upgrade and writes 1-3 message frames (text/binary, with/without trailing newline) so that a generated number of their bytes - from none to all - travel in the same write as the 101 response, the rest 30 ms later, then a last message; 1-3 such connections are dialled one after the other before anything is read; the repository's gobwas and gorilla WebSocketDial must read exactly the messages sent, in order; non-trivial = at least one frame byte shares the response's segment; distinct by (library, messages, cut)")
	rec.Assume("loopback TCP delivers one write of a few hundred bytes as one segment in practice; whether the client sees it in one read is up to the kernel (cases where it does not are still valid, just less interesting)")
	check(t, func(rt *rapid.T) { c17HandshakeCase(rt, rec) })
}
