package props

// C14 — each RPC call gets its own reply, in both directions, under any interleaving.

import (
	"context"
	"encoding/json"
	"errors"
	"fmt"
	"io"
	"runtime"
	"strings"
	"sync"
	"testing"
	"testing/synctest"
	"time"

	"github.com/vipnode/vipnode/v2/jsonrpc2"
	"pgregory.net/rapid"

	"verif/vt"
)

// ctlCodec: one end of a connection whose deliveries are decided by the test
// controller. WriteMessage puts the bytes on the wire (a FIFO per direction)
// and, when the writer is a scheduled task, parks it right after - so the
// reply can be delivered before the caller starts waiting for it.
type ctlCodec struct {
	fmu      sync.Mutex
	failResp map[string]bool // ids of responses whose (first) write fails with a transient error
	failed   map[string]int
	name     string
	sc       *sched
	wire     *wireQueue // outgoing
	inbox    chan []byte
	closed   chan struct{}
	once     sync.Once
}

type wireQueue struct {
	mu   sync.Mutex
	msgs [][]byte
}

func (q *wireQueue) push(b []byte) { q.mu.Lock(); q.msgs = append(q.msgs, b); q.mu.Unlock() }
func (q *wireQueue) pop() []byte {
	q.mu.Lock()
	defer q.mu.Unlock()
	if len(q.msgs) == 0 {
		return nil
	}
	b := q.msgs[0]
	q.msgs = q.msgs[1:]
	return b
}
func (q *wireQueue) len() int { q.mu.Lock(); defer q.mu.Unlock(); return len(q.msgs) }

func (c *ctlCodec) RemoteAddr() string { return c.name }
func (c *ctlCodec) Close() error       { c.once.Do(func() { close(c.closed) }); return nil }
func (c *ctlCodec) ReadMessage() (*jsonrpc2.Message, error) {
	select {
	case b := <-c.inbox:
		return decodeMsg(b)
	case <-c.closed:
		return nil, io.EOF
	}
}
func (c *ctlCodec) WriteMessage(m *jsonrpc2.Message) error {
	b, err := json.Marshal(m)
	if err != nil {
		return err
	}
	select {
	case <-c.closed:
		return io.ErrClosedPipe
	default:
	}
	if m.Request == nil {
		c.fmu.Lock()
		id := string(m.ID)
		if c.failResp[id] {
			delete(c.failResp, id)
			if c.failed == nil {
				c.failed = map[string]int{}
			}
			c.failed[id]++
			c.fmu.Unlock()
			return errors.New("transient write error (injected)")
		}
		c.fmu.Unlock()
	}
	c.wire.push(b)
	c.sc.yield("sent")
	return nil
}

// wideIDRequester numbers its calls with 64-bit integers or with strings.
type wideIDRequester struct {
	mu    sync.Mutex
	style string
	next  uint64
}

func (w *wideIDRequester) Request(method string, params ...interface{}) (*jsonrpc2.Message, error) {
	w.mu.Lock()
	n := w.next
	w.next++
	w.mu.Unlock()
	id := fmt.Sprint(n)
	if w.style == "string" {
		id = fmt.Sprintf("%q", "call-"+id)
	}
	p, err := json.Marshal(params)
	if err != nil {
		return nil, err
	}
	return &jsonrpc2.Message{ID: json.RawMessage(id), Version: "2.0", Request: &jsonrpc2.Request{Method: method, Params: p}}, nil
}

// EchoSvc is registered on both ends.
type EchoSvc struct {
	mu      sync.Mutex
	self    *jsonrpc2.Remote
	side    string
	handled map[string]int
	bad     []string
}

func (e *EchoSvc) Echo(ctx context.Context, token string, depth int) (string, error) {
	e.mu.Lock()
	e.handled[fmt.Sprintf("%s#%d", token, depth)]++
	e.mu.Unlock()
	svc, err := jsonrpc2.CtxService(ctx)
	if err != nil {
		return "", err
	}
	if r, ok := svc.(*jsonrpc2.Remote); !ok || r != e.self {
		e.mu.Lock()
		e.bad = append(e.bad, fmt.Sprintf("handler on side %s got a context service that is not the connection the request arrived on", e.side))
		e.mu.Unlock()
	}
	if depth <= 0 {
		return token, nil
	}
	var inner string
	if err := svc.Call(ctx, &inner, "test_echo", token, depth-1); err != nil {
		return "", fmt.Errorf("nested call failed: %v", err)
	}
	return token + "<" + inner + ">", nil
}

func expectedEcho(token string, depth int) string {
	if depth <= 0 {
		return token
	}
	return token + "<" + expectedEcho(token, depth-1) + ">"
}

type c14Caller struct {
	side      string
	token     string
	depth     int
	ctx       context.Context
	cancel    context.CancelFunc
	cancelled bool
	result    string
	err       error
	done      bool
	lostReply bool   // the response to this call was dropped by an injected write error
	badParam  string // "" | "fails": a parameter that cannot be encoded - the call fails before anything is sent | "slow": encodes after a pause
}

// pausingParam is a call parameter whose encoding takes a while (the scheduler decides how long) and may fail.
type pausingParam struct {
	sc    *sched
	token string
	fail  bool
}

func (p pausingParam) MarshalJSON() ([]byte, error) {
	p.sc.yield("encoding")
	if p.fail {
		return nil, errors.New("this parameter cannot be encoded")
	}
	return json.Marshal(p.token)
}

func c14Case(rt *rapid.T, rec *vt.Rec) {
	sc := newSched()
	ab, ba := &wireQueue{}, &wireQueue{}
	ca := &ctlCodec{name: "A", sc: sc, wire: ab, inbox: make(chan []byte), closed: make(chan struct{})}
	cb := &ctlCodec{name: "B", sc: sc, wire: ba, inbox: make(chan []byte), closed: make(chan struct{})}
	svcA := &EchoSvc{side: "A", handled: map[string]int{}}
	svcB := &EchoSvc{side: "B", handled: map[string]int{}}
	srvA, srvB := &jsonrpc2.Server{}, &jsonrpc2.Server{}
	if err := srvA.RegisterMethod("test_echo", svcA, "Echo"); err != nil {
		rt.Fatal(err)
	}
	if err := srvB.RegisterMethod("test_echo", svcB, "Echo"); err != nil {
		rt.Fatal(err)
	}
	ra := &jsonrpc2.Remote{Codec: ca, Server: srvA, Client: &jsonrpc2.Client{}}
	rb := &jsonrpc2.Remote{Codec: cb, Server: srvB, Client: &jsonrpc2.Client{}, PendingLimit: 50, PendingDiscard: 10}
	defaultClient := rapid.IntRange(0, 3).Draw(rt, "defaultClient") == 0
	if defaultClient {
		// a Remote may be built without a Client (client.go does); Call then provides one
		ra.Client = nil
	}
	if idStyle := rapid.SampledFrom([]string{"counter", "counter", "counter", "wide", "string"}).Draw(rt, "idStyle"); idStyle != "counter" && !defaultClient {
		// Requester is a pluggable interface: an application may number its calls its own way - 64-bit integers
		// (adjacent ones beyond 2^53 differ only in digits a float64 cannot hold) or strings. The ids are in the
		// compact form the encoder writes (no insignificant whitespace, no characters it would escape).
		ra.Client = &wideIDRequester{style: idStyle, next: rapid.SampledFrom([]uint64{1 << 53, 1<<53 - 2, 1<<63 - 40, 1<<64 - 9, 4294967295}).Draw(rt, "firstID")}
	}
	svcA.self, svcB.self = ra, rb
	serveDone := make(chan struct{}, 2)
	go func() { ra.Serve(); serveDone <- struct{}{} }()
	go func() { rb.Serve(); serveDone <- struct{}{} }()

	nA := rapid.IntRange(0, 4).Draw(rt, "callersA")
	nB := rapid.IntRange(0, 4).Draw(rt, "callersB")
	if nA+nB == 0 {
		nA = 1
	}
	var callers []*c14Caller
	var names []string
	var fns []func()
	for i := 0; i < nA+nB; i++ {
		side, r := "A", ra
		if i >= nA {
			side, r = "B", rb
		}
		c := &c14Caller{side: side, token: fmt.Sprintf("%s%d", side, i), depth: rapid.IntRange(0, 3).Draw(rt, "depth")}
		c.ctx, c.cancel = context.WithCancel(context.Background())
		c.badParam = rapid.SampledFrom([]string{"", "", "", "", "fails", "slow"}).Draw(rt, "param")
		callers = append(callers, c)
		names = append(names, c.token)
		fns = append(fns, func() {
			var out string
			var tok interface{} = c.token
			if c.badParam != "" {
				tok = pausingParam{sc: sc, token: c.token, fail: c.badParam == "fails"}
			}
			c.err = r.Call(c.ctx, &out, "test_echo", tok, c.depth)
			c.result = out
			c.done = true
		})
	}
	// a further method may be registered on a serving side at any moment
	lateRegistrations := rapid.IntRange(0, 2).Draw(rt, "lateRegistrations")
	for i := 0; i < lateRegistrations; i++ {
		srv, svc, side := srvA, svcA, "A"
		if rapid.Bool().Draw(rt, "registerOnB") {
			srv, svc, side = srvB, svcB, "B"
		}
		names = append(names, fmt.Sprintf("register%d@%s", i, side))
		fns = append(fns, func() {
			sc.yield("about to register")
			if err := srv.RegisterMethod(fmt.Sprintf("test_extra%d", i), svc, "Echo"); err != nil {
				panic(err)
			}
		})
	}
	wait := sc.start(names, fns)
	maxCancels := rapid.IntRange(0, 2).Draw(rt, "maxCancels")
	cancels := 0
	maxWriteFaults := rapid.IntRange(0, 1).Draw(rt, "maxWriteFaults")
	writeFaults := 0
	var trace []string
	reordered, nestedSeen, earlyReply := false, false, false
	sentReleased := map[int]bool{}
	failed := ""
	falseStalls := 0
	func() {
		defer func() {
			if r := recover(); r != nil {
				sc.abort()
				// unblock everything so that the bubble can end
				for _, c := range callers {
					c.cancel()
				}
				ca.Close()
				cb.Close()
				wait()
				panic(r)
			}
		}()
		for step := 0; ; step++ {
			sc.quiesce()
			parked := sc.parkedList()
			type option struct {
				kind string
				idx  int
			}
			var opts []option
			for i := range parked {
				opts = append(opts, option{"run", i})
			}
			if ab.len() > 0 {
				opts = append(opts, option{"deliverAB", 0})
			}
			if ba.len() > 0 {
				opts = append(opts, option{"deliverBA", 0})
			}
			if cancels < maxCancels {
				for i, c := range callers {
					if !c.cancelled && !sc.isDone(i) {
						opts = append(opts, option{"cancel", i})
					}
				}
			}
			// only "cancel" left and nothing else can move: the calls are stuck
			movable := false
			for _, o := range opts {
				if o.kind != "cancel" {
					movable = true
				}
			}
			if !movable {
				if sc.allDone() {
					return
				}
				// a call whose reply was dropped by the injected write error can only end by cancellation
				rescued := false
				for i, c := range callers {
					if c.lostReply && !c.cancelled && !sc.isDone(i) {
						c.cancelled = true
						c.cancel()
						trace = append(trace, "cancel "+c.token+" (its reply was lost to the write error)")
						rescued = true
					}
				}
				if rescued {
					continue
				}
				var stuck []string
				for i, c := range callers {
					if !sc.isDone(i) {
						stuck = append(stuck, c.token)
					}
				}
				// be sure before calling it a deadlock (DESIGN.md §8.4: the snapshot can catch a goroutine between two
				// states under load): look again a few hundred times, yielding the processor in between
				again := false
				for retry := 0; retry < 300 && !again; retry++ {
					for i := 0; i < 50; i++ {
						runtime.Gosched()
					}
					sc.quiesce()
					if len(sc.parkedList()) > 0 || ab.len() > 0 || ba.len() > 0 || sc.allDone() {
						again = true
						falseStalls++
					}
				}
				if again {
					continue
				}
				failed = fmt.Sprintf("deadlock: calls %v never return although nothing is left to deliver\ngoroutines:\n%s", stuck, strings.Join(bubbleLeftovers(), "\n\n"))
				return
			}
			o := opts[0]
			if len(opts) > 1 {
				o = opts[rapid.IntRange(0, len(opts)-1).Draw(rt, "choice")]
			}
			switch o.kind {
			case "run":
				p := parked[o.idx]
				if p.label == "sent" && (ab.len() > 0 || ba.len() > 0) {
					// the writer continues while other messages are still in flight
					reordered = true
				}
				trace = append(trace, fmt.Sprintf("run %s@%s", names[p.task], p.label))
				if p.label == "sent" {
					sentReleased[p.task] = true // this task's write has gone through (for a caller: its request is on its way)
				}
				sc.release(p)
			case "deliverAB", "deliverBA":
				q, dst := ab, cb
				if o.kind == "deliverBA" {
					q, dst = ba, ca
				}
				b := q.pop()
				var m jsonrpc2.Message
				json.Unmarshal(b, &m)
				what := "reply"
				if m.Request != nil {
					what = "request"
				}
				// a reply delivered while its caller is still parked right after sending = "arrives before the caller starts waiting"
				if what == "reply" {
					for _, p := range parked {
						if p.label == "sent" {
							earlyReply = true
						}
					}
				}
				if what == "request" && writeFaults < maxWriteFaults {
					// maybe the response to this request will hit a transient write error on the serving side
					var args []json.RawMessage
					json.Unmarshal(m.Params, &args)
					var tok string
					var depth int
					if len(args) == 2 {
						json.Unmarshal(args[0], &tok)
						json.Unmarshal(args[1], &depth)
					}
					for _, cl := range callers {
						if cl.token == tok && cl.depth == 0 && depth == 0 && rapid.IntRange(0, 2).Draw(rt, "failResponseWrite") == 0 {
							dst.fmu.Lock()
							if dst.failResp == nil {
								dst.failResp = map[string]bool{}
							}
							dst.failResp[string(m.ID)] = true
							dst.fmu.Unlock()
							cl.lostReply = true
							writeFaults++
							trace = append(trace, "the response to "+tok+" will fail to be written once")
						}
					}
				}
				trace = append(trace, fmt.Sprintf("%s %s id=%s", o.kind, what, string(m.ID)))
				select {
				case dst.inbox <- b:
				case <-dst.closed:
				}
			case "cancel":
				c := callers[o.idx]
				c.cancelled = true
				cancels++
				// (whether the request has been sent is taken from the controller's own record of releases, not from a
				// second look at the parked list: under load the stack-snapshot quiescence test is occasionally
				// premature, and a caller that has not even reached its first yield point would be misjudged -
				// thorough run of 2026-09-29, one flaky report in 96 000 cases)
				parkedBefore := !sentReleased[o.idx]
				c.cancel()
				trace = append(trace, "cancel "+c.token)
				// promptness: the cancelled call must be parked-free and finished by the next quiescent point,
				// unless it is parked at a yield point of ours (then it has not observed anything yet)
				sc.quiesce()
				isParked := false
				for _, p := range sc.parkedList() {
					if p.task == o.idx {
						isParked = true
					}
				}
				if !isParked && !sc.isDone(o.idx) {
					// second look before the verdict (same reason as for the deadlock verdict above)
					for retry := 0; retry < 300 && !isParked && !sc.isDone(o.idx); retry++ {
						for i := 0; i < 50; i++ {
							runtime.Gosched()
						}
						sc.quiesce()
						for _, p := range sc.parkedList() {
							if p.task == o.idx {
								isParked = true
							}
						}
					}
				}
				if !isParked && !sc.isDone(o.idx) {
					failed = fmt.Sprintf("call %s did not return promptly after its context was cancelled", c.token)
					return
				}
				if isParked && !parkedBefore && !sc.isDone(o.idx) {
					// The request had been sent and the call was waiting for its reply. A parked writer is a transport
					// whose far end is not reading right now: a call that answers the end of its context by writing to
					// the connection returns when the peer gets round to reading, not promptly.
					failed = fmt.Sprintf("call %s, whose request had been sent, went on to write to the connection after its context was cancelled and now waits for the peer to read (it must return with the context's error at once)", c.token)
					return
				}
			}
			if step > 5000 {
				failed = "no termination after 5000 controller steps"
				return
			}
		}
	}()
	hist := func() string { return strings.Join(trace, "\n  ") }
	if failed != "" {
		sc.abort()
		for _, c := range callers {
			c.cancel()
		}
		ca.Close()
		cb.Close()
		wait()
		c14Fatalf(rt, "%s\ncallers: %v\nschedule:\n  %s", failed, names, hist())
	}
	wait()
	// drain late messages (replies to cancelled calls etc.) so that every request is handled and nothing is misdelivered
	for drained := 0; drained < 1000; drained++ {
		sc.quiesce()
		if b := ab.pop(); b != nil {
			cb.inbox <- b
			continue
		}
		if b := ba.pop(); b != nil {
			ca.inbox <- b
			continue
		}
		break
	}
	sc.quiesce()
	// Handlers of cancelled calls go on in the background; they must all have finished before the connection is taken
	// away, or their nested calls would wait for replies that can no longer come and look wedged. One quiescent
	// snapshot is not proof under load (DESIGN.md §8.4), so while a handler is still inside the bubble: look again.
	for retry := 0; retry < 300; retry++ {
		handlers := 0
		for _, g := range bubbleLeftovers() {
			if strings.Contains(g, "(*Remote).handleRequest") {
				handlers++
			}
		}
		if handlers == 0 {
			break
		}
		for i := 0; i < 50; i++ {
			runtime.Gosched()
		}
		sc.quiesce()
		for moved := true; moved; {
			moved = false
			if b := ab.pop(); b != nil {
				cb.inbox <- b
				moved = true
			} else if b := ba.pop(); b != nil {
				ca.inbox <- b
				moved = true
			}
			if moved {
				falseStalls++
				sc.quiesce()
			}
		}
	}
	for _, c := range callers {
		want := expectedEcho(c.token, c.depth)
		if c.depth > 0 {
			nestedSeen = true
		}
		if c.badParam == "fails" {
			if c.err == nil {
				c14Fatalf(rt, "call %s has a parameter that cannot be encoded and returned no error (result %q)\nschedule:\n  %s", c.token, c.result, hist())
			}
			for d := 0; d <= c.depth; d++ {
				for _, svc := range []*EchoSvc{svcA, svcB} {
					svc.mu.Lock()
					n := svc.handled[fmt.Sprintf("%s#%d", c.token, d)]
					svc.mu.Unlock()
					if n != 0 {
						c14Fatalf(rt, "call %s was never sent (its parameter cannot be encoded) but a request for it was handled\nschedule:\n  %s", c.token, hist())
					}
				}
			}
			continue
		}
		switch {
		case c.err == nil:
			if c.result != want {
				c14Fatalf(rt, "call %s returned %q, its own reply is %q (another call's reply was delivered to it)\nschedule:\n  %s", c.token, c.result, want, hist())
			}
		case errors.Is(c.err, context.Canceled):
			if !c.cancelled {
				c14Fatalf(rt, "call %s returned context.Canceled but was never cancelled\nschedule:\n  %s", c.token, hist())
			}
		default:
			// a nested call of a cancelled outer call may fail with the cancellation error text
			if !(cancels > 0 && strings.Contains(c.err.Error(), "context canceled")) {
				c14Fatalf(rt, "call %s failed: %v\nschedule:\n  %s", c.token, c.err, hist())
			}
		}
	}
	for _, svc := range []*EchoSvc{svcA, svcB} {
		svc.mu.Lock()
		for k, n := range svc.handled {
			if n != 1 {
				c14Fatalf(rt, "request %s was handled %d times on side %s\nschedule:\n  %s", k, n, svc.side, hist())
			}
		}
		if len(svc.bad) > 0 {
			c14Fatalf(rt, "%s\nschedule:\n  %s", svc.bad[0], hist())
		}
		svc.mu.Unlock()
	}
	if cancels == 0 {
		// every level of every call was handled exactly once
		for _, c := range callers {
			if c.badParam == "fails" {
				continue
			}
			for d := c.depth; d >= 0; d-- {
				svc := svcB
				if (c.side == "A") != ((c.depth-d)%2 == 0) {
					svc = svcA
				}
				svc.mu.Lock()
				n := svc.handled[fmt.Sprintf("%s#%d", c.token, d)]
				svc.mu.Unlock()
				if n != 1 {
					c14Fatalf(rt, "request %s depth %d was handled %d times\nschedule:\n  %s", c.token, d, n, hist())
				}
			}
		}
	}
	ca.Close()
	cb.Close()
	<-serveDone
	<-serveDone
	synctest.Wait()
	if left := bubbleLeftovers(); len(left) > 0 {
		c14Fatalf(rt, "goroutines still blocked after both ends closed (a call or handler is wedged):\n%s\nschedule:\n  %s", strings.Join(left, "\n\n"), hist())
	}
	// let every pending timer of the bubble fire (contexts with deadlines, ...) and look again: whatever is still
	// blocked then would make the bubble's end fail with a bare "deadlock" report instead of a diagnosis
	time.Sleep(24 * time.Hour)
	synctest.Wait()
	if left := bubbleLeftovers(); len(left) > 0 {
		c14Fatalf(rt, "goroutines still blocked a (virtual) day after both ends closed:\n%s\nschedule:\n  %s", strings.Join(left, "\n\n"), hist())
	}
	nontrivial := len(callers) >= 2 && (reordered || cancels > 0 || nestedSeen || writeFaults > 0)
	nBadParam := 0
	for _, c := range callers {
		if c.badParam == "fails" {
			nBadParam++
		}
	}
	var depths []int
	for _, c := range callers {
		depths = append(depths, c.depth)
	}
	rec.Case(fmt.Sprintf("ctl|%d|%d|%v|%v", nA, nB, depths, trace), nontrivial, []string{"ctl", fmt.Sprintf("ctl:cancels:%d", cancels), fmt.Sprintf("ctl:write-faults:%d", writeFaults), fmt.Sprintf("ctl:default-client:%v", defaultClient), fmt.Sprintf("ctl:early-reply:%v", earlyReply), fmt.Sprintf("ctl:nested:%v", nestedSeen), fmt.Sprintf("ctl:stall-resolved-on-second-look:%v", falseStalls > 0), fmt.Sprintf("ctl:unencodable-param:%v", nBadParam > 0), fmt.Sprintf("ctl:late-registration:%v", lateRegistrations > 0)}, func() interface{} {
		return map[string]interface{}{"kind": "controlled delivery", "callers_A": nA, "callers_B": nB, "depths": depths, "schedule": trace}
	})
}

func TestC14Controlled(t *testing.T) {
	defer vt.Watch("TestC14Controlled", 120*time.Second)()
	rec := vt.For("C14")
	rec.Rule("two real jsonrpc2.Remotes joined by a harness codec whose deliveries are decided by the test controller (FIFO per direction, any interleaving across directions, writers parked right after sending so that replies can arrive before the caller waits); 0-4 callers per side with nested call-backs of depth 0-3 through CtxService(ctx); controller choices (rapid draws): run a parked caller, deliver the next A->B or B->A message, cancel a caller (<=2); oracle: every call returns its own token chain or context.Canceled iff it was cancelled, a cancelled call returns by the next quiescent point, every request level is handled exactly once, the context service is the arrival connection, no deadlock while messages remain deliverable, no goroutine left blocked after both ends close; non-trivial = >=2 callers and a reordering, a cancellation or a nested call-back; distinct by callers + depths + schedule")
	check(t, func(rt *rapid.T) {
		rapid.SyncTest(rt, func(rt *rapid.T) { c14Case(rt, rec) })
	})
}

// TestC14FreeRunning — many concurrent callers on both ends of a net.Pipe
// connection (the repository's own ServePipe) under the race detector.
func TestC14FreeRunning(t *testing.T) {
	defer vt.Watch("TestC14FreeRunning", 120*time.Second)()
	rec := vt.For("C14")
	rec.Rule("free-running (statistical, -race): 1-8 callers per side with nested call-backs (depth<=3) and 0/1ns deadlines over net.Pipe + IOCodec (jsonrpc2.ServePipe), one side sometimes built without a Client (its first calls arrive together); every call returns its own token chain or its context's error; distinct by callers + depths")
	check(t, func(rt *rapid.T) {
		rapid.SyncTest(rt, func(rt *rapid.T) {
			rb, ra := jsonrpc2.ServePipe()
			svcA := &EchoSvc{side: "A", handled: map[string]int{}, self: ra}
			svcB := &EchoSvc{side: "B", handled: map[string]int{}, self: rb}
			if err := ra.Server.RegisterMethod("test_echo", svcA, "Echo"); err != nil {
				rt.Fatal(err)
			}
			if err := rb.Server.RegisterMethod("test_echo", svcB, "Echo"); err != nil {
				rt.Fatal(err)
			}
			if rapid.IntRange(0, 2).Draw(rt, "builtWithoutClient") == 0 {
				// a Remote built without a Client (the legacy client command does that; Call provides one): the first
				// calls may well arrive together
				ra.Client = nil
			}
			nA := rapid.IntRange(1, 8).Draw(rt, "callersA")
			nB := rapid.IntRange(1, 8).Draw(rt, "callersB")
			type res struct {
				token string
				depth int
				out   string
				err   error
				dl    bool
			}
			results := make([]res, nA+nB)
			var wg sync.WaitGroup
			for i := 0; i < nA+nB; i++ {
				r, side := ra, "A"
				if i >= nA {
					r, side = rb, "B"
				}
				depth := rapid.IntRange(0, 3).Draw(rt, "depth")
				dlKind := rapid.IntRange(0, 5).Draw(rt, "deadline")
				deadline := dlKind == 0 // already over when the call starts
				generous := dlKind == 1 // a second: never reached
				i := i
				wg.Add(1)
				go func() {
					defer wg.Done()
					ctx := context.Background()
					if deadline {
						var cancel context.CancelFunc
						ctx, cancel = context.WithTimeout(ctx, time.Nanosecond)
						defer cancel()
					}
					if generous {
						var cancel context.CancelFunc
						ctx, cancel = context.WithTimeout(ctx, time.Second)
						defer cancel()
					}
					tok := fmt.Sprintf("%s%d", side, i)
					var out string
					err := r.Call(ctx, &out, "test_echo", tok, depth)
					results[i] = res{tok, depth, out, err, deadline}
				}()
			}
			wg.Wait()
			var depths []int
			for _, x := range results {
				depths = append(depths, x.depth)
				if x.err == nil {
					if x.out != expectedEcho(x.token, x.depth) {
						c14Fatalf(rt, "call %s returned %q, want %q", x.token, x.out, expectedEcho(x.token, x.depth))
					}
				} else if !x.dl {
					c14Fatalf(rt, "call %s failed without a deadline: %v", x.token, x.err)
				} else if !errors.Is(x.err, context.DeadlineExceeded) && !strings.Contains(x.err.Error(), "deadline exceeded") {
					c14Fatalf(rt, "call %s with a deadline failed with %v", x.token, x.err)
				}
			}
			for _, svc := range []*EchoSvc{svcA, svcB} {
				svc.mu.Lock()
				if len(svc.bad) > 0 {
					c14Fatalf(rt, "%s", svc.bad[0])
				}
				for k, n := range svc.handled {
					if n != 1 {
						c14Fatalf(rt, "request %s handled %d times", k, n)
					}
				}
				svc.mu.Unlock()
			}
			// the connection stays usable after those deadlines have passed: one more call in each direction
			time.Sleep(3 * time.Second)
			for _, late := range []struct {
				r    *jsonrpc2.Remote
				side string
			}{{ra, "A"}, {rb, "B"}} {
				ctx, cancel := context.WithTimeout(context.Background(), 30*time.Second)
				var out string
				tok := "late" + late.side
				err := late.r.Call(ctx, &out, "test_echo", tok, 1)
				cancel()
				if err != nil || out != expectedEcho(tok, 1) {
					c14Fatalf(rt, "3s after the first batch (whose calls had deadlines of 1ns, 1s or none) a call from side %s with a nested call-back returned %q, err=%v; want %q", late.side, out, err, expectedEcho(tok, 1))
				}
			}
			ra.Close()
			rb.Close()
			rec.Case(fmt.Sprintf("free|%d|%d|%v", nA, nB, depths), nA+nB >= 2, []string{"free"}, func() interface{} {
				return map[string]interface{}{"kind": "free-running over net.Pipe", "callers_A": nA, "callers_B": nB, "depths": depths}
			})
		})
	})
}

// HoldSvc answers only after the test has released it: lets many calls be outstanding at once.
type HoldSvc struct {
	mu      sync.Mutex
	arrived int
	release chan struct{}
}

func (h *HoldSvc) Hold(ctx context.Context, token string) (string, error) {
	h.mu.Lock()
	h.arrived++
	h.mu.Unlock()
	<-h.release
	return token, nil
}

// TestC14ManyOutstanding — any number of calls may be outstanding on a connection that sets no pending limit.
func TestC14ManyOutstanding(t *testing.T) {
	defer vt.Watch("TestC14ManyOutstanding", 120*time.Second)()
	rec := vt.For("C14")
	rec.Rule("many outstanding calls: 20-120 callers on one end of a default connection (jsonrpc2.ServePipe: no pending limit), or 2-49 callers on a connection configured like the pool server's (50 reply slots, drop 10 when full), send before any reply exists (the handler holds every request until all have arrived), some are cancelled meanwhile, then the replies come back in generated order; oracle: every call that was not cancelled returns its own token, cancelled ones return their context's error; distinct by (callers, cancelled, order)")
	check(t, func(rt *rapid.T) {
		rapid.SyncTest(rt, func(rt *rapid.T) {
			rb, ra := jsonrpc2.ServePipe()
			defer ra.Close()
			defer rb.Close()
			hold := &HoldSvc{release: make(chan struct{})}
			if err := rb.Server.RegisterMethod("test_hold", hold, "Hold"); err != nil {
				rt.Fatal(err)
			}
			n := rapid.IntRange(20, 120).Draw(rt, "callers")
			// the pool server's configuration of its connections: at most 50 reply slots, the 10 oldest are dropped
			// when the table is full. Below that bound nothing may be dropped.
			production := rapid.Bool().Draw(rt, "poolServerLimits")
			if production {
				ra.PendingLimit, ra.PendingDiscard = 50, 10
				n = rapid.IntRange(2, 49).Draw(rt, "callersBelowLimit")
			}
			nCancel := rapid.IntRange(0, n/3).Draw(rt, "cancelled")
			type res struct {
				out string
				err error
			}
			results := make([]res, n)
			ctxs := make([]context.Context, n)
			cancels := make([]context.CancelFunc, n)
			var wg sync.WaitGroup
			for i := 0; i < n; i++ {
				ctxs[i], cancels[i] = context.WithTimeout(context.Background(), 5*time.Minute)
				wg.Add(1)
				go func() {
					defer wg.Done()
					var out string
					err := ra.Call(ctxs[i], &out, "test_hold", fmt.Sprintf("tok%d", i))
					results[i] = res{out, err}
				}()
			}
			synctest.Wait()
			hold.mu.Lock()
			arrived := hold.arrived
			hold.mu.Unlock()
			if arrived != n {
				c14Fatalf(rt, "%d calls were sent, %d requests reached the handler", n, arrived)
			}
			cancelled := map[int]bool{}
			for k := 0; k < nCancel; k++ {
				i := rapid.IntRange(0, n-1).Draw(rt, "cancelIdx")
				cancelled[i] = true
				cancels[i]()
			}
			synctest.Wait()
			close(hold.release)
			wg.Wait()
			for i := 0; i < n; i++ {
				cancels[i]()
				r := results[i]
				switch {
				case cancelled[i]:
					if r.err == nil && r.out != fmt.Sprintf("tok%d", i) {
						c14Fatalf(rt, "cancelled call %d returned %q", i, r.out)
					}
				case r.err != nil:
					c14Fatalf(rt, "call %d of %d outstanding calls never got its reply: %v (pool server limits 50/10 configured: %v; below the limit, and without one, every outstanding call keeps its reply slot)", i, n, r.err, production)
				case r.out != fmt.Sprintf("tok%d", i):
					c14Fatalf(rt, "call %d returned %q, its own reply is %q", i, r.out, fmt.Sprintf("tok%d", i))
				}
			}
			rec.Case(fmt.Sprintf("many|%d|%d|%v", n, len(cancelled), production), n > 50 || (production && n >= 10), []string{"many-outstanding", fmt.Sprintf("many-outstanding:>50:%v", n > 50), fmt.Sprintf("many-outstanding:pool-server-limits:%v", production)}, func() interface{} {
				return map[string]interface{}{"kind": "many outstanding calls", "callers": n, "cancelled": len(cancelled)}
			})
		})
	})
}

// c14Fatalf prints the failure before failing: a failure inside a bubble that still holds blocked goroutines is
// otherwise reported by the runtime as a bare "deadlock: main bubble goroutine has exited".
func c14Fatalf(rt *rapid.T, format string, a ...interface{}) {
	fmt.Printf("C14 FAILURE DETAIL: %.3000s\n", fmt.Sprintf(format, a...))
	rt.Fatalf(format, a...)
}
