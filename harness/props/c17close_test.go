package props

// C17, over plain TCP connections (no shim underneath, so that whatever the codecs do to the socket itself is in the
// loop): the writer writes its last messages and closes at once; what was written without error still arrives.

import (
	"context"
	"fmt"
	"net/http"
	"net/http/httptest"
	"strings"
	"testing"
	"time"

	"github.com/vipnode/vipnode/v2/jsonrpc2"
	"github.com/vipnode/vipnode/v2/jsonrpc2/ws/gobwas"
	"github.com/vipnode/vipnode/v2/jsonrpc2/ws/gorilla"
	"pgregory.net/rapid"

	"verif/vt"
)

func TestC17CloseAfterWrite(t *testing.T) {
	rec := vt.For("C17")
	rec.Rule("close right after the last write (real loopback TCP, no shim; gorilla and gobwas codecs, either direction): 1-40 generated messages (up to ~200 KB in total) are written and the writer closes at once, the reader starts reading 0-50 ms later; oracle: every message arrives intact and in order, then the end of the connection; distinct by (library, direction, messages, size class)")
	check(t, func(rt *rapid.T) {
		lib := rapid.SampledFrom([]string{"gorilla", "gorilla", "gobwas"}).Draw(rt, "library")
		var up wsUpgrader
		if lib == "gorilla" {
			up = &gorilla.Upgrader{}
		} else {
			up = &gobwas.Upgrader{}
		}
		serverCodec := make(chan jsonrpc2.Codec, 1)
		done := make(chan struct{})
		ts := httptest.NewServer(http.HandlerFunc(func(w http.ResponseWriter, r *http.Request) {
			c, err := up.Upgrade(r, w, nil)
			if err != nil {
				serverCodec <- nil
				return
			}
			serverCodec <- c
			<-done
		}))
		defer ts.Close()
		defer close(done)
		url := "ws" + strings.TrimPrefix(ts.URL, "http") + "/"
		var client jsonrpc2.Codec
		var err error
		if lib == "gorilla" {
			client, err = gorilla.WebSocketDial(context.Background(), url)
		} else {
			client, err = gobwas.WebSocketDial(context.Background(), url)
		}
		if err != nil {
			rt.Fatalf("[setup failed] dial: %v", err)
		}
		server := <-serverCodec
		if server == nil {
			rt.Fatalf("[setup failed] upgrade")
		}
		defer client.Close()
		defer server.Close()
		dir := rapid.SampledFrom([]string{"client->server", "server->client"}).Draw(rt, "direction")
		w, r := client, server
		if dir == "server->client" {
			w, r = server, client
		}
		n := rapid.IntRange(1, 40).Draw(rt, "messages")
		pad := rapid.SampledFrom([]int{0, 100, 5000}).Draw(rt, "pad")
		var msgs []*jsonrpc2.Message
		for i := 0; i < n; i++ {
			m := genMessage(rt, true)
			if len(canonMsg(m)) > 20000 {
				m = &jsonrpc2.Message{Version: "2.0", ID: []byte(fmt.Sprint(i)), Request: &jsonrpc2.Request{Method: "m", Params: []byte(`["` + strings.Repeat("p", pad) + `"]`)}}
			}
			msgs = append(msgs, m)
		}
		for i, m := range msgs {
			if err := w.WriteMessage(m); err != nil {
				rt.Fatalf("%s %s: WriteMessage #%d: %v", lib, dir, i+1, err)
			}
		}
		w.Close()
		time.Sleep(time.Duration(rapid.IntRange(0, 50).Draw(rt, "readerLagMs")) * time.Millisecond)
		type rd struct {
			m   *jsonrpc2.Message
			err error
		}
		got := make(chan rd, n+2)
		go func() {
			for i := 0; i < n+1; i++ {
				m, err := r.ReadMessage()
				got <- rd{m, err}
				if err != nil {
					return
				}
			}
		}()
		for i, want := range msgs {
			select {
			case x := <-got:
				if x.err != nil {
					rt.Fatalf("%s %s: %d messages were written without error and the writer closed; message %d was lost: %v", lib, dir, n, i+1, x.err)
				}
				if canonMsg(x.m) != canonMsg(want) {
					rt.Fatalf("%s %s: message %d of %d arrived modified or out of order", lib, dir, i+1, n)
				}
			case <-time.After(20 * time.Second):
				rt.Fatalf("%s %s: message %d of %d never arrived", lib, dir, i+1, n)
			}
		}
		select {
		case x := <-got:
			if x.err == nil {
				rt.Fatalf("%s %s: an extra message arrived after the %d written", lib, dir, n)
			}
		case <-time.After(20 * time.Second):
			rt.Fatalf("%s %s: the reader did not see the end of the connection", lib, dir)
		}
		rec.Case(fmt.Sprintf("closeafterwrite|%s|%s|%d|%d", lib, dir, n, pad), n >= 2, []string{"ws:close-after-write", "ws:close-after-write:" + lib}, func() interface{} {
			return map[string]interface{}{"codec": "websocket/" + lib, "kind": "close right after the last write, plain TCP", "direction": dir, "messages": n, "pad": pad}
		})
	})
}
