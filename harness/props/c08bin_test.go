package props

// C08 through the shipped binary: the pool's configured maximum
// (--max-request-hosts) and the request paths of server.go are inside the loop.

import (
	"context"
	"fmt"
	"strings"
	"testing"
	"time"

	"github.com/vipnode/vipnode/v2/ethnode"
	"github.com/vipnode/vipnode/v2/pool"
	"pgregory.net/rapid"

	"verif/vt"
)

func TestC08Binary(t *testing.T) {
	rec := vt.For("C08")
	rec.Rule("binary level: `vipnode pool --store=memory` is started with a generated --max-request-hosts (absent, 0, 1, 2, 3, 5); 1-4 geth hosts register over WebSocket and acknowledge every whitelist call, one of them may end its connection; a fresh light client asks over HTTP with vipnode_peer{num in {-1,0,1,2,3,6}} or the legacy vipnode_client{num_hosts}; oracle: every returned node is a distinct connected host that acknowledged a whitelist call for the requester before the reply, the reply holds exactly min(effective request, configured maximum, connected hosts) hosts (effective request: num, or 3 for a legacy request without a count; none for num <= 0), an error only when that is 0 although hosts were asked for; non-trivial = the configured maximum or the supply cuts the request; distinct by (max, hosts, request)")
	rec.Assume("binary level is real time: a closed host connection is given up to 10 s to be noticed by the pool before the request is sent")
	idBase := 0
	check(t, func(rt *rapid.T) {
		maxSpec := rapid.SampledFrom([]int{-1, 0, 1, 2, 3, 5}).Draw(rt, "max")
		var args []string
		max := 0
		if maxSpec >= 0 {
			args = append(args, fmt.Sprintf("--max-request-hosts=%d", maxSpec))
			max = maxSpec
		}
		p := startPool(rt, args...)
		defer p.stop()
		fail := func(f string, a ...interface{}) {
			rt.Fatalf("%s\npool options: %v\npool log tail:\n%s", fmt.Sprintf(f, a...), args, tailLines(p.log(), 12))
		}
		ctx, cancel := context.WithTimeout(context.Background(), 40*time.Second)
		defer cancel()
		nHosts := rapid.IntRange(1, 4).Draw(rt, "hosts")
		var hosts []*wsAgent
		defer func() {
			for _, h := range hosts {
				if h.open {
					h.end("close")
				}
			}
		}()
		for i := 0; i < nHosts; i++ {
			h, err := dialWS(p.addr, nodeIdent(i), i+1)
			if err != nil {
				fail("%s", p.dialFailure(err))
			}
			hosts = append(hosts, h)
			if err := h.connectHost(ctx); err != nil {
				fail("host connect: %v", err)
			}
		}
		connected := nHosts
		idBase++
		client := mkIdent(fmt.Sprintf("c08bin%d", idBase))
		hc := httpClient(p.addr)
		rp := pool.Remote(hc, client.key)
		if _, err := rp.Connect(ctx, pool.ConnectRequest{VipnodeVersion: "verif", NodeInfo: ethnode.UserAgent{Kind: ethnode.Geth, Network: 1}}); err != nil {
			fail("client connect: %v", err)
		}
		closedOne := false
		if nHosts > 1 && rapid.IntRange(0, 3).Draw(rt, "closeOne") == 0 {
			hosts[0].end(rapid.SampledFrom([]string{"close", "tcp-drop", "close-1000"}).Draw(rt, "closeMode"))
			connected--
			closedOne = true
			// wait until the pool has noticed (pool_status reports the connected hosts? not documented) - probe with a
			// throw-away client until the closed host is no longer instructed
			deadline := time.Now().Add(10 * time.Second)
			for time.Now().Before(deadline) {
				idBase++
				probe := mkIdent(fmt.Sprintf("c08probe%d", idBase))
				prp := pool.Remote(httpClient(p.addr), probe.key)
				prp.Connect(ctx, pool.ConnectRequest{VipnodeVersion: "verif", NodeInfo: ethnode.UserAgent{Kind: ethnode.Geth, Network: 1}})
				resp, _ := prp.Peer(ctx, pool.PeerRequest{Num: 6})
				stillThere := false
				if resp != nil {
					for _, pn := range resp.Peers {
						if string(pn.ID) == hosts[0].id.nodeID {
							stillThere = true
						}
					}
				}
				if !stillThere {
					break
				}
				time.Sleep(50 * time.Millisecond)
			}
		}
		legacy := rapid.IntRange(0, 2).Draw(rt, "legacy") == 0
		num := rapid.SampledFrom([]int{-1, 0, 1, 2, 3, 6}).Draw(rt, "num")
		nEff := num
		if legacy && num <= 0 {
			nEff = 3
		}
		if max > 0 && nEff > max {
			nEff = max
		}
		want := nEff
		if want > connected {
			want = connected
		}
		if want < 0 {
			want = 0
		}
		var got []string
		var err error
		if legacy {
			var resp pool.ClientResponse
			req := pool.ClientRequest{Kind: "geth", NumHosts: num}
			n := time.Now().UnixNano()
			err = hc.Call(ctx, &resp, "vipnode_client", mustSign(client.key, "vipnode_client", client.nodeID, n, req), client.nodeID, n, req)
			for _, pn := range resp.Hosts {
				got = append(got, string(pn.ID))
			}
		} else {
			var resp *pool.PeerResponse
			resp, err = rp.Peer(ctx, pool.PeerRequest{Num: num, Kind: "geth"})
			if resp != nil {
				for _, pn := range resp.Peers {
					got = append(got, string(pn.ID))
				}
			}
		}
		desc := fmt.Sprintf("max-request-hosts=%d, %d hosts connected (one closed: %v), legacy=%v num=%d -> %d hosts, err=%v", maxSpec, connected, closedOne, legacy, num, len(got), err)
		seen := map[string]bool{}
		for _, id := range got {
			if seen[id] {
				fail("host %s returned twice: %s", nodeName(id), desc)
			}
			seen[id] = true
			var h *wsAgent
			for _, x := range hosts {
				if x.id.nodeID == id {
					h = x
				}
			}
			if h == nil || !h.open {
				fail("returned node %s is not a connected host: %s", nodeName(id), desc)
			}
			acked := false
			for _, c := range h.svc.Calls() {
				if c.Method == "whitelist" && c.Arg == client.nodeID {
					acked = true
				}
			}
			if !acked {
				fail("returned host %s never acknowledged a whitelist call for the requester: %s", nodeName(id), desc)
			}
		}
		if len(got) != want {
			fail("every connected host is eligible and acknowledges: the reply must hold min(effective request %d, connected %d) = %d hosts: %s", nEff, connected, want, desc)
		}
		if want > 0 && err != nil {
			fail("hosts were returned together with an error: %s", desc)
		}
		if err != nil && !(nEff > 0 && want == 0) && !strings.Contains(err.Error(), "no available host") {
			fail("unexpected error: %s", desc)
		}
		rec.Case(fmt.Sprintf("bin|%d|%d|%v|%d|%v", maxSpec, nHosts, legacy, num, closedOne), (max > 0 && num > max) || num > connected, []string{"binary", fmt.Sprintf("binary:max-configured:%v", max > 0)}, func() interface{} {
			return map[string]interface{}{"kind": "pool binary", "options": args, "outcome": desc}
		})
	})
}
