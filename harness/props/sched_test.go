package props

// A harness-owned scheduler: tasks are goroutines that park at every
// instrumented yield point (a call through the yielding store wrapper, the
// settle handler, a host's whitelist handler); the controller waits for
// quiescence, looks at who is parked, lets a rapid draw pick one and releases
// it. An interleaving is therefore a generated, shrinkable, replayable list
// of small integers, independent of the Go scheduler.
//
// Quiescence is detected from a stop-the-world stack snapshot: no goroutine of
// this synctest bubble other than the controller is running or runnable. This
// also works when a task is blocked on a sync.Mutex held by a parked task
// (which synctest.Wait does not treat as durably blocked).

import (
	"bytes"
	"fmt"
	"math/big"
	"regexp"
	"runtime"
	"sort"
	"strconv"
	"strings"
	"sync"
	"testing/synctest"
	"time"

	"github.com/vipnode/vipnode/v2/pool/store"
	"pgregory.net/rapid"
)

func goid() int64 {
	var buf [64]byte
	n := runtime.Stack(buf[:], false)
	// "goroutine 123 [running..."
	f := bytes.Fields(buf[:n])
	id, _ := strconv.ParseInt(string(f[1]), 10, 64)
	return id
}

var goroutineHdr = regexp.MustCompile(`(?m)^goroutine (\d+) \[([^\]]*)\]:`)

// bubbleOf returns the "synctest bubble N" tag of the calling goroutine ("" outside a bubble).
func myBubble() string {
	var buf [128]byte
	n := runtime.Stack(buf[:], false)
	m := goroutineHdr.FindSubmatch(buf[:n])
	if m == nil {
		return ""
	}
	return bubbleTag(string(m[2]))
}

var bubbleRe = regexp.MustCompile(`synctest bubble \d+`)

func bubbleTag(state string) string { return bubbleRe.FindString(state) }

type parkedTask struct {
	task  int
	label string
	ch    chan struct{}
}

type sched struct {
	mu       sync.Mutex
	tasks    map[int64]int // goroutine id -> task index
	names    []string
	parked   map[int]*parkedTask
	done     map[int]bool
	trace    []string
	bubble   string
	aborted  bool
	total    int
	self     int64
	stackBuf []byte
}

func newSched() *sched {
	return &sched{tasks: map[int64]int{}, parked: map[int]*parkedTask{}, done: map[int]bool{}, stackBuf: make([]byte, 1<<20)}
}

// yield parks the calling goroutine if it is a registered task.
func (s *sched) yield(label string) {
	if s == nil {
		return
	}
	g := goid()
	s.mu.Lock()
	t, ok := s.tasks[g]
	if !ok || s.aborted {
		s.mu.Unlock()
		return
	}
	p := &parkedTask{task: t, label: label, ch: make(chan struct{})}
	s.parked[t] = p
	s.mu.Unlock()
	<-p.ch
}

// quiesce spins until no other goroutine of this bubble is running or runnable.
func (s *sched) quiesce() {
	for spins := 0; ; spins++ {
		runtime.Gosched()
		n := runtime.Stack(s.stackBuf, true)
		for n == len(s.stackBuf) {
			s.stackBuf = make([]byte, 2*len(s.stackBuf))
			n = runtime.Stack(s.stackBuf, true)
		}
		busy := false
		for _, m := range goroutineHdr.FindAllSubmatch(s.stackBuf[:n], -1) {
			id, _ := strconv.ParseInt(string(m[1]), 10, 64)
			if id == s.self {
				continue
			}
			state := string(m[2])
			if s.bubble != "" && bubbleTag(state) != s.bubble {
				continue
			}
			if !blockedState(state) {
				busy = true
				break
			}
		}
		if !busy {
			return
		}
		if spins > 2000000 {
			panic("sched: system does not quiesce")
		}
	}
}

// blockedState reports whether a goroutine in this wait state can only be woken by another goroutine (or a
// timer of the bubble's fake clock) - everything else (running, runnable, syscall, preempted, GC assist wait,
// stack copying, ...) counts as "still going to do something by itself".
func blockedState(state string) bool {
	for _, p := range []string{"chan receive", "chan send", "select", "sync.Mutex.Lock", "sync.RWMutex", "sync.WaitGroup.Wait", "sync.Cond.Wait", "semacquire", "sleep", "synctest.Run", "synctest.Wait", "IO wait", "finalizer wait"} {
		if strings.HasPrefix(state, p) {
			return true
		}
	}
	return false
}

// run executes the task functions under the control of draws from rt. It
// returns the order in which yield points were released.
func (s *sched) run(rt *rapid.T, names []string, fns []func()) []string {
	return s.runWith(func(parked []*parkedTask) int {
		return rapid.IntRange(0, len(parked)-1).Draw(rt, "sched")
	}, names, fns)
}

// runWith is run with an explicit picking policy (index into the parked
// tasks, sorted by task number); used by fixed regression schedules.
func (s *sched) runWith(pickFn func(parked []*parkedTask) int, names []string, fns []func()) []string {
	wait := s.start(names, fns)
	// If the controller fails (a rapid draw running out of data while
	// shrinking, an assertion), never leave tasks parked: let them run free to
	// completion so that the bubble can end, then pass the failure on.
	defer func() {
		if r := recover(); r != nil {
			s.abort()
			wait()
			panic(r)
		}
	}()
	for {
		s.quiesce()
		ps := s.parkedList()
		if len(ps) == 0 {
			if s.allDone() {
				break
			}
			// be sure before calling it a deadlock: a task may be between two states the snapshot cannot tell apart
			stuck := true
			for retry := 0; retry < 300 && stuck; retry++ {
				for i := 0; i < 50; i++ {
					runtime.Gosched()
				}
				s.quiesce()
				if len(s.parkedList()) > 0 || s.allDone() {
					stuck = false
				}
			}
			if !stuck {
				continue
			}
			panic(fmt.Sprintf("sched: deadlock: %d of %d tasks finished, none parked; trace %v", s.numDone(), len(fns), s.trace))
		}
		pick := 0
		if len(ps) > 1 {
			pick = pickFn(ps)
		}
		s.release(ps[pick])
	}
	wait()
	return s.trace
}

// start launches the tasks (each parks at "start" first) and returns a
// function that waits for all of them to finish.
func (s *sched) start(names []string, fns []func()) func() {
	s.self = goid()
	s.bubble = myBubble()
	s.names = names
	s.total = len(fns)
	var wg sync.WaitGroup
	for i, fn := range fns {
		i, fn := i, fn
		wg.Add(1)
		ready := make(chan struct{})
		go func() {
			defer wg.Done()
			g := goid()
			s.mu.Lock()
			s.tasks[g] = i
			s.mu.Unlock()
			close(ready)
			defer func() {
				s.mu.Lock()
				s.done[i] = true
				delete(s.tasks, g)
				s.mu.Unlock()
			}()
			s.yield("start")
			fn()
		}()
		<-ready
	}
	return wg.Wait
}

// parkedList returns the parked tasks sorted by task number (call after quiesce).
func (s *sched) parkedList() []*parkedTask {
	s.mu.Lock()
	defer s.mu.Unlock()
	var ids []int
	for t := range s.parked {
		ids = append(ids, t)
	}
	sort.Ints(ids)
	var ps []*parkedTask
	for _, id := range ids {
		ps = append(ps, s.parked[id])
	}
	return ps
}

func (s *sched) release(p *parkedTask) {
	s.mu.Lock()
	delete(s.parked, p.task)
	s.trace = append(s.trace, fmt.Sprintf("%s@%s", s.names[p.task], p.label))
	s.mu.Unlock()
	close(p.ch)
}

func (s *sched) note(ev string) {
	s.mu.Lock()
	s.trace = append(s.trace, ev)
	s.mu.Unlock()
}

func (s *sched) abort() {
	s.mu.Lock()
	s.aborted = true
	for t, p := range s.parked {
		close(p.ch)
		delete(s.parked, t)
	}
	s.mu.Unlock()
}

func (s *sched) numDone() int      { s.mu.Lock(); defer s.mu.Unlock(); return len(s.done) }
func (s *sched) allDone() bool     { s.mu.Lock(); defer s.mu.Unlock(); return len(s.done) == s.total }
func (s *sched) isDone(i int) bool { s.mu.Lock(); defer s.mu.Unlock(); return s.done[i] }

// ---------------------------------------------------------------------------
// yielding store wrapper: every store call of a task is a yield point.

type yieldStore struct {
	inner store.Store
	sc    *sched
	hmu   sync.Mutex
	hook  func(method string) error // optional: may block and/or make the call fail (fault and gate injection)
}

func (y *yieldStore) setHook(h func(method string) error) {
	y.hmu.Lock()
	y.hook = h
	y.hmu.Unlock()
}

// enter is called at the start of every store method.
func (y *yieldStore) enter(method string) error {
	y.sc.yield(method)
	y.hmu.Lock()
	h := y.hook
	y.hmu.Unlock()
	if h != nil {
		return h(method)
	}
	return nil
}

func (y *yieldStore) CheckAndSaveNonce(id string, n int64) error {
	if err := y.enter("CheckAndSaveNonce"); err != nil {
		return err
	}
	return y.inner.CheckAndSaveNonce(id, n)
}
func (y *yieldStore) GetNode(id store.NodeID) (*store.Node, error) {
	if err := y.enter("GetNode"); err != nil {
		return nil, err
	}
	return y.inner.GetNode(id)
}
func (y *yieldStore) SetNode(n store.Node) error {
	if err := y.enter("SetNode"); err != nil {
		return err
	}
	return y.inner.SetNode(n)
}
func (y *yieldStore) ActiveHosts(kind string, limit int) ([]store.Node, error) {
	if err := y.enter("ActiveHosts"); err != nil {
		return nil, err
	}
	return y.inner.ActiveHosts(kind, limit)
}
func (y *yieldStore) NodePeers(id store.NodeID) ([]store.Node, error) {
	if err := y.enter("NodePeers"); err != nil {
		return nil, err
	}
	return y.inner.NodePeers(id)
}
func (y *yieldStore) UpdateNodePeers(id store.NodeID, peers []string, block uint64) ([]store.NodeID, error) {
	if err := y.enter("UpdateNodePeers"); err != nil {
		return nil, err
	}
	return y.inner.UpdateNodePeers(id, peers, block)
}
func (y *yieldStore) GetNodeBalance(id store.NodeID) (store.Balance, error) {
	if err := y.enter("GetNodeBalance"); err != nil {
		return store.Balance{}, err
	}
	return y.inner.GetNodeBalance(id)
}
func (y *yieldStore) AddNodeBalance(id store.NodeID, c *big.Int) error {
	if err := y.enter("AddNodeBalance"); err != nil {
		return err
	}
	return y.inner.AddNodeBalance(id, c)
}
func (y *yieldStore) GetAccountBalance(a store.Account) (store.Balance, error) {
	if err := y.enter("GetAccountBalance"); err != nil {
		return store.Balance{}, err
	}
	return y.inner.GetAccountBalance(a)
}
func (y *yieldStore) AddAccountBalance(a store.Account, c *big.Int) error {
	if err := y.enter("AddAccountBalance"); err != nil {
		return err
	}
	return y.inner.AddAccountBalance(a, c)
}
func (y *yieldStore) AddAccountNode(a store.Account, id store.NodeID) error {
	if err := y.enter("AddAccountNode"); err != nil {
		return err
	}
	return y.inner.AddAccountNode(a, id)
}
func (y *yieldStore) IsAccountNode(a store.Account, id store.NodeID) error {
	if err := y.enter("IsAccountNode"); err != nil {
		return err
	}
	return y.inner.IsAccountNode(a, id)
}
func (y *yieldStore) GetAccountNodes(a store.Account) ([]store.NodeID, error) {
	if err := y.enter("GetAccountNodes"); err != nil {
		return nil, err
	}
	return y.inner.GetAccountNodes(a)
}
func (y *yieldStore) Stats() (*store.Stats, error) {
	if err := y.enter("Stats"); err != nil {
		return nil, err
	}
	return y.inner.Stats()
}
func (y *yieldStore) Close() error { return y.inner.Close() }

// bubbleLeftovers returns the stacks of the goroutines of the calling
// goroutine's synctest bubble (other than the caller) that are still alive.
// Call it after closing everything: whatever is left is a leaked or wedged
// goroutine (a bubble cannot end while one exists).
func bubbleLeftovers() []string {
	self := goid()
	tag := myBubble()
	buf := make([]byte, 1<<20)
	n := runtime.Stack(buf, true)
	for n == len(buf) {
		buf = make([]byte, 2*len(buf))
		n = runtime.Stack(buf, true)
	}
	var out []string
	for _, block := range bytes.Split(buf[:n], []byte("\n\n")) {
		m := goroutineHdr.FindSubmatch(block)
		if m == nil {
			continue
		}
		id, _ := strconv.ParseInt(string(m[1]), 10, 64)
		if id == self || tag == "" || bubbleTag(string(m[2])) != tag {
			continue
		}
		if bytes.Contains(block, []byte("internal/synctest.Run(")) || bytes.Contains(block, []byte("synctest.testingSynctestTest(")) {
			continue // the bubble's own plumbing
		}
		out = append(out, string(block))
	}
	return out
}

// closeStore closes a store; inside a synctest bubble it first waits for every
// other goroutine to block. Reason: badger's iterators prefetch values in
// goroutines of their own and Iterator.Close does not wait for the CURRENT
// item's prefetch; DB.Close then keeps the value-log file locks forever, so a
// straggling prefetch goroutine would block on them for good and the bubble
// could never end. (A badger quirk - one leaked goroutine at shutdown - not
// something the properties speak about.)
func closeStore(st interface{ Close() error }) error {
	if myBubble() != "" {
		synctest.Wait()
	} else {
		// outside a bubble: give a straggling prefetch the time to finish (each leaked one keeps a whole closed
		// database reachable - 12 GB after 2800 crash cases in one process, thorough run #8)
		buf := make([]byte, 1<<16)
		for i := 0; i < 200; i++ {
			n := runtime.Stack(buf, true)
			for n == len(buf) {
				buf = make([]byte, 2*len(buf))
				n = runtime.Stack(buf, true)
			}
			if !bytes.Contains(buf[:n], []byte("(*Item).prefetchValue")) {
				break
			}
			time.Sleep(50 * time.Microsecond)
		}
	}
	return st.Close()
}
