package props

// C16 — only registered RPC names are callable, with exactly their declared parameters.

import (
	"bytes"
	"context"
	"encoding/json"
	"fmt"
	"io"
	"net/http"
	"net/http/httptest"
	"os"
	"os/exec"
	"reflect"
	"sort"
	"strings"
	"sync"
	"testing"
	"time"
	"unicode"

	"github.com/ethereum/go-ethereum/crypto"
	"github.com/gorilla/websocket"
	"github.com/vipnode/vipnode/v2/jsonrpc2"
	"github.com/vipnode/vipnode/v2/jsonrpc2/ws/gorilla"
	"github.com/vipnode/vipnode/v2/pool"
	"github.com/vipnode/vipnode/v2/pool/payment"
	"github.com/vipnode/vipnode/v2/pool/status"
	"pgregory.net/rapid"

	"verif/vt"
)

// ---------------------------------------------------------------------------
// receiver family (the oracle table below is written by hand, no reflection)

type RPCParams struct {
	Name  string `json:"name"`
	Count int    `json:"count"`
}

type hiddenParam struct{ X int }

type RecvA struct {
	mu    sync.Mutex
	calls []string
}

func (r *RecvA) rec(s string) { r.mu.Lock(); r.calls = append(r.calls, s); r.mu.Unlock() }
func (r *RecvA) take() []string {
	r.mu.Lock()
	defer r.mu.Unlock()
	c := r.calls
	r.calls = nil
	return c
}

func (r *RecvA) NoArgs() error { r.rec("NoArgs()"); return nil }
func (r *RecvA) OneString(s string) (string, error) {
	r.rec(fmt.Sprintf("OneString(%q)", s))
	return s, nil
}
func (r *RecvA) CtxTwo(ctx context.Context, n int64, s string) (string, error) {
	r.rec(fmt.Sprintf("CtxTwo(%d,%q)", n, s))
	return s, nil
}
func (r *RecvA) StructArg(p RPCParams) (*RPCParams, error) {
	r.rec(fmt.Sprintf("StructArg({%q,%d})", p.Name, p.Count))
	return &p, nil
}
func (r *RecvA) SliceArg(xs []string) int {
	r.rec(fmt.Sprintf("SliceArg(%q)", xs))
	return len(xs)
}
func (r *RecvA) PtrArg(p *RPCParams) error {
	if p == nil {
		r.rec("PtrArg(nil)")
	} else {
		r.rec(fmt.Sprintf("PtrArg({%q,%d})", p.Name, p.Count))
	}
	return nil
}
func (r *RecvA) Three(a string, b int64, c bool) error {
	r.rec(fmt.Sprintf("Three(%q,%d,%v)", a, b, c))
	return nil
}
func (r *RecvA) TailPtr(a string, p *RPCParams) error {
	r.rec(fmt.Sprintf("TailPtr(%q,%v)", a, p != nil))
	return nil
}

// names that start with more than one capital: only the first letter is lower-cased ("iD", "uRLFor", "x")
func (r *RecvA) ID() error { r.rec("ID()"); return nil }
func (r *RecvA) URLFor(s string) (string, error) {
	r.rec(fmt.Sprintf("URLFor(%q)", s))
	return s, nil
}
func (r *RecvA) X(n int64) error      { r.rec(fmt.Sprintf("X(%d)", n)); return nil }
func (r *RecvA) Fails(s string) error { r.rec("Fails"); return fmt.Errorf("boom %s", s) }

// codedErr is an error that carries a JSON-RPC code of its own (as the errors of nested calls do: *ErrResponse from a
// Remote, go-ethereum RPC errors from the node behind an agent).
type codedErr struct{ code int }

func (e codedErr) Error() string  { return fmt.Sprintf("nested call failed with code %d", e.code) }
func (e codedErr) ErrorCode() int { return e.code }

// FailsCoded runs and then fails with an error that carries the given code.
func (r *RecvA) FailsCoded(code int64) error {
	r.rec(fmt.Sprintf("FailsCoded(%d)", code))
	if code%2 == 0 {
		return codedErr{int(code)}
	}
	return &jsonrpc2.ErrResponse{Code: int(code), Message: "relayed"}
}
func (r *RecvA) hiddenMethod(s string) error {
	r.rec("hiddenMethod")
	return nil
}
func (r *RecvA) HiddenParam(p hiddenParam) error { r.rec("HiddenParam"); return nil }

type c16Method struct {
	goName  string
	kinds   []string // string, int, bool, struct, slice, ptr
	exposed bool     // exported with exported/builtin parameter types
}

var recvATable = []c16Method{
	{"NoArgs", nil, true},
	{"OneString", []string{"string"}, true},
	{"CtxTwo", []string{"int", "string"}, true},
	{"StructArg", []string{"struct"}, true},
	{"SliceArg", []string{"slice"}, true},
	{"PtrArg", []string{"ptr"}, true},
	{"Three", []string{"string", "int", "bool"}, true},
	{"TailPtr", []string{"string", "ptr"}, true},
	{"Fails", []string{"string"}, true},
	{"FailsCoded", []string{"int"}, true},
	{"ID", nil, true},
	{"URLFor", []string{"string"}, true},
	{"X", []string{"int"}, true},
	{"hiddenMethod", []string{"string"}, false},
	{"HiddenParam", []string{"struct"}, false},
}

func lowerFirst(s string) string {
	r := []rune(s)
	r[0] = unicode.ToLower(r[0])
	return string(r)
}

// jsonArgs: value classes per position
var c16JSON = map[string][]string{
	"string": {`"hello"`, `""`, `"ünï"`},
	"int":    {`7`, `-3`, `0`, `-32601`, `-32602`, `-32600`},
	"float":  {`1.5`},
	"bigint": {`9223372036854775808`, `-9223372036854775809`, `1e19`, `1e30`, `18446744073709551616`}, // integral, but no int64
	"bool":   {`true`, `false`},
	"null":   {`null`},
	"object": {`{"name":"n","count":2}`, `{}`, `{"name":"only"}`, `{"count":9}`, `{"name":"m","count":-4,"unknown":[1]}`},
	"array":  {`["a","b"]`, `[]`},
}

// compatible: can JSON kind j be decoded into Go kind g? ("either" for null into non-pointers)
func c16Compatible(g, j string) string {
	if j == "null" {
		if g == "ptr" {
			return "yes"
		}
		return "either" // Go's decoder leaves the zero value; the borrowed parser rejects nil only for reflect-nil values
	}
	switch g {
	case "string":
		return yn(j == "string")
	case "int":
		return yn(j == "int")
	case "bool":
		return yn(j == "bool")
	case "struct", "ptr":
		return yn(j == "object")
	case "slice":
		return yn(j == "array")
	}
	return "no"
}

func yn(b bool) string {
	if b {
		return "yes"
	}
	return "no"
}

// c16ExpectCall is what the receiver must have recorded for a correct call with these JSON parameter texts
// (hand-written per method; the JSON texts are decoded with the standard library).
func c16ExpectCall(goName string, vals []string) string {
	str := func(i int) string {
		var v string
		if i < len(vals) {
			json.Unmarshal([]byte(vals[i]), &v)
		}
		return v
	}
	num := func(i int) int64 {
		var v int64
		if i < len(vals) {
			json.Unmarshal([]byte(vals[i]), &v)
		}
		return v
	}
	obj := func(i int) (RPCParams, bool) {
		var v *RPCParams
		if i < len(vals) {
			json.Unmarshal([]byte(vals[i]), &v)
		}
		if v == nil {
			return RPCParams{}, false
		}
		return *v, true
	}
	switch goName {
	case "NoArgs":
		return "NoArgs()"
	case "ID":
		return "ID()"
	case "OneString":
		return fmt.Sprintf("OneString(%q)", str(0))
	case "URLFor":
		return fmt.Sprintf("URLFor(%q)", str(0))
	case "CtxTwo":
		return fmt.Sprintf("CtxTwo(%d,%q)", num(0), str(1))
	case "X":
		return fmt.Sprintf("X(%d)", num(0))
	case "StructArg":
		v, _ := obj(0)
		return fmt.Sprintf("StructArg({%q,%d})", v.Name, v.Count)
	case "PtrArg":
		v, ok := obj(0)
		if !ok {
			return "PtrArg(nil)"
		}
		return fmt.Sprintf("PtrArg({%q,%d})", v.Name, v.Count)
	case "SliceArg":
		var xs []string
		if len(vals) > 0 {
			json.Unmarshal([]byte(vals[0]), &xs)
		}
		return fmt.Sprintf("SliceArg(%q)", xs)
	case "FailsCoded":
		return fmt.Sprintf("FailsCoded(%d)", num(0))
	case "Three":
		var b bool
		if len(vals) > 2 {
			json.Unmarshal([]byte(vals[2]), &b)
		}
		return fmt.Sprintf("Three(%q,%d,%v)", str(0), num(1), b)
	case "TailPtr":
		_, ok := obj(1)
		return fmt.Sprintf("TailPtr(%q,%v)", str(0), ok)
	}
	return ""
}

func c16LibraryCase(rt *rapid.T, rec *vt.Rec) {
	prefix := rapid.SampledFrom([]string{"", "x_", "vipnode_", "A.", "pool_"}).Draw(rt, "prefix")
	var allow []string
	allowMode := rapid.SampledFrom([]string{"none", "some", "some", "withGhosts"}).Draw(rt, "allowMode")
	if allowMode != "none" {
		for _, m := range recvATable {
			if rapid.Bool().Draw(rt, "allow:"+m.goName) {
				allow = append(allow, lowerFirst(m.goName))
			}
		}
		if allowMode == "withGhosts" {
			allow = append(allow, "ghost", "NoArgs", "take", "rec")
		}
		if len(allow) == 0 {
			allow = []string{"ghost"}
		}
	}
	srv := &jsonrpc2.Server{}
	recv := &RecvA{}
	if err := srv.Register(prefix, recv, allow...); err != nil {
		rt.Fatalf("Register: %v", err)
	}
	expected := map[string]c16Method{}
	for _, m := range recvATable {
		if !m.exposed {
			continue
		}
		if allow != nil {
			ok := false
			for _, a := range allow {
				if a == lowerFirst(m.goName) {
					ok = true
				}
			}
			if !ok {
				continue
			}
		}
		expected[prefix+lowerFirst(m.goName)] = m
	}
	// further registrations on the same server: single methods under explicit names (what the agent's reverse
	// service uses), new names or re-declarations of names registered above; the last registration of a name decides
	var aliases []string
	var exposedOnly []c16Method
	for _, m := range recvATable {
		if m.exposed {
			exposedOnly = append(exposedOnly, m)
		}
	}
	for e := 0; e < rapid.IntRange(0, 2).Draw(rt, "extraRegistrations"); e++ {
		target := rapid.SampledFrom(exposedOnly).Draw(rt, "extraTarget")
		rpcName := rapid.SampledFrom([]string{"alias_one", "extra.call", prefix + "extra", "Alias_One"}).Draw(rt, "aliasName")
		if keys := sortedKeys(expected); len(keys) > 0 && rapid.Bool().Draw(rt, "redeclare") {
			rpcName = rapid.SampledFrom(keys).Draw(rt, "redeclared")
		}
		if err := srv.RegisterMethod(rpcName, recv, target.goName); err != nil {
			rt.Fatalf("RegisterMethod(%q, %s): %v", rpcName, target.goName, err)
		}
		expected[rpcName] = target
		aliases = append(aliases, rpcName)
	}
	call := func(name string, params string, omitParams bool) (*jsonrpc2.Message, []string) {
		req := &jsonrpc2.Message{ID: json.RawMessage(`7`), Version: "2.0", Request: &jsonrpc2.Request{Method: name}}
		if !omitParams {
			req.Request.Params = json.RawMessage(params)
		}
		var resp *jsonrpc2.Message
		if rapid.Bool().Draw(rt, "viaJSON") {
			// through a full encode/decode of the request, as a transport would deliver it
			b, _ := json.Marshal(req)
			var m jsonrpc2.Message
			if err := json.Unmarshal(b, &m); err != nil {
				rt.Fatalf("harness: %v", err)
			}
			resp = srv.Handle(context.Background(), &m)
		} else {
			resp = srv.Handle(context.Background(), req)
		}
		return resp, recv.take()
	}
	code := func(m *jsonrpc2.Message) int {
		if m == nil || m.Response == nil || m.Response.Error == nil {
			return 0
		}
		return m.Response.Error.Code
	}
	nProbes := rapid.IntRange(3, 12).Draw(rt, "probes")
	var sample []string
	nearMiss, wrongParams := 0, 0
	for i := 0; i < nProbes; i++ {
		m := rapid.SampledFrom(recvATable).Draw(rt, "method")
		nameKind := rapid.SampledFrom([]string{"exact", "exact", "exact", "exact", "goName", "upper", "lower", "noPrefix", "otherPrefix", "suffix", "helper", "random"}).Draw(rt, "nameKind")
		name := prefix + lowerFirst(m.goName)
		switch nameKind {
		case "goName":
			name = prefix + m.goName
		case "upper":
			name = strings.ToUpper(name)
		case "lower":
			name = strings.ToLower(name)
		case "noPrefix":
			name = lowerFirst(m.goName)
		case "otherPrefix":
			name = "zz_" + lowerFirst(m.goName)
		case "suffix":
			name = name + rapid.SampledFrom([]string{"x", " ", "_", "\x00"}).Draw(rt, "suffix")
		case "helper":
			name = prefix + rapid.SampledFrom([]string{"take", "rec", "Take", "hiddenMethod", "hiddenParam", "ghost", "register", "handle"}).Draw(rt, "helperName")
		case "random":
			name = rapid.StringMatching(`[a-zA-Z_.]{0,12}`).Draw(rt, "randomName")
		}
		if len(aliases) > 0 && rapid.IntRange(0, 2).Draw(rt, "probeAlias") == 0 {
			name = rapid.SampledFrom(aliases).Draw(rt, "alias")
			nameKind = "exact"
			m = expected[name]
		}
		em, callable := expected[name]
		// parameters
		arity := rapid.IntRange(0, len(m.kinds)+2).Draw(rt, "arity")
		paramMode := rapid.SampledFrom([]string{"array", "array", "array", "array", "absent", "null", "object", "scalar"}).Draw(rt, "paramMode")
		var vals, jkinds []string
		for p := 0; p < arity; p++ {
			jk := ""
			if p < len(m.kinds) && rapid.IntRange(0, 2).Draw(rt, "matching") > 0 {
				// mostly the right JSON kind for the position
				jk = map[string]string{"string": "string", "int": "int", "bool": "bool", "struct": "object", "ptr": "object", "slice": "array"}[m.kinds[p]]
			} else {
				jk = rapid.SampledFrom([]string{"string", "int", "float", "bigint", "bool", "null", "object", "array"}).Draw(rt, "jsonKind")
			}
			jkinds = append(jkinds, jk)
			vals = append(vals, rapid.SampledFrom(c16JSON[jk]).Draw(rt, "jsonVal"))
		}
		params := "[" + strings.Join(vals, ",") + "]"
		omit := false
		switch paramMode {
		case "absent":
			omit, arity, jkinds = true, 0, nil
		case "null":
			params, arity, jkinds = "null", 0, nil
		case "object":
			params = `{"a":1}`
		case "scalar":
			params = `5`
		}
		resp, calls := call(name, params, omit)
		desc := fmt.Sprintf("%s params=%s (omit=%v) -> code %d calls %v", name, params, omit, code(resp), calls)
		sample = append(sample, desc)
		if resp == nil || resp.Response == nil || string(resp.ID) != "7" || resp.Version != "2.0" {
			rt.Fatalf("malformed reply to %s: %+v", desc, resp)
		}
		if resp.Response.Error == nil && len(resp.Response.Result) == 0 {
			rt.Fatalf("reply with neither result nor error: %s", desc)
		}
		if !callable {
			if nameKind != "exact" {
				nearMiss++
			}
			if code(resp) != jsonrpc2.ErrCodeMethodNotFound {
				rt.Fatalf("name %q is not registered (registered: %v) but the reply is not method-not-found: %s", name, sortedKeys(expected), desc)
			}
			if len(calls) != 0 {
				rt.Fatalf("unregistered name %q ran a method: %v", name, calls)
			}
			continue
		}
		// registered: decide what the parameters deserve
		verdict := "ok"
		if paramMode == "object" || paramMode == "scalar" {
			verdict = "invalid"
		} else {
			required := 0
			for p, k := range em.kinds {
				if k != "ptr" {
					required = p + 1
				}
			}
			if arity > len(em.kinds) || arity < required {
				verdict = "invalid"
			}
			for p := 0; p < arity && p < len(em.kinds) && verdict != "invalid"; p++ {
				switch c16Compatible(em.kinds[p], jkinds[p]) {
				case "no":
					verdict = "invalid"
				case "either":
					verdict = "either"
				}
			}
		}
		switch verdict {
		case "invalid":
			wrongParams++
			if code(resp) != jsonrpc2.ErrCodeInvalidParams {
				rt.Fatalf("registered method with wrong parameters must be answered invalid-params (-32602): %s (declared parameter kinds %v)", desc, em.kinds)
			}
			if len(calls) != 0 {
				rt.Fatalf("method ran although its parameters are invalid: %s", desc)
			}
		case "ok":
			if len(calls) != 1 || !strings.HasPrefix(calls[0], em.goName) {
				rt.Fatalf("correct call must run the method exactly once: %s (declared kinds %v)", desc, em.kinds)
			}
			if em.goName == "Fails" {
				if code(resp) != jsonrpc2.ErrCodeInternal {
					rt.Fatalf("method error must be reported as an error reply: %s", desc)
				}
			} else if em.goName == "FailsCoded" {
				// the method RAN and failed: whatever code its error carries, the reply must not say "no such method" or
				// "invalid parameters" - those two are the dispatcher's way of saying that nothing was run
				if c := code(resp); c == 0 || c == jsonrpc2.ErrCodeMethodNotFound || c == jsonrpc2.ErrCodeInvalidParams {
					rt.Fatalf("a registered method, called with exactly its parameters, ran and failed; the reply carries code %d (method-not-found / invalid-params mean that nothing was run; no error at all hides the failure): %s", c, desc)
				}
			} else if code(resp) != 0 {
				rt.Fatalf("correct call answered with an error: %s: %v", desc, resp.Response.Error)
			}
			// the method saw exactly the values of THIS request: members and trailing parameters the request leaves
			// out are zero, whatever earlier calls of the same method carried
			if want := c16ExpectCall(em.goName, vals[:arity]); want != "" && calls[0] != want {
				rt.Fatalf("decoded arguments differ: the method ran as %s, the request says %s (%s; earlier probes: %v)", calls[0], want, desc, sample)
			}
		case "either":
			if len(calls) > 1 {
				rt.Fatalf("method ran %d times: %s", len(calls), desc)
			}
			if len(calls) == 0 && code(resp) != jsonrpc2.ErrCodeInvalidParams {
				rt.Fatalf("call neither ran nor was answered invalid-params: %s", desc)
			}
		}
	}
	rec.Case(fmt.Sprintf("lib|%q|%v|%v|%v", prefix, allow, aliases, sample), nearMiss > 0 || wrongParams > 0, []string{"lib", "lib:allow:" + allowMode}, func() interface{} {
		return map[string]interface{}{"level": "library", "prefix": prefix, "allow_list": allow, "registered_singly_afterwards": aliases, "registered": sortedKeys(expected), "probes": sample}
	})
}

func TestC16Library(t *testing.T) {
	rec := vt.For("C16")
	rec.Rule("library level: a receiver family (exported/unexported methods, context first or absent, 0-3 parameters of string/int64/bool/struct/slice/pointer, trailing optional pointer, error-only and value+error returns, a method with an unexported parameter type) is registered under a generated prefix and allow-list (incl. allow-listed names that do not exist), followed by 0-2 RegisterMethod calls that add a name or re-declare a registered one with another method; generated probes: exact names, Go-case names, upper/lower-case variants, missing/other prefix, suffixes, helper and unexported names, random names; parameters: every arity 0..k+2, every JSON kind per position, absent / null / object / scalar params; oracle (hand-written table): callable <=> prefix+lowerFirst(name) of an exposed method in the allow-list; unknown => -32601 and nothing runs; wrong arity or incompatible JSON kind => -32602 and nothing runs; correct => exactly one invocation with the decoded values; every reply carries the request id and a result or an error; null for a non-pointer position is a don't-care; non-trivial = a near-miss name or wrong parameters on a registered name; distinct by prefix + allow-list + probes")
	check(t, func(rt *rapid.T) { c16LibraryCase(rt, rec) })
}

// ---------------------------------------------------------------------------
// production level: the pool binary over HTTP and WebSocket

var poolEndpoints = map[string][]string{
	"vipnode_connect": {"string", "string", "int", "struct"},
	"vipnode_update":  {"string", "string", "int", "struct"},
	"vipnode_peer":    {"string", "string", "int", "struct"},
	"vipnode_client":  {"string", "string", "int", "struct"},
	"vipnode_host":    {"string", "string", "int", "struct"},
	"vipnode_ping":    {},
	"pool_account":    {"string"},
	"pool_addNode":    {"string", "string", "int", "string"},
	"pool_withdraw":   {"string", "string", "int"},
	"pool_status":     {},
}

var poolNonEndpoints = []string{
	"vipnode_closeRemote", "vipnode_numRemotes", "vipnode_disconnect", "vipnode_verify", "vipnode_withdraw", "vipnode_requestHosts", "vipnode_whitelist",
	"vipnode_Ping", "Vipnode_ping", "VIPNODE_PING", "vipnode_ping ", "vipnode_", "ping", "vipnode_pingx", "vipnode_Connect", "vipnode_UPDATE",
	"pool_verify", "pool_Status", "pool_getStatus", "pool_settle", "pool_closeRemote", "pool_connect", "pool_ping", "pool_", "pool_Account", "pool_addnode",
	"rpc_modules", "admin_peers", "eth_blockNumber", "", "status", "account",
}

type rawReply struct {
	ID     json.RawMessage `json:"id"`
	Result json.RawMessage `json:"result"`
	Error  *struct {
		Code    int    `json:"code"`
		Message string `json:"message"`
	} `json:"error"`
	Version string `json:"jsonrpc"`
}

func TestC16Binary(t *testing.T) {
	rec := vt.For("C16")
	rec.Rule("production level: the `vipnode pool` binary built from the working tree is probed over HTTP and over a WebSocket with generated requests: the 10 documented names (vipnode_connect/update/peer/client/host/ping, pool_account/addNode/withdraw/status) with every arity 0..k+2 and every JSON kind per position (first an exhaustive grid: every endpoint x position x undecodable JSON kind/value over both transports, then generated combinations), and ~35 other names (other exported methods of the registered objects such as closeRemote/numRemotes, case variants, prefixes, foreign modules, random names); oracle: exactly the documented names are callable; everything else is -32601; wrong arity/kinds on a documented name is -32602; every reply carries the request id; pool_status is unchanged by refused probes; non-trivial = a non-documented name or wrong parameters; distinct by (transport, name, arity, kinds)")
	p := startPool(t)
	defer p.stop()
	ws, _, err := websocket.DefaultDialer.Dial("ws://"+p.addr+"/", nil)
	if err != nil {
		t.Fatalf("ws dial: %v", err)
	}
	defer ws.Close()
	httpCall := func(body string) (string, int, error) {
		resp, err := http.Post("http://"+p.addr+"/", "application/json", strings.NewReader(body))
		if err != nil {
			return "", 0, err
		}
		defer resp.Body.Close()
		b, err := io.ReadAll(resp.Body)
		return string(b), resp.StatusCode, err
	}
	wsCall := func(body string) (string, error) {
		if err := ws.WriteMessage(websocket.TextMessage, []byte(body)); err != nil {
			return "", err
		}
		ws.SetReadDeadline(time.Now().Add(20 * time.Second))
		_, b, err := ws.ReadMessage()
		return string(b), err
	}
	statusOf := func() string {
		b, _, err := httpCall(`{"jsonrpc":"2.0","id":1,"method":"pool_status","params":[]}`)
		if err != nil {
			t.Fatalf("pool_status: %v", err)
		}
		var r rawReply
		json.Unmarshal([]byte(b), &r)
		var st struct {
			Stats json.RawMessage `json:"stats"`
		}
		json.Unmarshal(r.Result, &st)
		return string(st.Stats)
	}
	status0 := statusOf()
	names := sortedKeys(poolEndpoints)
	// candidate names derived from the exported methods of the objects pool.go registers (candidate generation only;
	// the oracle stays the fixed documented list): anything these objects grow must not become callable silently
	var derived []string
	for prefix, obj := range map[string]interface{}{"vipnode_": &pool.VipnodePool{}, "pool_": &payment.PaymentService{}, "pool_ ": &status.PoolStatus{}} {
		typ := reflect.TypeOf(obj)
		for i := 0; i < typ.NumMethod(); i++ {
			n := strings.TrimSpace(prefix) + lowerFirst(typ.Method(i).Name)
			if _, documented := poolEndpoints[n]; !documented {
				derived = append(derived, n)
			}
		}
	}
	sort.Strings(derived)
	idn := 100
	// exhaustive grid first: every documented endpoint x every position x every JSON kind and sample value that cannot
	// be decoded into the declared Go type, all other positions well-typed, over both transports: always -32602
	{
		match := map[string]string{"string": `"hello"`, "int": `7`, "struct": `{}`}
		var jks []string
		for jk := range c16JSON {
			jks = append(jks, jk)
		}
		sort.Strings(jks)
		grid := 0
		for _, name := range names {
			kinds := poolEndpoints[name]
			for pos := range kinds {
				for _, jk := range jks {
					if c16Compatible(kinds[pos], jk) != "no" {
						continue
					}
					for _, v := range c16JSON[jk] {
						vals := make([]string, len(kinds))
						for i, k := range kinds {
							vals[i] = match[k]
						}
						vals[pos] = v
						for _, transport := range []string{"http", "ws"} {
							idn++
							body := fmt.Sprintf(`{"jsonrpc":"2.0","id":%d,"method":%q,"params":[%s]}`, idn, name, strings.Join(vals, ","))
							var replyText string
							var err error
							if transport == "http" {
								replyText, _, err = httpCall(body)
							} else {
								replyText, err = wsCall(body)
							}
							if err != nil {
								t.Fatalf("grid probe %s over %s failed: %v", body, transport, err)
							}
							var r rawReply
							if err := json.Unmarshal([]byte(replyText), &r); err != nil || r.Error == nil || r.Error.Code != jsonrpc2.ErrCodeInvalidParams {
								t.Fatalf("%s over %s: parameter %d of %s is declared %s; a JSON %s there must be answered -32602 and the method not run, got %s", body, transport, pos+1, name, kinds[pos], jk, replyText)
							}
							grid++
							rec.Case(fmt.Sprintf("grid|%s|%s|%d|%s|%s", transport, name, pos, jk, v), true, []string{"binary", "binary:grid"}, func() interface{} {
								return map[string]interface{}{"level": "binary (exhaustive grid)", "transport": transport, "request": body, "reply": replyText}
							})
						}
					}
				}
			}
		}
		rec.Extra("binary_grid_probes", grid)
	}
	check(t, func(rt *rapid.T) {
		transport := rapid.SampledFrom([]string{"http", "ws"}).Draw(rt, "transport")
		var name string
		kinds, documented := []string(nil), false
		switch rapid.IntRange(0, 2).Draw(rt, "nameClass") {
		case 0:
			name = rapid.SampledFrom(names).Draw(rt, "endpoint")
			kinds, documented = poolEndpoints[name], true
		case 1:
			name = rapid.SampledFrom(append(append([]string{}, poolNonEndpoints...), derived...)).Draw(rt, "nonEndpoint")
		default:
			name = rapid.SampledFrom([]string{"vipnode_", "pool_", ""}).Draw(rt, "randPrefix") + rapid.StringMatching(`[a-zA-Z]{1,10}`).Draw(rt, "randName")
			if k, ok := poolEndpoints[name]; ok {
				kinds, documented = k, true
			}
		}
		shape := []string{"string", "string", "int", "struct"}
		if documented {
			shape = kinds
		}
		arity := rapid.IntRange(0, len(shape)+2).Draw(rt, "arity")
		// a third of the probes of a documented name: the right number of parameters, one position of another JSON kind
		onePos := -1
		if documented && len(shape) > 0 && rapid.IntRange(0, 2).Draw(rt, "oneWrongPosition") == 0 {
			arity = len(shape)
			onePos = rapid.IntRange(0, len(shape)-1).Draw(rt, "wrongPosition")
		}
		var vals, jkinds []string
		for i := 0; i < arity; i++ {
			jk := ""
			if onePos >= 0 && i != onePos {
				jk = map[string]string{"string": "string", "int": "int", "struct": "object"}[shape[i]]
			} else if onePos < 0 && i < len(shape) && rapid.IntRange(0, 3).Draw(rt, "matching") > 0 {
				jk = map[string]string{"string": "string", "int": "int", "struct": "object"}[shape[i]]
			} else {
				jk = rapid.SampledFrom([]string{"string", "int", "float", "bigint", "bool", "null", "object", "array"}).Draw(rt, "jsonKind")
			}
			jkinds = append(jkinds, jk)
			vals = append(vals, rapid.SampledFrom(c16JSON[jk]).Draw(rt, "jsonVal"))
		}
		idn++
		params := `,"params":[` + strings.Join(vals, ",") + `]`
		if arity == 0 && rapid.Bool().Draw(rt, "omitParams") {
			params = ""
		}
		// sometimes a frame that is not a JSON-RPC message precedes the probe on the same WebSocket connection (it
		// names a method and parameters but has a member of the wrong type). The pool may hang up on it - then the probe
		// goes over a new connection - but if it keeps the connection, the probe must be judged on its own content
		// only. Half of these probes are the sharpest follow-up: the same method, without a "params" member.
		garbage := ""
		if transport == "ws" && rapid.IntRange(0, 3).Draw(rt, "garbageFirst") == 0 {
			g := rapid.SampledFrom([][2]string{
				{`{"jsonrpc":2,"method":"pool_account","params":["0x52908400098527886e0f7030069857d2e4169ee7"]}`, "pool_account"},
				{`{"jsonrpc":2,"id":7,"method":"vipnode_ping","params":[1,2,3]}`, "vipnode_ping"},
				{`{"jsonrpc":"2.0","id":7,"method":"pool_status","params":[],"error":"x"}`, "pool_status"},
				{`{"jsonrpc":"2.0","method":"pool_account","params":["0x52908400098527886e0f7030069857d2e4169ee7"],"error":7}`, "pool_account"},
				{`{"method":5,"params":["a","b",3,{}]}`, "vipnode_connect"},
			}).Draw(rt, "garbageFrame")
			garbage = g[0]
			if rapid.Bool().Draw(rt, "sameMethodWithoutParams") {
				name, kinds, documented = g[1], poolEndpoints[g[1]], true
				arity, vals, jkinds, params = 0, nil, nil, ""
			}
		}
		nameJSON, _ := json.Marshal(name)
		body := fmt.Sprintf(`{"jsonrpc":"2.0","id":%d,"method":%s%s}`, idn, nameJSON, params)
		var replyText string
		if transport == "http" {
			b, status, err := httpCall(body)
			if err != nil || status != 200 {
				rt.Fatalf("HTTP probe %s failed: status %d err %v body %q", body, status, err, b)
			}
			replyText = b
		} else {
			if garbage != "" {
				ws.WriteMessage(websocket.TextMessage, []byte(garbage))
			}
			b, err := wsCall(body)
			if err != nil {
				// the pool hung up (on the frame above, or for a reason of its own): a fresh connection must work
				ws.Close()
				ws2, _, derr := websocket.DefaultDialer.Dial("ws://"+p.addr+"/", nil)
				if derr != nil {
					rt.Fatalf("%s", p.dialFailure(derr))
				}
				ws = ws2
				b, err = wsCall(body)
			}
			if err != nil {
				rt.Fatalf("WebSocket probe %s failed: %v\npool log:\n%s", body, err, tailLines(p.log(), 20))
			}
			replyText = b
		}
		var r rawReply
		if err := json.Unmarshal([]byte(replyText), &r); err != nil {
			rt.Fatalf("reply to %s is not JSON: %q", body, replyText)
		}
		if string(r.ID) != fmt.Sprint(idn) {
			rt.Fatalf("reply to %s carries id %s: %s", body, r.ID, replyText)
		}
		if r.Error == nil && len(r.Result) == 0 {
			rt.Fatalf("reply to %s has neither result nor error: %s", body, replyText)
		}
		code := 0
		if r.Error != nil {
			code = r.Error.Code
		}
		if !documented {
			if code != jsonrpc2.ErrCodeMethodNotFound {
				rt.Fatalf("%s over %s: %q is not a documented endpoint but the pool answered %s", body, transport, name, replyText)
			}
		} else {
			verdict := "ok"
			if arity != len(kinds) {
				verdict = "invalid"
			}
			for i := 0; i < arity && i < len(kinds) && verdict == "ok"; i++ {
				switch c16Compatible(kinds[i], jkinds[i]) {
				case "no":
					verdict = "invalid"
				case "either":
					verdict = "either"
				}
			}
			switch verdict {
			case "invalid":
				if code != jsonrpc2.ErrCodeInvalidParams {
					rt.Fatalf("%s over %s: wrong parameters for %s (declared %v) must be answered -32602, got %s", body, transport, name, kinds, replyText)
				}
			case "ok":
				if code == jsonrpc2.ErrCodeMethodNotFound || code == jsonrpc2.ErrCodeInvalidParams {
					rt.Fatalf("%s over %s: documented endpoint with well-shaped parameters answered %s", body, transport, replyText)
				}
			}
		}
		if s := statusOf(); s != status0 {
			rt.Fatalf("pool_status changed after probe %s: %s -> %s", body, status0, s)
		}
		rec.Case(fmt.Sprintf("bin|%s|%s|%d|%v", transport, name, arity, jkinds), !documented || arity != len(kinds), []string{"binary", "binary:" + transport, fmt.Sprintf("binary:documented:%v", documented)}, func() interface{} {
			return map[string]interface{}{"level": "pool binary", "transport": transport, "request": body, "reply": replyText}
		})
	})
	if strings.Contains(p.log(), "panic") {
		t.Fatalf("pool binary log contains a panic:\n%s", tailLines(p.log(), 60))
	}
}

// ---------------------------------------------------------------------------
// production level, agent side: the reverse service of the `vipnode agent` binary

// FakePoolSvc answers just enough of the pool API for the agent binary to start.
type FakePoolSvc struct{}

func (FakePoolSvc) Connect(ctx context.Context, sig, id string, nonce int64, req pool.ConnectRequest) (*pool.ConnectResponse, error) {
	return &pool.ConnectResponse{PoolVersion: "fake"}, nil
}
func (FakePoolSvc) Update(ctx context.Context, sig, id string, nonce int64, req pool.UpdateRequest) (*pool.UpdateResponse, error) {
	return &pool.UpdateResponse{InvalidPeers: []string{}, ActivePeers: []string{}}, nil
}
func (FakePoolSvc) Peer(ctx context.Context, sig, id string, nonce int64, req pool.PeerRequest) (*pool.PeerResponse, error) {
	return &pool.PeerResponse{}, nil
}

func TestC16AgentBinary(t *testing.T) {
	rec := vt.For("C16")
	rec.Rule("production level, agent side: the `vipnode agent` binary (fake node, real WebSocket) connects to a harness pool; the harness then calls the agent's reverse service over that connection with generated names and parameters; oracle: only vipnode_whitelist is callable (exactly one string parameter, anything else -32602), every other name - other exported methods of the agent such as start/stop/wait/updatePeers/addPeers, case variants, pool method names - is -32601; distinct by (name, arity, kinds)")
	bin, err := vipnodeBinary()
	if err != nil {
		t.Fatal(err)
	}
	defer os.Remove(bin)
	dir := tempDir("c16-agent-")
	defer removeAll(dir)
	id := nodeIdent(0)
	keyFile := dir + "/nodekey"
	if err := os.WriteFile(keyFile, []byte(fmt.Sprintf("%x", crypto.FromECDSA(id.key))), 0o600); err != nil {
		t.Fatal(err)
	}
	srv := &jsonrpc2.Server{}
	if err := srv.Register("vipnode_", FakePoolSvc{}); err != nil {
		if err2 := srv.Register("vipnode_", &FakePoolSvc{}); err2 != nil {
			t.Fatalf("register: %v / %v", err, err2)
		}
	}
	remoteCh := make(chan *jsonrpc2.Remote, 1)
	up := &gorilla.Upgrader{}
	ts := httptest.NewServer(http.HandlerFunc(func(w http.ResponseWriter, r *http.Request) {
		codec, err := up.Upgrade(r, w, nil)
		if err != nil {
			return
		}
		remote := &jsonrpc2.Remote{Codec: codec, Server: srv, Client: &jsonrpc2.Client{}}
		remoteCh <- remote
		remote.Serve()
	}))
	defer ts.Close()
	cmd := exec.Command(bin, "agent", "-vv", "--rpc", "fakenode://"+id.nodeID+"?fullnode=1", "--nodekey", keyFile, "--enode", "enode://"+id.nodeID+"@192.0.2.10:30303", "ws"+strings.TrimPrefix(ts.URL, "http")+"/")
	cmd.Env = append(os.Environ(), "HOME="+dir)
	var out bytes.Buffer
	cmd.Stdout, cmd.Stderr = &out, &out
	if err := cmd.Start(); err != nil {
		t.Fatalf("start agent: %v", err)
	}
	defer func() { cmd.Process.Kill(); cmd.Wait() }()
	var remote *jsonrpc2.Remote
	select {
	case remote = <-remoteCh:
	case <-time.After(30 * time.Second):
		t.Fatalf("the agent binary did not connect; output:\n%s", out.String())
	}
	names := []string{"vipnode_whitelist", "vipnode_whitelist", "vipnode_Whitelist", "vipnode_start", "vipnode_stop", "vipnode_wait", "vipnode_updatePeers", "vipnode_addPeers", "vipnode_disconnect",
		"vipnode_ping", "vipnode_connect", "whitelist", "Whitelist", "agent_whitelist", "vipnode_whitelistx", "vipnode_", "", "admin_addTrustedPeer", "vipnode_enode", "vipnode_peers"}
	check(t, func(rt *rapid.T) {
		name := rapid.SampledFrom(names).Draw(rt, "name")
		arity := rapid.IntRange(0, 3).Draw(rt, "arity")
		var params []interface{}
		var kinds []string
		for i := 0; i < arity; i++ {
			k := "string"
			if rapid.IntRange(0, 2).Draw(rt, "wrongKind") == 0 {
				k = rapid.SampledFrom([]string{"int", "bool", "null", "object", "array", "float"}).Draw(rt, "kind")
			}
			kinds = append(kinds, k)
			params = append(params, json.RawMessage(rapid.SampledFrom(c16JSON[k]).Draw(rt, "val")))
		}
		ctx, cancel := context.WithTimeout(context.Background(), 20*time.Second)
		defer cancel()
		var res json.RawMessage
		err := remote.Call(ctx, &res, name, params...)
		code, isRPC := rpcErrCode(err)
		desc := fmt.Sprintf("%s%v -> err=%v", name, kinds, err)
		if ctx.Err() != nil {
			rt.Fatalf("no reply from the agent to %s; agent output:\n%s", desc, tailLines(out.String(), 20))
		}
		if name != "vipnode_whitelist" {
			if !isRPC || code != jsonrpc2.ErrCodeMethodNotFound {
				rt.Fatalf("the agent's reverse service answered %q, which is not its documented call, with %v (want -32601)", name, err)
			}
		} else {
			ok := arity == 1 && kinds[0] == "string"
			either := arity == 1 && kinds[0] == "null"
			switch {
			case ok:
				if isRPC && (code == jsonrpc2.ErrCodeMethodNotFound || code == jsonrpc2.ErrCodeInvalidParams) {
					rt.Fatalf("vipnode_whitelist with one string parameter was refused: %v", err)
				}
			case either:
			default:
				if !isRPC || code != jsonrpc2.ErrCodeInvalidParams {
					rt.Fatalf("vipnode_whitelist with parameters %v must be answered -32602, got %v", kinds, err)
				}
			}
		}
		rec.Case("agentbin|"+desc, name != "vipnode_whitelist" || arity != 1, []string{"agent-binary"}, func() interface{} {
			return map[string]interface{}{"level": "agent binary reverse service", "probe": desc}
		})
	})
}
