package props

// C17 — messages arrive exactly once, intact and in order, however the transport chunks.

import (
	"bytes"
	"context"
	"encoding/json"
	"fmt"
	"io"
	"net"
	"net/http"
	"net/http/httptest"
	"strings"
	"sync"
	"testing"
	"time"

	gobwasws "github.com/gobwas/ws"
	"github.com/gorilla/websocket"
	"github.com/vipnode/vipnode/v2/jsonrpc2"
	"github.com/vipnode/vipnode/v2/jsonrpc2/ws/gobwas"
	"github.com/vipnode/vipnode/v2/jsonrpc2/ws/gorilla"
	"pgregory.net/rapid"

	"verif/vt"
)

// ---------------------------------------------------------------------------
// message generator

func genJSONValue(rt *rapid.T, depth int) interface{} {
	max := 7
	if depth <= 0 {
		max = 4
	}
	switch rapid.IntRange(0, max).Draw(rt, "valueKind") {
	case 0:
		return rapid.StringMatching(`[a-z0-9 ]{0,12}`).Draw(rt, "str")
	case 1:
		return rapid.SampledFrom([]string{"ünïcödé 🚀", "<tag>&amp;", "line\nbreak\ttab", "quote\"back\\slash", "  ", "}{][", "\\u0041"}).Draw(rt, "weirdStr")
	case 2:
		return rapid.Int64().Draw(rt, "int")
	case 3:
		return rapid.Bool().Draw(rt, "bool")
	case 4:
		return nil
	case 5:
		n := rapid.IntRange(0, 4).Draw(rt, "arrLen")
		a := make([]interface{}, n)
		for i := range a {
			a[i] = genJSONValue(rt, depth-1)
		}
		return a
	default:
		n := rapid.IntRange(0, 3).Draw(rt, "objLen")
		o := map[string]interface{}{}
		for i := 0; i < n; i++ {
			o[rapid.SampledFrom([]string{"a", "method", "id", "params", "ключ", "result"}).Draw(rt, "key")] = genJSONValue(rt, depth-1)
		}
		return o
	}
}

func genMessage(rt *rapid.T, allowHuge bool) *jsonrpc2.Message {
	m := &jsonrpc2.Message{Version: "2.0"}
	switch rapid.IntRange(0, 5).Draw(rt, "idKind") {
	case 0, 1, 2:
		m.ID = json.RawMessage(fmt.Sprint(rapid.IntRange(0, 1<<30).Draw(rt, "idNum")))
	case 3:
		b, _ := json.Marshal(rapid.StringMatching(`[a-z0-9-]{1,10}`).Draw(rt, "idStr"))
		m.ID = b
	case 4:
		m.ID = json.RawMessage("null")
	default: // notification: no id
	}
	var payload interface{}
	size := "small"
	if allowHuge && rapid.IntRange(0, 14).Draw(rt, "huge") == 0 {
		n := rapid.SampledFrom([]int{511, 512, 513, 4095, 4096, 4097, 65536, 262144}).Draw(rt, "hugeLen")
		payload = []interface{}{strings.Repeat(rapid.SampledFrom([]string{"x", "é", "\"", "🚀"}).Draw(rt, "fill"), n)}
		size = fmt.Sprint(n)
	} else {
		n := rapid.IntRange(0, 3).Draw(rt, "nParams")
		a := make([]interface{}, n)
		for i := range a {
			a[i] = genJSONValue(rt, 2)
		}
		payload = a
	}
	_ = size
	switch rapid.IntRange(0, 3).Draw(rt, "msgKind") {
	case 0, 1:
		p, _ := json.Marshal(payload)
		m.Request = &jsonrpc2.Request{Method: rapid.SampledFrom([]string{"vipnode_update", "vipnode_whitelist", "x", "пинг"}).Draw(rt, "method"), Params: p}
	case 2:
		r, _ := json.Marshal(payload)
		m.Response = &jsonrpc2.Response{Result: r}
	default:
		m.Response = &jsonrpc2.Response{Error: &jsonrpc2.ErrResponse{Code: rapid.SampledFrom([]int{-32601, -32602, -32603, -32000, 7}).Draw(rt, "code"), Message: rapid.StringMatching(`[a-z <>&"]{0,20}`).Draw(rt, "errMsg")}}
	}
	return m
}

func canonMsg(m *jsonrpc2.Message) string {
	b, err := json.Marshal(m)
	if err != nil {
		return "marshal error: " + err.Error()
	}
	return string(b)
}

// genCuts returns a read-size pattern: each Read hands out at most pattern[i%len] bytes.
func genCuts(rt *rapid.T) []int {
	switch rapid.IntRange(0, 4).Draw(rt, "cutMode") {
	case 0:
		return []int{1} // every byte separately
	case 1:
		return []int{1 << 20} // fully coalesced
	case 2:
		return []int{rapid.SampledFrom([]int{2, 3, 7, 64, 511, 512, 513, 4096}).Draw(rt, "fixedChunk")}
	default:
		n := rapid.IntRange(1, 8).Draw(rt, "nCuts")
		p := make([]int, n)
		for i := range p {
			p[i] = rapid.SampledFrom([]int{1, 1, 2, 5, 17, 100, 600, 5000, 100000}).Draw(rt, "chunk")
		}
		return p
	}
}

// chunkReader hands out its data in pieces following the pattern.
type chunkReader struct {
	data    []byte
	pattern []int
	i       int
	reads   int
	multi   bool // some read spanned a message boundary or split a message (for the non-triviality rule)
}

func (c *chunkReader) Read(p []byte) (int, error) {
	if len(c.data) == 0 {
		return 0, io.EOF
	}
	n := c.pattern[c.i%len(c.pattern)]
	c.i++
	if n > len(p) {
		n = len(p)
	}
	if n > len(c.data) {
		n = len(c.data)
	}
	copy(p, c.data[:n])
	c.data = c.data[n:]
	c.reads++
	return n, nil
}
func (c *chunkReader) Write(p []byte) (int, error) { return len(p), nil }
func (c *chunkReader) Close() error                { return nil }

type bufRWC struct{ bytes.Buffer }

func (b *bufRWC) Close() error { return nil }

func streamCase(rt *rapid.T, rec *vt.Rec) {
	n := rapid.IntRange(1, 40).Draw(rt, "nMsgs")
	var msgs []*jsonrpc2.Message
	w := &bufRWC{}
	var wc jsonrpc2.Codec = jsonrpc2.IOCodec(w)
	if rapid.IntRange(0, 3).Draw(rt, "debugWriter") == 0 {
		wc = jsonrpc2.DebugCodec("verif-w", wc)
	}
	var bounds []int
	for i := 0; i < n; i++ {
		m := genMessage(rt, true)
		msgs = append(msgs, m)
		want := canonMsg(m)
		if err := wc.WriteMessage(m); err != nil {
			rt.Fatalf("WriteMessage: %v", err)
		}
		if canonMsg(m) != want {
			rt.Fatalf("WriteMessage modified the caller's message:\n before %.200s\n after  %.200s", want, canonMsg(m))
		}
		bounds = append(bounds, w.Len())
	}
	stream := append([]byte(nil), w.Bytes()...)
	cuts := genCuts(rt)
	cr := &chunkReader{data: append([]byte(nil), stream...), pattern: cuts}
	var rc jsonrpc2.Codec = jsonrpc2.IOCodec(cr)
	debug := rapid.IntRange(0, 3).Draw(rt, "debugCodec") == 0
	if debug {
		// the logging wrapper the pool uses with its debug option must be transparent
		rc = jsonrpc2.DebugCodec("verif", rc)
	}
	for i, want := range msgs {
		got, err := rc.ReadMessage()
		if err != nil {
			rt.Fatalf("stream codec: message %d of %d was lost: ReadMessage error %v (read pattern %v, stream of %d bytes, message boundaries at %v)", i+1, n, err, cuts, len(stream), bounds)
		}
		if canonMsg(got) != canonMsg(want) {
			rt.Fatalf("stream codec: message %d of %d arrived modified or out of order (read pattern %v):\n got  %.300s\n want %.300s", i+1, n, cuts, canonMsg(got), canonMsg(want))
		}
	}
	if extra, err := rc.ReadMessage(); err == nil {
		rt.Fatalf("stream codec delivered an extra message after the %d written: %s", n, canonMsg(extra))
	}
	// differential: one persistent decoder over the same bytes sees the same sequence
	dec := json.NewDecoder(bytes.NewReader(stream))
	for i := range msgs {
		var m jsonrpc2.Message
		if err := dec.Decode(&m); err != nil || canonMsg(&m) != canonMsg(msgs[i]) {
			rt.Fatalf("harness: reference decoder disagrees at message %d: %v", i, err)
		}
	}
	minChunk := cuts[0]
	for _, c := range cuts {
		if c < minChunk {
			minChunk = c
		}
	}
	coalesced := n >= 2 && len(stream)/n < maxInt(cuts)
	split := minChunk < len(stream)/n
	rec.Case(fmt.Sprintf("stream|%d|%v|%d", n, cuts, len(stream)), n >= 2 && (coalesced || split), []string{"stream", fmt.Sprintf("stream:coalesced:%v", coalesced), fmt.Sprintf("stream:split:%v", split)}, func() interface{} {
		return map[string]interface{}{"codec": "stream (IOCodec)", "messages": n, "stream_bytes": len(stream), "read_pattern": cuts, "first_message": fmt.Sprintf("%.200s", canonMsg(msgs[0]))}
	})
}

func maxInt(xs []int) int {
	m := xs[0]
	for _, x := range xs {
		if x > m {
			m = x
		}
	}
	return m
}

func TestC17Stream(t *testing.T) {
	rec := vt.For("C17")
	rec.Rule("stream codec: 1-40 generated messages (requests, replies, errors, notifications; ids numeric/string/null/absent; nested and unicode params; payloads up to 256 KiB around buffer sizes 512/4096/65536) are written with the real IOCodec into a buffer, the byte stream is handed to a fresh IOCodec through a reader that returns generated chunk sizes (every byte separately, fully coalesced, fixed sizes, mixed patterns); oracle: the sequence read equals the sequence written, then EOF; differential against one persistent json.Decoder; non-trivial = >=2 messages and a read that holds bytes of two messages or splits one; distinct by (count, pattern, stream size)")
	check(t, func(rt *rapid.T) { streamCase(rt, rec) })
}

// ---------------------------------------------------------------------------
// HTTP

type EchoRPC struct{}

func (EchoRPC) Echo(v json.RawMessage) (json.RawMessage, error) { return v, nil }

func TestC17HTTP(t *testing.T) {
	rec := vt.For("C17")
	rec.Rule("HTTP codec: each generated request is POSTed to the real jsonrpc2.HTTPServer with a chunked body reader (generated chunk sizes) and the reply is read back both raw and through jsonrpc2.HTTPService; oracle: the echoed parameter is byte-identical (canonical JSON), the reply carries the request id; in a third of the cases 1-3 uploads by other connections break off first (announced Content-Length never reached, closed or half-closed); non-trivial = body split into >=2 chunks or larger than 4 KiB; distinct by (size, pattern)")
	srv := &jsonrpc2.HTTPServer{}
	if err := srv.Server.Register("t_", EchoRPC{}); err != nil {
		// value receiver has no pointer methods issue: fall back
		if err2 := srv.Server.Register("t_", &EchoRPC{}); err2 != nil {
			t.Fatalf("register: %v / %v", err, err2)
		}
	}
	ts := httptest.NewServer(srv)
	defer ts.Close()
	hs := &jsonrpc2.HTTPService{Endpoint: ts.URL}
	check(t, func(rt *rapid.T) {
		val := genJSONValue(rt, 3)
		if rapid.IntRange(0, 6).Draw(rt, "huge") == 0 {
			val = strings.Repeat("é🚀x", rapid.SampledFrom([]int{200, 1400, 30000, 90000}).Draw(rt, "hugeLen"))
		}
		vb, _ := json.Marshal(val)
		// raw POST with a chunked body
		id := rapid.IntRange(1, 1<<30).Draw(rt, "id")
		body := fmt.Sprintf(`{"jsonrpc":"2.0","id":%d,"method":"t_echo","params":[%s]}`, id, vb)
		cuts := genCuts(rt)
		if len(body) > 8192 {
			// one-byte chunks of a large body are one syscall each on a real socket: keep the case count up instead
			for i := range cuts {
				if cuts[i] < 300 {
					cuts[i] += 300
				}
			}
		}
		aborted := 0
		if rapid.IntRange(0, 2).Draw(rt, "abortedUploadsFirst") == 0 {
			// somebody's upload breaks off first: the announced Content-Length is never reached (connection lost or
			// half-closed in the middle of the body). Whatever the server makes of that request, the complete requests
			// that follow - on other connections - arrive intact.
			for k := rapid.IntRange(1, 3).Draw(rt, "abortedUploads"); k > 0; k-- {
				frag := fmt.Sprintf(`{"jsonrpc":"2.0","id":%d,"method":"t_echo","params":["%s`, 900000+k, strings.Repeat("z", rapid.SampledFrom([]int{0, 10, 700, 5000}).Draw(rt, "fragLen")))
				c, derr := net.DialTimeout("tcp", ts.Listener.Addr().String(), 5*time.Second)
				if derr != nil {
					rt.Fatalf("[setup failed] dial: %v", derr)
				}
				fmt.Fprintf(c, "POST / HTTP/1.1\r\nHost: x\r\nContent-Type: application/json\r\nContent-Length: %d\r\n\r\n%s", len(frag)+rapid.IntRange(1, 4000).Draw(rt, "missingBytes"), frag)
				if tc, ok := c.(*net.TCPConn); ok && rapid.Bool().Draw(rt, "halfClose") {
					tc.CloseWrite()
				} else {
					c.Close()
				}
				c.SetReadDeadline(time.Now().Add(2 * time.Second))
				io.Copy(io.Discard, c) // until the server has dealt with it
				c.Close()
				aborted++
			}
		}
		req, _ := http.NewRequest(http.MethodPost, ts.URL, io.NopCloser(&chunkReader{data: []byte(body), pattern: cuts}))
		req.Header.Set("Content-Type", "application/json")
		resp, err := http.DefaultClient.Do(req)
		if err != nil {
			rt.Fatalf("POST: %v", err)
		}
		rb, _ := io.ReadAll(resp.Body)
		resp.Body.Close()
		var r rawReply
		if err := json.Unmarshal(rb, &r); err != nil || resp.StatusCode != 200 {
			rt.Fatalf("HTTP reply (status %d) to a %d-byte request in chunks %v (after %d aborted uploads by others) is not a JSON-RPC reply: %.200q (%v)", resp.StatusCode, len(body), cuts, aborted, rb, err)
		}
		if string(r.ID) != fmt.Sprint(id) || r.Error != nil {
			rt.Fatalf("HTTP reply has id %s error %v, request id %d", r.ID, r.Error, id)
		}
		var back interface{}
		json.Unmarshal(r.Result, &back)
		bb, _ := json.Marshal(back)
		var orig interface{}
		json.Unmarshal(vb, &orig)
		ob, _ := json.Marshal(orig)
		if string(bb) != string(ob) {
			rt.Fatalf("HTTP: echoed parameter differs:\n got  %.200s\n want %.200s", bb, ob)
		}
		// through the library's own HTTP client
		var out json.RawMessage
		if err := hs.Call(context.Background(), &out, "t_echo", json.RawMessage(vb)); err != nil {
			rt.Fatalf("HTTPService.Call: %v", err)
		}
		var back2 interface{}
		json.Unmarshal(out, &back2)
		b2, _ := json.Marshal(back2)
		if string(b2) != string(ob) {
			rt.Fatalf("HTTPService: echoed parameter differs:\n got  %.200s\n want %.200s", b2, ob)
		}
		minChunk := cuts[0]
		for _, c := range cuts {
			if c < minChunk {
				minChunk = c
			}
		}
		rec.Case(fmt.Sprintf("http|%d|%v|%d", len(body), cuts, aborted), minChunk < len(body) || len(body) > 4096, []string{"http", fmt.Sprintf("http:aborted-uploads-first:%v", aborted > 0)}, func() interface{} {
			return map[string]interface{}{"codec": "HTTP", "request_bytes": len(body), "body_chunks": cuts, "aborted_uploads_before": aborted}
		})
	})
}

// ---------------------------------------------------------------------------
// WebSocket codecs over real loopback TCP with a chunking shim under both ends

// shimConn splits reads into generated sizes and batches writes (several
// frames leave in one TCP write), so that the peer sees frames both split
// across reads and coalesced into one.
type shimConn struct {
	net.Conn
	mu      sync.Mutex
	readPat []int
	ri      int
	batch   int // flush after this many writes (1 = immediately)
	pending [][]byte
	enabled bool
}

func (s *shimConn) Read(p []byte) (int, error) {
	s.mu.Lock()
	n := len(p)
	if s.enabled && len(s.readPat) > 0 {
		if k := s.readPat[s.ri%len(s.readPat)]; k < n {
			n = k
		}
		s.ri++
	}
	s.mu.Unlock()
	return s.Conn.Read(p[:n])
}

func (s *shimConn) Write(p []byte) (int, error) {
	s.mu.Lock()
	if !s.enabled || s.batch <= 1 {
		s.mu.Unlock()
		return s.Conn.Write(p)
	}
	s.pending = append(s.pending, append([]byte(nil), p...))
	if len(s.pending) < s.batch {
		s.mu.Unlock()
		return len(p), nil
	}
	err := s.flushLocked()
	s.mu.Unlock()
	return len(p), err
}

func (s *shimConn) flushLocked() error {
	if len(s.pending) == 0 {
		return nil
	}
	all := bytes.Join(s.pending, nil)
	s.pending = nil
	_, err := s.Conn.Write(all)
	return err
}

func (s *shimConn) Flush() error {
	s.mu.Lock()
	defer s.mu.Unlock()
	return s.flushLocked()
}

func (s *shimConn) Close() error {
	s.Flush()
	return s.Conn.Close()
}

type shimListener struct {
	net.Listener
	mu    sync.Mutex
	conns []*shimConn
}

func (l *shimListener) Accept() (net.Conn, error) {
	c, err := l.Listener.Accept()
	if err != nil {
		return nil, err
	}
	s := &shimConn{Conn: c}
	l.mu.Lock()
	l.conns = append(l.conns, s)
	l.mu.Unlock()
	return s, nil
}

func (l *shimListener) last() *shimConn {
	l.mu.Lock()
	defer l.mu.Unlock()
	return l.conns[len(l.conns)-1]
}

type wsUpgrader interface {
	Upgrade(r *http.Request, w http.ResponseWriter, h http.Header) (jsonrpc2.Codec, error)
}

// wsPair sets up client and server codecs of one WebSocket library joined by shimmed TCP connections.
func wsPair(t interface{ Fatalf(string, ...interface{}) }, lib string) (client, server jsonrpc2.Codec, cshim, sshim *shimConn, cleanup func()) {
	return wsPair2(t, lib, lib)
}

// wsPair2 connects a client of one WebSocket implementation to a server of (possibly) the other one.
func wsPair2(t interface{ Fatalf(string, ...interface{}) }, lib, clientLib string) (client, server jsonrpc2.Codec, cshim, sshim *shimConn, cleanup func()) {
	var up wsUpgrader
	if lib == "gorilla" {
		up = &gorilla.Upgrader{}
	} else {
		up = &gobwas.Upgrader{}
	}
	serverCodec := make(chan jsonrpc2.Codec, 1)
	done := make(chan struct{})
	ts := httptest.NewUnstartedServer(http.HandlerFunc(func(w http.ResponseWriter, r *http.Request) {
		c, err := up.Upgrade(r, w, nil)
		if err != nil {
			serverCodec <- nil
			return
		}
		serverCodec <- c
		<-done
	}))
	sl := &shimListener{Listener: ts.Listener}
	ts.Listener = sl
	ts.Start()
	var dialed *shimConn
	dial := func(network, addr string) (net.Conn, error) {
		c, err := net.Dial(network, addr)
		if err != nil {
			return nil, err
		}
		dialed = &shimConn{Conn: c}
		return dialed, nil
	}
	url := "ws" + strings.TrimPrefix(ts.URL, "http") + "/"
	var err error
	if clientLib == "gorilla" {
		old := websocket.DefaultDialer.NetDial
		websocket.DefaultDialer.NetDial = dial
		client, err = gorilla.WebSocketDial(context.Background(), url)
		websocket.DefaultDialer.NetDial = old
	} else {
		old := gobwasws.DefaultDialer.NetDial
		gobwasws.DefaultDialer.NetDial = func(ctx context.Context, network, addr string) (net.Conn, error) { return dial(network, addr) }
		client, err = gobwas.WebSocketDial(context.Background(), url)
		gobwasws.DefaultDialer.NetDial = old
	}
	if err != nil {
		close(done)
		ts.Close()
		t.Fatalf("%s dial: %v", lib, err)
	}
	server = <-serverCodec
	if server == nil {
		close(done)
		ts.Close()
		t.Fatalf("%s upgrade failed", lib)
	}
	return client, server, dialed, sl.last(), func() {
		client.Close()
		server.Close()
		close(done)
		ts.Close()
	}
}

func wsCase(rt *rapid.T, rec *vt.Rec, lib string) {
	// the peer is usually the same implementation; both are in the repository, so a client of the other one is a
	// legitimate peer too (it frames its messages differently: binary instead of text frames)
	clientLib := lib
	if rapid.IntRange(0, 2).Draw(rt, "otherClientImplementation") == 0 {
		clientLib = map[string]string{"gorilla": "gobwas", "gobwas": "gorilla"}[lib]
	}
	client, server, cshim, sshim, cleanup := wsPair2(rt, lib, clientLib)
	defer cleanup()
	dir := rapid.SampledFrom([]string{"client->server", "server->client"}).Draw(rt, "direction")
	w, r, wshim, rshim := client, server, cshim, sshim
	if dir == "server->client" {
		w, r, wshim, rshim = server, client, sshim, cshim
	}
	n := rapid.IntRange(1, 25).Draw(rt, "nMsgs")
	var msgs []*jsonrpc2.Message
	for i := 0; i < n; i++ {
		msgs = append(msgs, genMessage(rt, true))
	}
	readPat := genCuts(rt)
	batch := rapid.SampledFrom([]int{1, 1, 2, 3, 8, 1000}).Draw(rt, "writeBatch")
	rshim.mu.Lock()
	rshim.readPat, rshim.enabled = readPat, true
	rshim.mu.Unlock()
	wshim.mu.Lock()
	wshim.batch, wshim.enabled = batch, true
	wshim.mu.Unlock()
	type rd struct {
		m   *jsonrpc2.Message
		err error
	}
	got := make(chan rd, n+2)
	reader := func() {
		for i := 0; i < n+1; i++ {
			m, err := r.ReadMessage()
			got <- rd{m, err}
			if err != nil {
				return
			}
		}
	}
	// The writer may be gone before the reader gets round to reading (a host that sends its last update and exits, a
	// server that hangs up with replies still in flight): what was written without error still arrives, then the end.
	total := 0
	for _, m := range msgs {
		total += len(canonMsg(m))
	}
	closeEarly := total < 48<<10 && rapid.IntRange(0, 2).Draw(rt, "writerClosesBeforeTheReaderReads") == 0
	if !closeEarly {
		go reader()
	}
	for i, m := range msgs {
		if err := w.WriteMessage(m); err != nil {
			rt.Fatalf("%s %s: WriteMessage #%d: %v", lib, dir, i+1, err)
		}
	}
	wshim.Flush()
	if closeEarly {
		w.Close()
		time.Sleep(20 * time.Millisecond)
		go reader()
	}
	for i, want := range msgs {
		var x rd
		select {
		case x = <-got:
		case <-time.After(20 * time.Second):
			// the writer has flushed everything; close it so that the reader surfaces an error instead of waiting
			w.Close()
			select {
			case x = <-got:
			case <-time.After(20 * time.Second):
				rt.Fatalf("%s %s: message %d of %d never arrived (read pattern %v, write batch %d)", lib, dir, i+1, n, readPat, batch)
			}
		}
		if x.err != nil {
			rt.Fatalf("%s %s: message %d of %d was lost: %v (read pattern %v, %d frames per TCP write)", lib, dir, i+1, n, x.err, readPat, batch)
		}
		if canonMsg(x.m) != canonMsg(want) {
			rt.Fatalf("%s %s: message %d of %d arrived modified or out of order (read pattern %v, %d frames per TCP write):\n got  %.300s\n want %.300s", lib, dir, i+1, n, readPat, batch, canonMsg(x.m), canonMsg(want))
		}
	}
	w.Close()
	select {
	case x := <-got:
		if x.err == nil {
			rt.Fatalf("%s %s: an extra message arrived after the %d written: %s", lib, dir, n, canonMsg(x.m))
		}
	case <-time.After(20 * time.Second):
		rt.Fatalf("%s %s: reader did not see the end of the connection", lib, dir)
	}
	minChunk := readPat[0]
	for _, c := range readPat {
		if c < minChunk {
			minChunk = c
		}
	}
	rec.Case(fmt.Sprintf("ws|%s<-%s|%s|%d|%v|%d", lib, clientLib, dir, n, readPat, batch), n >= 2 && (batch > 1 || minChunk < 64), []string{"ws:" + lib, "ws:server=" + lib + ",client=" + clientLib, fmt.Sprintf("ws:batched:%v", batch > 1), fmt.Sprintf("ws:split:%v", minChunk < 64), fmt.Sprintf("ws:writer-closed-before-reading:%v", closeEarly)}, func() interface{} {
		return map[string]interface{}{"codec": "websocket/" + lib, "direction": dir, "messages": n, "read_pattern": readPat, "frames_per_tcp_write": batch, "writer_closed_before_the_reader_read": closeEarly}
	})
}

func TestC17WebSocketGorilla(t *testing.T) {
	rec := vt.For("C17")
	rec.Rule("WebSocket codecs (gorilla = the one the binaries ship, gobwas): the repository's WebSocketDial and Upgrader joined over real loopback TCP with a shim under both ends that hands out reads in generated chunk sizes and batches several frames into one TCP write; 1-25 generated messages in one direction; oracle: every message read equals the one written, in order, then the reader sees the connection end; only failure signals are a codec error or a wrong/missing message after the writer flushed (no timing oracle); non-trivial = >=2 messages with batched writes or reads under 64 bytes; distinct by (library, direction, count, pattern, batch)")
	check(t, func(rt *rapid.T) { wsCase(rt, rec, "gorilla") })
}

func TestC17WebSocketGobwas(t *testing.T) {
	rec := vt.For("C17")
	check(t, func(rt *rapid.T) { wsCase(rt, rec, "gobwas") })
}

// TestC17ConcurrentWriters — on the codec the binaries ship, concurrent writers never interleave bytes.
func TestC17ConcurrentWriters(t *testing.T) {
	rec := vt.For("C17")
	rec.Rule("concurrent writers (gorilla codec, -race): K=2-6 goroutines write M=5-40 generated messages each over one WebSocket while the reader's shim splits reads and - in half of the cases - the far end sends a ping every 100 us (answered by the writing side's read loop in the middle of its writers' messages); oracle: every message arrives intact, the multiset equals what was written, each writer's own order is preserved; distinct by (K, M, pattern)")
	check(t, func(rt *rapid.T) {
		client, server, _, sshim, cleanup := wsPair(rt, "gorilla")
		defer cleanup()
		K := rapid.IntRange(2, 6).Draw(rt, "K")
		M := rapid.IntRange(5, 40).Draw(rt, "M")
		readPat := genCuts(rt)
		sshim.mu.Lock()
		sshim.readPat, sshim.enabled = readPat, true
		sshim.mu.Unlock()
		payloads := make([][]string, K)
		for k := 0; k < K; k++ {
			for m := 0; m < M; m++ {
				payloads[k] = append(payloads[k], rapid.StringMatching(`[a-zé🚀"\\]{0,40}`).Draw(rt, "payload")+strings.Repeat("p", rapid.SampledFrom([]int{0, 0, 100, 5000}).Draw(rt, "pad")))
			}
		}
		// The far end may ping at any time (keep-alives of WebSocket libraries and proxies do): control frames are
		// answered by the writing side's read loop while its writers are in the middle of messages.
		pinging := rapid.Bool().Draw(rt, "farEndPings")
		stopPing := make(chan struct{})
		pingDone := make(chan struct{})
		if pinging {
			go func() { // the writing side also reads (that is where pings are answered)
				for {
					if _, err := client.ReadMessage(); err != nil {
						return
					}
				}
			}()
			go func() {
				defer close(pingDone)
				for {
					select {
					case <-stopPing:
						return
					default:
					}
					// an unmasked, empty ping frame, server to client, written under the reading codec (which never writes)
					if _, err := sshim.Conn.Write([]byte{0x89, 0x00}); err != nil {
						return
					}
					time.Sleep(100 * time.Microsecond)
				}
			}()
			if rapid.Bool().Draw(rt, "oneLargeMessage") {
				payloads[0][0] += strings.Repeat("L", 400000)
			}
		} else {
			close(pingDone)
		}
		defer func() { close(stopPing); <-pingDone }()
		var wg sync.WaitGroup
		errs := make(chan error, K)
		for k := 0; k < K; k++ {
			k := k
			wg.Add(1)
			go func() {
				defer wg.Done()
				for m := 0; m < M; m++ {
					p, _ := json.Marshal([]interface{}{k, m, payloads[k][m]})
					msg := &jsonrpc2.Message{Version: "2.0", ID: json.RawMessage(fmt.Sprint(k*1000 + m)), Request: &jsonrpc2.Request{Method: "w", Params: p}}
					if err := client.WriteMessage(msg); err != nil {
						errs <- err
						return
					}
				}
			}()
		}
		next := make([]int, K)
		for i := 0; i < K*M; i++ {
			m, err := server.ReadMessage()
			if err != nil {
				rt.Fatalf("message %d of %d: %v (bytes of two messages interleaved?)", i+1, K*M, err)
			}
			var p []interface{}
			if m.Request == nil || json.Unmarshal(m.Params, &p) != nil || len(p) != 3 {
				rt.Fatalf("message %d arrived damaged: %s", i+1, canonMsg(m))
			}
			k, mi := int(p[0].(float64)), int(p[1].(float64))
			if k < 0 || k >= K || mi != next[k] {
				rt.Fatalf("writer %d: message %d arrived, expected its message %d next (order within a writer must be preserved)", k, mi, next[k])
			}
			if p[2].(string) != payloads[k][mi] {
				rt.Fatalf("writer %d message %d arrived modified", k, mi)
			}
			next[k]++
		}
		wg.Wait()
		select {
		case err := <-errs:
			rt.Fatalf("writer error: %v", err)
		default:
		}
		rec.Case(fmt.Sprintf("conc|%d|%d|%v|%v", K, M, readPat, pinging), true, []string{"ws:concurrent-writers", fmt.Sprintf("ws:concurrent-writers:far-end-pings:%v", pinging)}, func() interface{} {
			return map[string]interface{}{"codec": "websocket/gorilla concurrent writers", "writers": K, "messages_each": M, "read_pattern": readPat, "far_end_pings": pinging}
		})
	})
}

// FuzzC17Stream — native fuzzing of the stream codec on (payload bytes, cut pattern).
func FuzzC17Stream(f *testing.F) {
	f.Add([]byte(`{"id":1,"jsonrpc":"2.0","method":"a","params":[1]}`+"\n"+`{"id":2,"jsonrpc":"2.0","result":"x"}`), []byte{1})
	f.Add([]byte(`{"id":"s","jsonrpc":"2.0","error":{"code":-32601,"message":"m"}}`), []byte{200, 3})
	f.Add([]byte("[\"é🚀\"]\x00[1,2,3]\x00{\"a\":{\"b\":null}}"), []byte{2, 5, 255})
	f.Fuzz(func(t *testing.T, data []byte, cuts []byte) {
		// data is split at NUL bytes into parameter payloads; each becomes one request message
		var msgs []*jsonrpc2.Message
		for i, part := range bytes.Split(data, []byte{0}) {
			if len(msgs) >= 32 {
				break
			}
			p, err := json.Marshal(string(part))
			if err != nil {
				continue
			}
			msgs = append(msgs, &jsonrpc2.Message{Version: "2.0", ID: json.RawMessage(fmt.Sprint(i)), Request: &jsonrpc2.Request{Method: "m", Params: json.RawMessage("[" + string(p) + "]")}})
		}
		w := &bufRWC{}
		wc := jsonrpc2.IOCodec(w)
		for _, m := range msgs {
			if err := wc.WriteMessage(m); err != nil {
				t.Fatalf("write: %v", err)
			}
		}
		pat := []int{}
		for _, c := range cuts {
			pat = append(pat, int(c)+1)
		}
		if len(pat) == 0 {
			pat = []int{1 << 20}
		}
		rc := jsonrpc2.IOCodec(&chunkReader{data: append([]byte(nil), w.Bytes()...), pattern: pat})
		for i, want := range msgs {
			got, err := rc.ReadMessage()
			if err != nil {
				t.Fatalf("message %d of %d lost: %v (pattern %v)", i+1, len(msgs), err, pat)
			}
			if canonMsg(got) != canonMsg(want) {
				t.Fatalf("message %d differs", i+1)
			}
		}
	})
}

// ---------------------------------------------------------------------------
// HTTP client under transport faults: a message is delivered once, and a call
// whose reply never arrived intact does not look like a success.

type CountingEcho struct {
	mu   sync.Mutex
	seen map[string]int
}

func (c *CountingEcho) Echo(token string) (string, error) {
	c.mu.Lock()
	c.seen[token]++
	c.mu.Unlock()
	return token, nil
}

func TestC17HTTPFaults(t *testing.T) {
	rec := vt.For("C17")
	rec.Rule("HTTP client under faults: jsonrpc2.HTTPService.Call against the real jsonrpc2.HTTPServer behind a scripted front that, per call, passes the exchange through, or dispatches the request and then drops the connection before any reply byte, or answers 200 with an empty body / 204 / a truncated reply / a non-JSON body, or drops the connection before dispatching; oracle: every message is dispatched at most once (exactly once when the front dispatched it), a call returns nil only when an intact reply was delivered and then with its own token, and returns an error for every faulted exchange; non-trivial = a faulted exchange; distinct by the fault sequence")
	echo := &CountingEcho{seen: map[string]int{}}
	inner := &jsonrpc2.HTTPServer{}
	if err := inner.Server.Register("t_", echo); err != nil {
		t.Fatal(err)
	}
	var mu sync.Mutex
	mode := "pass"
	front := http.HandlerFunc(func(w http.ResponseWriter, r *http.Request) {
		mu.Lock()
		m := mode
		mu.Unlock()
		hijackClose := func() {
			if hj, ok := w.(http.Hijacker); ok {
				if c, _, err := hj.Hijack(); err == nil {
					c.Close()
				}
			}
		}
		switch m {
		case "pass":
			inner.ServeHTTP(w, r)
		case "lostReply":
			rr := httptest.NewRecorder()
			inner.ServeHTTP(rr, r) // dispatched ...
			hijackClose()          // ... but the reply never leaves
		case "dropBefore":
			hijackClose()
		case "empty200":
			rr := httptest.NewRecorder()
			inner.ServeHTTP(rr, r)
			w.WriteHeader(200)
		case "status204":
			rr := httptest.NewRecorder()
			inner.ServeHTTP(rr, r)
			w.WriteHeader(204)
		case "truncated":
			rr := httptest.NewRecorder()
			inner.ServeHTTP(rr, r)
			b := rr.Body.Bytes()
			w.Header().Set("content-type", "application/json")
			w.Write(b[:len(b)/2])
		case "html":
			rr := httptest.NewRecorder()
			inner.ServeHTTP(rr, r)
			w.Header().Set("content-type", "text/html")
			w.Write([]byte("<html><body>502 Bad Gateway</body></html>"))
		}
	})
	ts := httptest.NewServer(front)
	defer ts.Close()
	tokenN := 0
	check(t, func(rt *rapid.T) {
		hs := &jsonrpc2.HTTPService{Endpoint: ts.URL}
		n := rapid.IntRange(1, 8).Draw(rt, "calls")
		var seq []string
		faulted := false
		for i := 0; i < n; i++ {
			m := rapid.SampledFrom([]string{"pass", "pass", "lostReply", "lostReply", "dropBefore", "empty200", "status204", "truncated", "html"}).Draw(rt, "exchange")
			mu.Lock()
			mode = m
			mu.Unlock()
			tokenN++
			token := fmt.Sprintf("tok-%d-%s", tokenN, strings.Repeat("x", rapid.SampledFrom([]int{0, 10, 5000}).Draw(rt, "pad")))
			ctx, cancel := context.WithTimeout(context.Background(), 20*time.Second)
			var out string
			err := hs.Call(ctx, &out, "t_echo", token)
			cancel()
			echo.mu.Lock()
			delivered := echo.seen[token]
			echo.mu.Unlock()
			seq = append(seq, m)
			desc := fmt.Sprintf("exchange %d of %v (%s): Call returned err=%v result=%.40q, the message was dispatched %d times", i+1, seq, m, err, out, delivered)
			wantDelivered := 1
			if m == "dropBefore" {
				wantDelivered = 0
			}
			if delivered > 1 {
				rt.Fatalf("a message was delivered more than once: %s", desc)
			}
			if delivered != wantDelivered {
				rt.Fatalf("the front dispatched the message %d times, the service saw it %d times: %s", wantDelivered, delivered, desc)
			}
			if m == "pass" {
				if err != nil || out != token {
					rt.Fatalf("intact exchange failed or returned another call's result: %s", desc)
				}
			} else {
				faulted = true
				if err == nil {
					rt.Fatalf("the reply never arrived intact, but the call reports success: %s", desc)
				}
			}
		}
		rec.Case(fmt.Sprintf("httpfaults|%v", seq), faulted, []string{"http-faults"}, func() interface{} {
			return map[string]interface{}{"codec": "HTTP client under faults", "exchanges": seq}
		})
	})
}

// barrierRT lets every request of a round reach the transport before any of them is sent, so that all calls of the
// round have built their request (and nothing has been read from any body yet) at the same moment.
type barrierRT struct {
	mu      sync.Mutex
	want    int
	arrived int
	release chan struct{}
}

func (b *barrierRT) RoundTrip(r *http.Request) (*http.Response, error) {
	b.mu.Lock()
	b.arrived++
	if b.arrived == b.want {
		close(b.release)
	}
	ch := b.release
	b.mu.Unlock()
	select {
	case <-ch:
	case <-time.After(5 * time.Second):
	}
	return http.DefaultTransport.RoundTrip(r)
}

func TestC17HTTPConcurrentCalls(t *testing.T) {
	rec := vt.For("C17")
	rec.Rule("HTTP client, concurrent calls: 2-8 goroutines call one jsonrpc2.HTTPService at once with tokens of different sizes; a transport wrapper holds every request until all of the round have been built, then sends them; oracle: every message reaches the real HTTPServer exactly once and unmodified, and every call returns its own token; non-trivial = every case; distinct by the token sizes")
	echo := &CountingEcho{seen: map[string]int{}}
	inner := &jsonrpc2.HTTPServer{}
	if err := inner.Server.Register("t_", echo); err != nil {
		t.Fatal(err)
	}
	ts := httptest.NewServer(inner)
	defer ts.Close()
	round := 0
	check(t, func(rt *rapid.T) {
		n := rapid.IntRange(2, 8).Draw(rt, "callers")
		rtb := &barrierRT{want: n, release: make(chan struct{})}
		hs := &jsonrpc2.HTTPService{Endpoint: ts.URL, HTTPClient: http.Client{Transport: rtb}}
		round++
		tokens := make([]string, n)
		var sizes []int
		for i := range tokens {
			sz := rapid.SampledFrom([]int{0, 3, 40, 40, 900, 5000}).Draw(rt, "size")
			sizes = append(sizes, sz)
			tokens[i] = fmt.Sprintf("r%d-c%d-%s", round, i, strings.Repeat(string(rune('a'+i)), sz))
		}
		outs := make([]string, n)
		errs := make([]error, n)
		var wg sync.WaitGroup
		for i := 0; i < n; i++ {
			wg.Add(1)
			go func() {
				defer wg.Done()
				ctx, cancel := context.WithTimeout(context.Background(), 30*time.Second)
				defer cancel()
				errs[i] = hs.Call(ctx, &outs[i], "t_echo", tokens[i])
			}()
		}
		wg.Wait()
		for i := 0; i < n; i++ {
			echo.mu.Lock()
			seen := echo.seen[tokens[i]]
			echo.mu.Unlock()
			if errs[i] != nil || outs[i] != tokens[i] || seen != 1 {
				rt.Fatalf("%d concurrent calls on one HTTP service (token sizes %v): call %d returned err=%v result %.60q (own token %.60q); its message reached the server %d times", n, sizes, i, errs[i], outs[i], tokens[i], seen)
			}
		}
		rec.Case(fmt.Sprintf("httpconc|%v", sizes), true, []string{"http-concurrent"}, func() interface{} {
			return map[string]interface{}{"codec": "HTTP client, concurrent calls", "token_sizes": sizes}
		})
	})
}
