package props

// C02 at the balance-manager level: exact floor arithmetic over huge ranges,
// the all-or-nothing rule under a single injected store fault, and the
// metamorphic slicing relation at pool level.

import (
	"fmt"
	"math/big"
	"strings"
	"sync"
	"testing"
	"time"

	"github.com/vipnode/vipnode/v2/pool/balance"
	"github.com/vipnode/vipnode/v2/pool/store"
	"github.com/vipnode/vipnode/v2/pool/store/memory"
	"pgregory.net/rapid"

	"verif/vt"
)

// faultyBalanceStore fails the k-th mutating call (1-based; 0 = never).
type faultyBalanceStore struct {
	store.BalanceStore
	mu     sync.Mutex
	failAt int
	writes int
	log    []string
}

func (f *faultyBalanceStore) AddNodeBalance(id store.NodeID, c *big.Int) error {
	f.mu.Lock()
	f.writes++
	n := f.writes
	fail := n == f.failAt
	f.log = append(f.log, fmt.Sprintf("AddNodeBalance(%s,%s)#%d fail=%v", id, c, n, fail))
	f.mu.Unlock()
	if fail {
		return errScripted
	}
	return f.BalanceStore.AddNodeBalance(id, c)
}

func (f *faultyBalanceStore) AddAccountBalance(a store.Account, c *big.Int) error {
	f.mu.Lock()
	f.writes++
	n := f.writes
	fail := n == f.failAt
	f.mu.Unlock()
	if fail {
		return errScripted
	}
	return f.BalanceStore.AddAccountBalance(a, c)
}

type mgrCase struct {
	Driver   string   `json:"driver"`
	Price    string   `json:"price"`
	Interval string   `json:"interval"`
	Elapsed  string   `json:"elapsed"`
	IsHost   bool     `json:"client_is_host"`
	Peers    []string `json:"peers"`
	Links    []string `json:"links"`
	FailAt   int      `json:"fail_write_at"`
	PerPeer  string   `json:"expected_per_peer"`
	Outcome  string   `json:"outcome"`
}

func genMgrPrice(rt *rapid.T) *big.Int {
	switch rapid.IntRange(0, 5).Draw(rt, "priceClass") {
	case 0:
		return big.NewInt(1)
	case 1:
		return big.NewInt(int64(rapid.IntRange(1, 100000).Draw(rt, "priceSmall")))
	case 2:
		return new(big.Int).SetUint64(rapid.Uint64Range(1<<40, 1<<63).Draw(rt, "priceMid"))
	case 3:
		v, _ := new(big.Int).SetString("18446744073709551619", 10)
		return v
	case 4:
		return new(big.Int).Add(bigPow(2, 130), big.NewInt(int64(rapid.IntRange(0, 1000).Draw(rt, "priceHuge"))))
	default:
		return big.NewInt(100000000000) // the shipped default, 100 gwei
	}
}

func genMgrInterval(rt *rapid.T) time.Duration {
	switch rapid.IntRange(0, 3).Draw(rt, "ivClass") {
	case 0:
		return time.Minute
	case 1:
		return time.Duration(rapid.Int64Range(1, 1000).Draw(rt, "ivNs"))
	case 2:
		return time.Duration(rapid.Int64Range(int64(time.Second), int64(time.Hour)).Draw(rt, "iv"))
	default:
		return 7 * time.Minute
	}
}

func genMgrElapsed(rt *rapid.T, iv time.Duration) time.Duration {
	switch rapid.IntRange(0, 8).Draw(rt, "elClass") {
	case 0:
		return 0
	case 1:
		return 1
	case 2:
		return iv - 1
	case 3:
		return iv
	case 4:
		return iv + 1
	case 5:
		return time.Duration(rapid.Int64Range(1, 50).Draw(rt, "mult")) * iv
	case 6:
		return time.Duration(rapid.Int64Range(0, int64(10*time.Minute)).Draw(rt, "elSmall"))
	case 7:
		return 10 * 365 * 24 * time.Hour
	default:
		return time.Duration(rapid.Int64Range(0, int64(100*365*24*time.Hour)).Draw(rt, "elAny"))
	}
}

func TestC02Manager(t *testing.T) {
	defer vt.Watch("TestC02Manager", 120*time.Second)()
	rec := vt.For("C02")
	rec.Rule("manager level: PayPerInterval.OnUpdate on a memory/badger store with node.LastSeen = now-elapsed, elapsed in {0,1ns,interval-1,interval,interval+1,multiples,10y,any<=100y}, price 1..2^130, interval 1ns..1h, 0..6 peers (hosts, non-hosts, peers sharing the client's wallet or each other's), optional single injected fault at the k-th balance write; oracle: independent math/big floor(elapsed*price/interval) per peer, client debited the sum, host/zero/empty no movement, under a fault either every delta or none; non-trivial = light client with elapsed>0 and >=1 peer; distinct by (elapsed class, price bits, #peers, links, fault index)")
	rec.Assume("all-or-nothing is checked for a single fault injected at a balance-store WRITE of one keep-alive (a failing read-back after the movement is not treated as a failed update)")
	check(t, func(rt *rapid.T) {
		rapid.SyncTest(rt, func(rt *rapid.T) { mgrCaseRun(rt, rec, false) })
	})
}

// TestC01ManagerFaults — the ledger total survives a store fault at any balance write of a keep-alive.
func TestC01ManagerFaults(t *testing.T) {
	defer vt.Watch("TestC01ManagerFaults", 120*time.Second)()
	rec := vt.For("C01")
	rec.Rule("fault injection at manager level: one keep-alive (1-6 peers, wallets shared between client and peers, prices to 2^130) with a single injected failure at the k-th balance write, k drawn over every write position, memory/badger; oracle: Stats.TotalCredit is unchanged whether the keep-alive reports success or failure, and a failed keep-alive moved nothing; non-trivial = fault hit with >=2 peers; distinct by (#peers, links, fault index, outcome)")
	check(t, func(rt *rapid.T) {
		rapid.SyncTest(rt, func(rt *rapid.T) { mgrCaseRun(rt, rec, true) })
	})
}

func mgrCaseRun(rt *rapid.T, rec *vt.Rec, alwaysFault bool) {
	{
		{
			driver := rapid.SampledFrom([]string{"memory", "memory", "badger"}).Draw(rt, "driver")
			var st store.Store
			if driver == "memory" {
				st = memory.New()
			} else {
				st = mustOpenBadger(rt, "")
			}
			defer st.Close()
			price := genMgrPrice(rt)
			iv := genMgrInterval(rt)
			elapsed := genMgrElapsed(rt, iv)
			isHost := rapid.IntRange(0, 5).Draw(rt, "clientIsHost") == 0
			now := time.Now()
			client := store.Node{ID: "client", LastSeen: now.Add(-elapsed), IsHost: isHost}
			if err := st.SetNode(client); err != nil {
				rt.Fatal(err)
			}
			nPeers := rapid.IntRange(0, 6).Draw(rt, "nPeers")
			var peers []store.Node
			var peerNames []string
			for i := 0; i < nPeers; i++ {
				p := store.Node{ID: store.NodeID(fmt.Sprintf("p%d", i)), LastSeen: now, IsHost: rapid.Bool().Draw(rt, "peerIsHost")}
				if err := st.SetNode(p); err != nil {
					rt.Fatal(err)
				}
				peers = append(peers, p)
				peerNames = append(peerNames, fmt.Sprintf("%s(host=%v)", p.ID, p.IsHost))
			}
			// wallets: client and peers may be linked to W1/W2 (sharing)
			var links []string
			link := func(id store.NodeID) {
				switch rapid.IntRange(0, 3).Draw(rt, "link") {
				case 1:
					st.AddAccountNode("W1", id)
					links = append(links, string(id)+"->W1")
				case 2:
					st.AddAccountNode("W2", id)
					links = append(links, string(id)+"->W2")
				}
			}
			link(client.ID)
			for _, p := range peers {
				link(p.ID)
			}
			// some starting credit so that non-zero balances are involved
			st.AddNodeBalance(client.ID, big.NewInt(int64(rapid.IntRange(-1000, 1000000).Draw(rt, "startCredit"))))

			failAt := 0
			if alwaysFault || rapid.IntRange(0, 2).Draw(rt, "injectFault") == 0 {
				failAt = rapid.IntRange(1, nPeers+1).Draw(rt, "failAt")
			}
			fs := &faultyBalanceStore{BalanceStore: st, failAt: failAt}
			mgr := balance.PayPerInterval(fs, iv, price)

			ids := []store.NodeID{client.ID}
			for _, p := range peers {
				ids = append(ids, p.ID)
			}
			read := func() map[store.NodeID]*big.Int {
				r := map[store.NodeID]*big.Int{}
				for _, id := range ids {
					b, err := st.GetNodeBalance(id)
					if err != nil {
						rt.Fatalf("GetNodeBalance(%s): %v", id, err)
					}
					r[id] = new(big.Int).Set(&b.Credit)
				}
				return r
			}
			key := func(id store.NodeID) string {
				b, _ := st.GetNodeBalance(id)
				if b.Account != "" {
					return "w:" + string(b.Account)
				}
				return "n:" + string(id)
			}
			before := read()
			total0, _ := st.Stats()
			ret, err := mgr.OnUpdate(client, peers)
			after := read()
			total1, _ := st.Stats()

			perPeer := new(big.Int).Mul(big.NewInt(int64(elapsed)), price)
			perPeer.Div(perPeer, big.NewInt(int64(iv)))
			if isHost {
				perPeer = new(big.Int)
			}
			charge := new(big.Int).Mul(perPeer, big.NewInt(int64(nPeers)))
			want := func(id store.NodeID) *big.Int {
				d := new(big.Int)
				for _, p := range peers {
					if key(p.ID) == key(id) {
						d.Add(d, perPeer)
					}
				}
				if key(client.ID) == key(id) {
					d.Sub(d, charge)
				}
				return d
			}
			moved := func() bool {
				for _, id := range ids {
					if after[id].Cmp(before[id]) != 0 {
						return true
					}
				}
				return false
			}
			describe := func() string {
				var sb strings.Builder
				for _, id := range ids {
					fmt.Fprintf(&sb, "\n  %s [%s]: %s -> %s (expected delta %s)", id, key(id), before[id], after[id], want(id))
				}
				fmt.Fprintf(&sb, "\n  store calls: %v", fs.log)
				return sb.String()
			}
			if total0.TotalCredit.Cmp(&total1.TotalCredit) != 0 {
				rt.Fatalf("OnUpdate (err=%v) changed the ledger total %s -> %s: elapsed=%s price=%s interval=%s%s", err, total0.TotalCredit.String(), total1.TotalCredit.String(), elapsed, price, iv, describe())
			}
			outcome := "applied"
			faultHit := failAt > 0 && fs.writes >= failAt
			if err != nil {
				outcome = "failed"
				if !faultHit {
					rt.Fatalf("OnUpdate failed without an injected fault: %v", err)
				}
				if moved() {
					rt.Fatalf("failed keep-alive (fault at balance write #%d: %v) is not all-or-nothing: elapsed=%s price=%s interval=%s%s", failAt, err, elapsed, price, iv, describe())
				}
			} else {
				if faultHit {
					// the update reported success although a write failed: then everything must still have been applied
					outcome = "applied-despite-fault"
				}
				for _, id := range ids {
					d := new(big.Int).Sub(after[id], before[id])
					if d.Cmp(want(id)) != 0 {
						rt.Fatalf("OnUpdate: balance of %s moved by %s, must move by %s: elapsed=%s price=%s interval=%s isHost=%v fault@%d%s", id, d, want(id), elapsed, price, iv, isHost, failAt, describe())
					}
				}
				rb, _ := fs.BalanceStore.GetNodeBalance(client.ID)
				if ret.Credit.Cmp(&rb.Credit) != 0 {
					rt.Fatalf("OnUpdate returned credit %s, balance read back is %s", ret.Credit.String(), rb.Credit.String())
				}
			}
			nontrivial := !isHost && elapsed > 0 && nPeers > 0
			if alwaysFault {
				nontrivial = faultHit && nPeers >= 2 && !isHost && elapsed > 0
			}
			elClass := "0"
			switch {
			case elapsed == 0:
			case elapsed < iv:
				elClass = "sub"
			case elapsed%iv == 0:
				elClass = "mult"
			case elapsed > 365*24*time.Hour:
				elClass = "huge"
			default:
				elClass = "frac"
			}
			sig := fmt.Sprintf("%s|%s|%d|%d|%d|%v|%d|%s", driver, elClass, price.BitLen(), perPeer.BitLen(), nPeers, links, failAt, outcome)
			rec.Case(sig, nontrivial, []string{"mgr:elapsed:" + elClass, "mgr:" + outcome, fmt.Sprintf("mgr:fault:%v", failAt > 0), "driver:" + driver}, func() interface{} {
				return mgrCase{driver, price.String(), iv.String(), elapsed.String(), isHost, peerNames, links, failAt, perPeer.String(), outcome}
			})
		}
	}
}

// TestC02Slicing — metamorphic: however a span T is cut into k keep-alives, a
// peer that stays active is credited in total more than full-k and at most
// full = floor(T*price/interval); no stretch of time is charged twice.
func TestC02Slicing(t *testing.T) {
	defer vt.Watch("TestC02Slicing", 120*time.Second)()
	rec := vt.For("C02")
	rec.Rule("slicing (metamorphic, pool level, virtual time): one client with two hosts that keep checking in every 30s; the span T (1s..10min) is cut into k client keep-alives at generated instants (gaps <= 60s); oracle: each host's total credit is in (floor(T*p/I)-k, floor(T*p/I)] and the client is debited exactly the sum; non-trivial = k>=2 and a non-zero total; distinct by (T, cuts, price, interval)")
	check(t, func(rt *rapid.T) {
		rapid.SyncTest(rt, func(rt *rapid.T) {
			cfg := sessCfg{Driver: rapid.SampledFrom([]string{"memory", "badger"}).Draw(rt, "driver")}
			cfg.Price = genMgrPrice(rt)
			cfg.Interval = rapid.SampledFrom([]time.Duration{time.Minute, time.Second, 7 * time.Minute, 999 * time.Millisecond}).Draw(rt, "interval")
			s := newSession(rt, cfg, 5)
			defer s.close()
			start := time.Now()
			hosts := []int{0, 1}
			client := 4
			for _, h := range hosts {
				ac := s.openConn(h, "")
				if err := s.connect(h, ac, true, "geth", ""); err != nil {
					rt.Fatalf("host connect: %v", err)
				}
			}
			cc := s.openConn(client, "")
			if err := s.connect(client, cc, false, "geth", ""); err != nil {
				rt.Fatalf("client connect: %v", err)
			}
			T := time.Duration(rapid.Int64Range(int64(time.Second), int64(10*time.Minute)).Draw(rt, "T"))
			// client cut points: gaps in (0, 60s]
			var cuts []time.Duration
			at := time.Duration(0)
			for at < T {
				gap := time.Duration(rapid.Int64Range(1, int64(60*time.Second)).Draw(rt, "gap"))
				if rapid.IntRange(0, 3).Draw(rt, "gapClass") == 0 {
					gap = rapid.SampledFrom([]time.Duration{1, time.Second, 59 * time.Second, 60 * time.Second, cfg.Interval}).Draw(rt, "gapB")
					if gap > 60*time.Second {
						gap = 60 * time.Second
					}
				}
				at += gap
				if at > T {
					at = T
				}
				cuts = append(cuts, at)
			}
			type ev struct {
				at    time.Duration
				actor int
			}
			var evs []ev
			for _, c := range cuts {
				evs = append(evs, ev{c, client})
			}
			for ht := 30 * time.Second; ht < T; ht += 30 * time.Second {
				for _, h := range hosts {
					evs = append(evs, ev{ht, h})
				}
			}
			// hosts first at equal instants (so the client's report sees their fresh check-in)
			sortEvents := func() {
				for i := 1; i < len(evs); i++ {
					for j := i; j > 0 && (evs[j].at < evs[j-1].at || (evs[j].at == evs[j-1].at && evs[j].actor < evs[j-1].actor)); j-- {
						evs[j], evs[j-1] = evs[j-1], evs[j]
					}
				}
			}
			sortEvents()
			hostIDs := []string{s.agents[0].id.nodeID, s.agents[1].id.nodeID}
			// the client reports its two hosts right after connecting (elapsed 0: free)
			if _, err := s.update(client, hostIDs, 1, false, false); err != nil {
				rt.Fatalf("first update: %v", err)
			}
			k := 0
			for _, e := range evs {
				if d := start.Add(e.at).Sub(time.Now()); d > 0 {
					time.Sleep(d)
				}
				if e.actor == client {
					resp, err := s.update(client, hostIDs, 1, rapid.Bool().Draw(rt, "enodeForm"), false)
					if err != nil {
						rt.Fatalf("client keep-alive at %s: %v", e.at, err)
					}
					if len(resp.ActivePeers) != 2 {
						rt.Fatalf("client keep-alive at %s: %d active peers, both hosts checked in within 30s", e.at, len(resp.ActivePeers))
					}
					k++
				} else {
					if _, err := s.update(e.actor, []string{s.agents[client].id.nodeID}, 1, false, false); err != nil {
						rt.Fatalf("host keep-alive: %v", err)
					}
				}
			}
			full := floorCharge(T, cfg.Price, cfg.Interval)
			lower := new(big.Int).Sub(full, big.NewInt(int64(k)))
			sum := new(big.Int)
			for _, h := range hosts {
				b, err := s.st.GetNodeBalance(store.NodeID(s.agents[h].id.nodeID))
				if err != nil {
					rt.Fatal(err)
				}
				if b.Credit.Cmp(full) > 0 {
					rt.Fatalf("host %s was credited %s over a span of %s cut into %d keep-alives; the whole span is worth only %s (some stretch was charged twice); cuts=%v", s.agents[h].id.name, b.Credit.String(), T, k, full, cuts)
				}
				if b.Credit.Cmp(lower) <= 0 {
					rt.Fatalf("host %s was credited %s over a span of %s cut into %d keep-alives; must be more than %s - %d (time was lost between keep-alives); cuts=%v", s.agents[h].id.name, b.Credit.String(), T, k, full, k, cuts)
				}
				sum.Add(sum, &b.Credit)
			}
			cb, _ := s.st.GetNodeBalance(store.NodeID(s.agents[client].id.nodeID))
			if new(big.Int).Neg(&cb.Credit).Cmp(sum) != 0 {
				rt.Fatalf("client was debited %s, hosts were credited %s", new(big.Int).Neg(&cb.Credit), sum)
			}
			rec.Case(fmt.Sprintf("slice|%s|%s|%s|%v", cfg.Driver, cfg.Price, cfg.Interval, cuts), k >= 2 && sum.Sign() > 0, []string{"slicing", fmt.Sprintf("slicing:k>=5:%v", k >= 5)}, func() interface{} {
				return map[string]interface{}{"kind": "slicing", "driver": cfg.Driver, "price": cfg.Price.String(), "interval": cfg.Interval.String(), "span": T.String(), "cuts": fmt.Sprint(cuts), "full_per_host": full.String(), "credited_total": sum.String()}
			})
		})
	})
}

// TestC02Interleaved — two or three keep-alives interleaved at every store call still charge exactly what a
// one-at-a-time execution charges (the manager keeps no per-update state that another update could disturb).
func TestC02Interleaved(t *testing.T) {
	defer vt.Watch("TestC02Interleaved", 120*time.Second)()
	rec := vt.For("C02")
	rec.Rule("interleaving (harness-owned scheduler): keep-alives of two light clients with different elapsed times (and optionally of a host) that bill the same hosts are interleaved at every store call by rapid draws, on memory/badger, prices 1..777777; oracle: all balances afterwards equal those of some one-at-a-time order (exact serial executions on an identical pool), i.e. each client is debited exactly its own elapsed x price per peer; non-trivial = the schedule interleaves two updates; distinct by config + schedule")
	check(t, func(rt *rapid.T) {
		rapid.SyncTest(rt, func(rt *rapid.T) {
			cfg := sessCfg{Driver: rapid.SampledFrom([]string{"memory", "memory", "badger"}).Draw(rt, "driver"), Price: big.NewInt(int64(rapid.SampledFrom([]int{1, 1000, 777777}).Draw(rt, "price"))), Interval: time.Minute, Yield: true}
			ops := []serOp{{"update", 2, "keepalive(c2)"}, {"update", 3, "keepalive(c3)"}}
			if rapid.Bool().Draw(rt, "withHost") {
				ops = append(ops, serOp{"hostUpdate", 0, "keepalive(h0)"})
			}
			var pre []string
			if rapid.Bool().Draw(rt, "hostLinked") {
				pre = append(pre, "linkH0")
			}
			res := runSer(rt, cfg, pre, ops, nil)
			if res.matched == "" {
				rt.Fatalf("%s", res.report)
			}
			interleaved := false
			for i := 1; i+1 < len(res.trace); i++ {
				if strings.Split(res.trace[i], "@")[0] != strings.Split(res.trace[i-1], "@")[0] {
					interleaved = true
				}
			}
			rec.Case(fmt.Sprintf("interleaved|%s|%v|%v", cfg.String(), pre, res.trace), interleaved, []string{"interleaved"}, func() interface{} {
				return map[string]interface{}{"kind": "interleaved keep-alives", "config": cfg.String(), "schedule": res.trace, "equivalent_serial_order": res.matched}
			})
		})
	})
}
