package props

// C09 — the pool talks to a host exactly while that host has a live connection.

import (
	"context"
	"fmt"
	"math/big"
	"runtime"
	"sort"
	"strings"
	"sync"
	"sync/atomic"
	"testing"
	"testing/synctest"
	"time"

	"github.com/vipnode/vipnode/v2/pool"
	"pgregory.net/rapid"

	"verif/vt"
)

// perturbWriter is installed as the pool's log output: while enabled, every log line the pool writes yields the
// processor a few thousand times, so that whatever other goroutines are runnable get to run in the middle of the
// logging code path. Statements that sit between a check and its action only because a log line was put there
// thereby become real interleaving points (pool.SetLogger is the package's own seam).
type perturbWriter struct{ on int32 }

func (w *perturbWriter) Write(p []byte) (int, error) {
	if atomic.LoadInt32(&w.on) != 0 {
		for i := 0; i < 3000; i++ {
			runtime.Gosched()
		}
	}
	return len(p), nil
}

var c09Perturb = &perturbWriter{}

func c09Case(rt *rapid.T, rec *vt.Rec) {
	pool.SetLogger(c09Perturb)
	cfg := sessCfg{Driver: rapid.SampledFrom([]string{"memory", "memory", "badger"}).Draw(rt, "driver"), Price: big.NewInt(1000), Interval: time.Minute, Yield: true}
	nHosts := rapid.IntRange(1, 3).Draw(rt, "nHosts")
	s := newSession(rt, cfg, nHosts+1)
	defer s.close()
	client := nHosts
	var hist, kinds []string
	classes := map[string]bool{}
	// a host may spell its node id in upper case or with a 0x prefix (accepted by request verification, kept as sent)
	for i := 0; i < nHosts; i++ {
		switch sp := rapid.SampledFrom([]string{"plain", "plain", "upper", "0x"}).Draw(rt, "idSpelling"); sp {
		case "upper":
			s.agents[i].id.nodeID = strings.ToUpper(s.agents[i].id.nodeID)
			classes["id-spelling:upper"] = true
		case "0x":
			s.agents[i].id.nodeID = "0x" + s.agents[i].id.nodeID
			classes["id-spelling:0x"] = true
		}
	}
	logf := func(f string, a ...interface{}) {
		hist = append(hist, fmt.Sprintf("[t+%s] ", time.Since(bubbleEpoch()))+fmt.Sprintf(f, a...))
	}
	fail := func(f string, a ...interface{}) {
		// (printed first: a failure while goroutines are still blocked is otherwise reported as a bare bubble deadlock)
		fmt.Printf("C09 FAILURE DETAIL: %.1500s\n  history:\n  %.4000s\n", fmt.Sprintf(f, a...), strings.Join(hist, "\n  "))
		rt.Fatalf("%s\nhistory:\n  %s", fmt.Sprintf(f, a...), strings.Join(hist, "\n  "))
	}
	slow := map[int]time.Duration{} // conn id -> whitelist delay
	s.behave = func(hostIdx, connID int, method, arg string) (time.Duration, error) {
		s.mu.Lock()
		d := slow[connID]
		s.mu.Unlock()
		return d, nil
	}
	cc := s.openConn(client, "")
	s.model.connect(s.agents[client].id.nodeID, cc.id, false, "geth", "")
	if err := s.connect(client, cc, false, "geth", ""); err != nil {
		fail("client connect: %v", err)
	}
	openConns := func() []*agentConn {
		var r []*agentConn
		for i := 0; i < nHosts; i++ {
			for _, ac := range s.agents[i].conns {
				if ac.open {
					r = append(r, ac)
				}
			}
		}
		return r
	}
	connOwner := func(ac *agentConn) int {
		for i := 0; i < nHosts; i++ {
			for _, x := range s.agents[i].conns {
				if x == ac {
					return i
				}
			}
		}
		return -1
	}
	checkRegistry := func(after string) {
		if got, want := s.pool.NumRemotes(), s.model.numLive(); got != want {
			var cur []string
			for i := 0; i < nHosts; i++ {
				if c, ok := s.model.liveHost(s.agents[i].id.nodeID); ok {
					cur = append(cur, fmt.Sprintf("%s@conn#%d", s.agents[i].id.name, c))
				}
			}
			fail("after %s: pool counts %d connected hosts, but %d hosts have a live registered connection (%v)", after, got, want, cur)
		}
	}
	// a peer request probes who the pool talks to
	probe := func(label string) {
		callsBefore := map[int]int{}
		for i := 0; i < nHosts; i++ {
			for _, ac := range s.agents[i].conns {
				callsBefore[ac.id] = len(ac.svc.Calls())
			}
		}
		resp, err := s.peer(client, 3, "")
		var got []string
		if resp != nil {
			for _, n := range resp.Peers {
				got = append(got, nodeName(string(n.ID)))
			}
		}
		// several hosts may have registered over one connection: what is compared is, per connection, how many
		// whitelist instructions arrived against how many hosts are currently registered on it
		var want, wantConns, gotConns []string
		wantPer, gotPer := map[int]int{}, map[int]int{}
		for i := 0; i < nHosts; i++ {
			if c, ok := s.model.liveHost(s.agents[i].id.nodeID); ok {
				want = append(want, s.agents[i].id.name)
				wantPer[c]++
			}
			for _, ac := range s.agents[i].conns {
				if n := len(ac.svc.Calls()) - callsBefore[ac.id]; n > 0 {
					gotPer[ac.id] = n
					if !ac.open {
						fail("%s: the pool sent %d instruction(s) over conn#%d (opened by %s), which is closed", label, n, ac.id, s.agents[i].id.name)
					}
				}
			}
		}
		for c, n := range wantPer {
			wantConns = append(wantConns, fmt.Sprintf("conn#%d x%d", c, n))
		}
		for c, n := range gotPer {
			gotConns = append(gotConns, fmt.Sprintf("conn#%d x%d", c, n))
		}
		sort.Strings(wantConns)
		sort.Strings(gotConns)
		logf("%s: peer request -> %v err=%v; instructed %v; model: live %v on %v", label, got, err, gotConns, want, wantConns)
		if !setEq(gotConns, wantConns) {
			fail("%s: the pool instructed %v; the live most-recently-registered connections of the hosts are %v", label, gotConns, wantConns)
		}
		if !setEq(got, want) {
			fail("%s: peer request returned %v, the hosts with a live registered connection are %v (err=%v)", label, got, want, err)
		}
		if len(want) > 0 && err != nil {
			fail("%s: error although hosts are available: %v", label, err)
		}
	}
	n := rapid.IntRange(3, 16).Draw(rt, "steps")
	shared := false // some connection carries a host that did not open it: the directed race rules (written for one host per connection) are left out from then on
	for k := 0; k < n; k++ {
		op := rapid.SampledFrom([]string{"connect", "connect", "close", "close", "probe", "closeDuring", "reregDuring", "failedReconnect", "reconnectRace", "advance", "closeDuringConnect", "closeWithStoreFault", "closeWhileOwnRequest", "connectOnExisting", "connectOnExisting", "connectOnForeign", "connectOnForeign", "becomeClient"}).Draw(rt, "op")
		if shared {
			switch op {
			case "connect", "close", "probe", "advance", "connectOnExisting", "connectOnForeign":
			default:
				op = rapid.SampledFrom([]string{"close", "probe", "connect", "connectOnForeign"}).Draw(rt, "opShared")
			}
		}
		switch op {
		case "closeWhileOwnRequest":
			// a host's connection closes while a request that this host itself sent over it is still being served (its
			// peer request waits for another, slow host): the closed connection is unregistered at once, not when the
			// pool is done with that request
			var live []int
			for i := 0; i < nHosts; i++ {
				if _, ok := s.model.liveHost(s.agents[i].id.nodeID); ok {
					live = append(live, i)
				}
			}
			if len(live) < 2 {
				continue
			}
			ai := rapid.IntRange(0, len(live)-1).Draw(rt, "requesterHost")
			a := live[ai]
			b := live[(ai+1+rapid.IntRange(0, len(live)-2).Draw(rt, "slowHost"))%len(live)]
			acid, _ := s.model.liveHost(s.agents[a].id.nodeID)
			bcid, _ := s.model.liveHost(s.agents[b].id.nodeID)
			var aconn *agentConn
			for _, ac := range s.agents[a].conns {
				if ac.id == acid {
					aconn = ac
				}
			}
			s.mu.Lock()
			slow[bcid] = 3 * time.Second
			s.mu.Unlock()
			ownDone := make(chan struct{})
			go func() {
				defer close(ownDone)
				// the host's own peer request, over its own connection
				ag := s.agents[a]
				req := pool.PeerRequest{Num: 3}
				n := s.nonce(ag.id.nodeID)
				ctx, cancel := context.WithTimeout(context.Background(), 6*time.Second)
				defer cancel()
				var resp pool.PeerResponse
				aconn.c.agentSide.Call(ctx, &resp, "vipnode_peer", mustSign(ag.id.key, "vipnode_peer", ag.id.nodeID, n, req), ag.id.nodeID, n, req)
			}()
			time.Sleep(time.Second)
			s.closeConn(aconn)
			logf("host %s's conn#%d closes while its own peer request (waiting for slow host %s) is still being served", s.agents[a].id.name, acid, s.agents[b].id.name)
			checkRegistry("closeWhileOwnRequest (right after the close)")
			time.Sleep(4 * time.Second)
			<-ownDone // (its reply can no longer arrive: the call ends with its deadline)
			s.mu.Lock()
			delete(slow, bcid)
			s.mu.Unlock()
			classes["close-own-request"] = true
			classes["close-current"] = true
		case "closeDuringConnect":
			// a host registers on a new connection and that very connection closes while the registration is still
			// inside the store: whatever order the two finish in, the closed connection must not stay registered
			h := rapid.IntRange(0, nHosts-1).Draw(rt, "host")
			entered := make(chan struct{}, 4)
			release := make(chan struct{})
			heldAt := rapid.SampledFrom([]string{"SetNode", "CheckAndSaveNonce"}).Draw(rt, "heldAt")
			s.ys.setHook(func(method string) error {
				if method != heldAt {
					return nil
				}
				entered <- struct{}{}
				<-release
				return nil
			})
			ac2 := s.openConn(h, "")
			cdone := make(chan error, 1)
			go func() {
				// (the reply can never arrive on the closed connection: give the call a deadline)
				a := s.agents[h]
				req := s.connectReq(true, "geth", "")
				n := s.nonce(a.id.nodeID)
				ctx, cancel := context.WithTimeout(context.Background(), 10*time.Second)
				defer cancel()
				var resp pool.ConnectResponse
				cdone <- ac2.c.agentSide.Call(ctx, &resp, "vipnode_connect", mustSign(a.id.key, "vipnode_connect", a.id.nodeID, n, req), a.id.nodeID, n, req)
			}()
			<-entered
			if heldAt == "SetNode" {
				// the registration has reached the registry: it counts as this host's most recent one (and ends with
				// the connection)
				s.model.connect(s.agents[h].id.nodeID, ac2.id, true, "geth", "")
			}
			// (held in the nonce check the request has registered nothing yet, and must not register anything once the
			// connection is gone: nothing would ever unregister it. The host's earlier registration, if any, stands.)
			s.closeConn(ac2)
			synctest.Wait()
			close(release)
			<-cdone
			s.ys.setHook(nil)
			synctest.Wait()
			logf("host %s registers on conn#%d, which closes while the request is inside the store (%s)", s.agents[h].id.name, ac2.id, heldAt)
			classes["close-during-connect:"+heldAt] = true
			classes["close-during-connect"] = true
			classes["close-current"] = true
		case "closeWithStoreFault":
			// the store fails every read while a host's current connection closes: unregistering a closed
			// connection must not depend on the store
			var live []int
			for i := 0; i < nHosts; i++ {
				if _, ok := s.model.liveHost(s.agents[i].id.nodeID); ok {
					live = append(live, i)
				}
			}
			if len(live) == 0 {
				continue
			}
			h := rapid.SampledFrom(live).Draw(rt, "victim")
			cid, _ := s.model.liveHost(s.agents[h].id.nodeID)
			var victim *agentConn
			for _, ac := range s.agents[h].conns {
				if ac.id == cid {
					victim = ac
				}
			}
			s.ys.setHook(func(method string) error {
				if strings.HasPrefix(method, "Get") || method == "NodePeers" || method == "ActiveHosts" {
					return errScripted
				}
				return nil
			})
			s.closeConn(victim)
			synctest.Wait()
			s.ys.setHook(nil)
			logf("conn#%d of host %s closes while the store fails every read", cid, s.agents[h].id.name)
			classes["close-store-fault"] = true
			classes["close-current"] = true
		case "connect":
			h := rapid.IntRange(0, nHosts-1).Draw(rt, "host")
			if len(s.agents[h].conns) > 0 {
				classes["reconnect"] = true
			}
			ac := s.openConn(h, "")
			s.model.connect(s.agents[h].id.nodeID, ac.id, true, "geth", "")
			if err := s.connect(h, ac, true, "geth", ""); err != nil {
				fail("host connect: %v", err)
			}
			logf("host %s registers on conn#%d", s.agents[h].id.name, ac.id)
		case "connectOnExisting":
			// a host registers again over a connection it already has open - its current one, or an older one that
			// thereby becomes the most recent registration
			oc := openConns()
			if len(oc) == 0 {
				continue
			}
			ac := rapid.SampledFrom(oc).Draw(rt, "existingConn")
			h := connOwner(ac)
			cur, isLive := s.model.liveHost(s.agents[h].id.nodeID)
			s.model.connect(s.agents[h].id.nodeID, ac.id, true, "geth", "")
			if err := s.connect(h, ac, true, "geth", ""); err != nil {
				fail("host connect over its open conn#%d: %v", ac.id, err)
			}
			if isLive && cur != ac.id {
				classes["register-back-on-older-connection"] = true
			} else {
				classes["register-again-on-current-connection"] = true
			}
			logf("host %s registers again on its open conn#%d (current before: conn#%d, live: %v)", s.agents[h].id.name, ac.id, cur, isLive)
		case "connectOnForeign":
			// a second host identity registers over a connection that another host opened (one agent process serving
			// two nodes, or simply a valid sequence of signed requests): the connection now carries both hosts, and
			// closing it ends the registration of every host whose most recent registration it holds
			oc := openConns()
			if len(oc) == 0 || nHosts < 2 {
				continue
			}
			ac := rapid.SampledFrom(oc).Draw(rt, "foreignConn")
			o := connOwner(ac)
			h := (o + 1 + rapid.IntRange(0, nHosts-2).Draw(rt, "otherHost")) % nHosts
			cur, isLive := s.model.liveHost(s.agents[h].id.nodeID)
			s.model.connect(s.agents[h].id.nodeID, ac.id, true, "geth", "")
			if err := s.connect(h, ac, true, "geth", ""); err != nil {
				fail("host %s connects over conn#%d (opened by %s): %v", s.agents[h].id.name, ac.id, s.agents[o].id.name, err)
			}
			classes["second-identity-on-a-connection"] = true
			shared = true
			logf("host %s registers over conn#%d, opened by host %s (its current before: conn#%d, live: %v)", s.agents[h].id.name, ac.id, s.agents[o].id.name, cur, isLive)
		case "becomeClient":
			// a host comes back as a light client (the operator switched the node to light mode), over its current
			// connection or a new one: it is no connected host any more, whatever its earlier connections do
			var live []int
			for i := 0; i < nHosts; i++ {
				if _, ok := s.model.liveHost(s.agents[i].id.nodeID); ok {
					live = append(live, i)
				}
			}
			if len(live) == 0 || shared {
				continue
			}
			h := rapid.SampledFrom(live).Draw(rt, "hostTurningClient")
			ac := s.agents[h].lastConn()
			if ac == nil || !ac.open || rapid.Bool().Draw(rt, "overNewConn") {
				ac = s.openConn(h, "")
			}
			s.model.connect(s.agents[h].id.nodeID, ac.id, false, "geth", "")
			if err := s.connect(h, ac, false, "geth", ""); err != nil {
				fail("host %s re-registers as a light client over conn#%d: %v", s.agents[h].id.name, ac.id, err)
			}
			classes["host-turned-client"] = true
			logf("host %s registers as a light client over conn#%d", s.agents[h].id.name, ac.id)
		case "close":
			oc := openConns()
			if len(oc) == 0 {
				continue
			}
			ac := rapid.SampledFrom(oc).Draw(rt, "conn")
			h := connOwner(ac)
			cur, isLive := s.model.liveHost(s.agents[h].id.nodeID)
			if !(isLive && cur == ac.id) {
				classes["close-noncurrent"] = true
			} else {
				classes["close-current"] = true
			}
			s.closeConn(ac)
			logf("conn#%d of host %s closes (was current: %v)", ac.id, s.agents[h].id.name, isLive && cur == ac.id)
		case "probe":
			probe("probe")
		case "advance":
			d := time.Duration(rapid.Int64Range(1, int64(3*time.Second)).Draw(rt, "advance"))
			time.Sleep(d)
		case "failedReconnect":
			// the host re-registers on a new connection, but the registration FAILS in the store - while the old
			// connection closes. Afterwards both connections are closed: nothing may be left registered.
			var live []int
			for i := 0; i < nHosts; i++ {
				if _, ok := s.model.liveHost(s.agents[i].id.nodeID); ok {
					live = append(live, i)
				}
			}
			if len(live) == 0 {
				continue
			}
			h := rapid.SampledFrom(live).Draw(rt, "victim")
			cid, _ := s.model.liveHost(s.agents[h].id.nodeID)
			var old *agentConn
			for _, ac := range s.agents[h].conns {
				if ac.id == cid {
					old = ac
				}
			}
			closeFirst := rapid.Bool().Draw(rt, "closeOldWhileStoreCallPending")
			entered := make(chan struct{}, 4)
			release := make(chan struct{})
			s.ys.setHook(func(method string) error {
				if method != "SetNode" {
					return nil
				}
				entered <- struct{}{}
				<-release
				return errScripted
			})
			ac2 := s.openConn(h, "")
			cdone := make(chan error, 1)
			go func() { cdone <- s.connect(h, ac2, true, "geth", "") }()
			<-entered
			if closeFirst {
				s.closeConn(old)
			}
			close(release)
			cerr := <-cdone
			s.ys.setHook(nil)
			if cerr == nil {
				fail("host connect succeeded although the store refused the node record")
			}
			if !closeFirst {
				s.closeConn(old)
			}
			// the failed registration's connection goes away as well
			s.model.open[ac2.id] = true
			s.closeConn(ac2)
			delete(s.model.current, s.agents[h].id.nodeID)
			logf("host %s: registration on conn#%d fails in the store (old conn#%d closed %s); then conn#%d closes too", s.agents[h].id.name, ac2.id, old.id, map[bool]string{true: "while the store call was pending", false: "afterwards"}[closeFirst], ac2.id)
			classes["failed-reconnect"] = true
			classes["reconnect"] = true
			classes["close-noncurrent"] = true
		case "reconnectRace":
			// the old connection is reaped at (almost) the same moment the host registers on a new one, repeatedly,
			// in truly parallel goroutines: whichever comes first, the new registration must survive
			h := rapid.IntRange(0, nHosts-1).Draw(rt, "host")
			reps := rapid.IntRange(3, 12).Draw(rt, "reps")
			atomic.StoreInt32(&c09Perturb.on, 1)
			for r := 0; r < reps; r++ {
				cur := s.openConn(h, "")
				s.model.connect(s.agents[h].id.nodeID, cur.id, true, "geth", "")
				if err := s.connect(h, cur, true, "geth", ""); err != nil {
					fail("host connect: %v", err)
				}
				next := s.openConn(h, "")
				spin := rapid.IntRange(0, 1500000).Draw(rt, "spin")
				var wg sync.WaitGroup
				wg.Add(2)
				var cerr error
				go func() { defer wg.Done(); cerr = s.connect(h, next, true, "geth", "") }()
				go func() {
					defer wg.Done()
					x := 0
					for i := 0; i < spin; i++ {
						x += i
					}
					_ = x
					cur.c.agentEnd.Close()
				}()
				wg.Wait()
				<-cur.c.served
				<-cur.c.agentDone
				cur.open = false
				s.model.closeConn(cur.id)
				s.model.connect(s.agents[h].id.nodeID, next.id, true, "geth", "")
				if cerr != nil {
					fail("host reconnect: %v", cerr)
				}
				if got, want := s.pool.NumRemotes(), s.model.numLive(); got != want {
					fail("host %s re-registered on conn#%d while its old conn#%d was being reaped: the pool now counts %d connected hosts, %d have a live registered connection", s.agents[h].id.name, next.id, cur.id, got, want)
				}
			}
			atomic.StoreInt32(&c09Perturb.on, 0)
			logf("host %s: %d times re-register while the old connection is reaped concurrently", s.agents[h].id.name, reps)
			classes["reconnect-race"] = true
			classes["reconnect"] = true
			classes["close-noncurrent"] = true
		case "reregDuring":
			// a peer request has picked the host's connection but not yet written to it; meanwhile the host
			// re-registers on a new connection and the old one closes; the late write then fails
			var live []int
			for i := 0; i < nHosts; i++ {
				if _, ok := s.model.liveHost(s.agents[i].id.nodeID); ok {
					live = append(live, i)
				}
			}
			if len(live) == 0 {
				continue
			}
			h := rapid.SampledFrom(live).Draw(rt, "victim")
			cid, _ := s.model.liveHost(s.agents[h].id.nodeID)
			var old *agentConn
			for _, ac := range s.agents[h].conns {
				if ac.id == cid {
					old = ac
				}
			}
			entered := make(chan struct{}, 8)
			release := make(chan struct{})
			old.c.poolEnd.mu.Lock()
			old.c.poolEnd.gate = func() {
				entered <- struct{}{}
				<-release
			}
			old.c.poolEnd.mu.Unlock()
			type res struct {
				resp *pool.PeerResponse
				err  error
			}
			done := make(chan res, 1)
			go func() {
				resp, err := s.peer(client, 3, "")
				done <- res{resp, err}
			}()
			<-entered
			ac2 := s.openConn(h, "")
			s.model.connect(s.agents[h].id.nodeID, ac2.id, true, "geth", "")
			if err := s.connect(h, ac2, true, "geth", ""); err != nil {
				fail("host reconnect: %v", err)
			}
			// close the old connection while the write is still held (Close must not wait for the gated writer)
			old.c.poolEnd.mu.Lock()
			old.c.poolEnd.gate = nil
			old.c.poolEnd.mu.Unlock()
			old.c.agentEnd.Close()
			old.open = false
			s.model.closeConn(old.id)
			synctest.Wait()
			close(release)
			r := <-done
			<-old.c.served
			logf("peer request holds its write to conn#%d of %s; %s re-registers on conn#%d; conn#%d closes; write released -> err=%v", cid, s.agents[h].id.name, s.agents[h].id.name, ac2.id, cid, r.err)
			classes["rereg-during-request"] = true
			classes["reconnect"] = true
			classes["close-noncurrent"] = true
		case "closeDuring":
			// close a host's current connection while its whitelist call is in flight
			var live []int
			for i := 0; i < nHosts; i++ {
				if _, ok := s.model.liveHost(s.agents[i].id.nodeID); ok {
					live = append(live, i)
				}
			}
			if len(live) == 0 {
				continue
			}
			h := rapid.SampledFrom(live).Draw(rt, "victim")
			cid, _ := s.model.liveHost(s.agents[h].id.nodeID)
			var victim *agentConn
			for _, ac := range s.agents[h].conns {
				if ac.id == cid {
					victim = ac
				}
			}
			s.mu.Lock()
			slow[cid] = 2 * time.Second
			s.mu.Unlock()
			type res struct {
				resp *pool.PeerResponse
				err  error
				took time.Duration
			}
			done := make(chan res, 1)
			t0 := time.Now()
			go func() {
				resp, err := s.peer(client, 3, "")
				done <- res{resp, err, time.Since(t0)}
			}()
			time.Sleep(time.Second)
			s.closeConn(victim)
			r := <-done
			var got []string
			if r.resp != nil {
				for _, nn := range r.resp.Peers {
					got = append(got, nodeName(string(nn.ID)))
				}
			}
			logf("close conn#%d of %s while its whitelist call is in flight -> %v err=%v after %s", cid, s.agents[h].id.name, got, r.err, r.took)
			if r.took > 5*time.Second+time.Millisecond {
				fail("peer request with a connection closing mid-call took %s", r.took)
			}
			for _, g := range got {
				if g == s.agents[h].id.name {
					fail("host %s was returned although its connection closed before it acknowledged", g)
				}
			}
			classes["close-during-request"] = true
		}
		kinds = append(kinds, op)
		checkRegistry(op)
		if op != "probe" && rapid.IntRange(0, 2).Draw(rt, "probeAfter") == 0 {
			probe("after " + op)
		}
	}
	probe("final")
	s.close()
	synctest.Wait()
	if left := bubbleLeftovers(); len(left) > 0 {
		fail("goroutines left blocked after all connections closed:\n%s", strings.Join(left, "\n\n"))
	}
	nontrivial := classes["reconnect"] && classes["close-noncurrent"]
	var cl []string
	for c := range classes {
		cl = append(cl, c)
	}
	cl = sortedCopy(cl)
	rec.Case(fmt.Sprintf("%s|h%d|%s", cfg.Driver, nHosts, strings.Join(kinds, ",")), nontrivial, append(cl, "driver:"+cfg.Driver), func() interface{} {
		return map[string]interface{}{"driver": cfg.Driver, "hosts": nHosts, "history": hist, "classes": cl}
	})
}

func TestC09HostRegistry(t *testing.T) {
	defer vt.Watch("TestC09HostRegistry", 120*time.Second)()
	rec := vt.For("C09")
	rec.Rule("rapid state machine over 1-3 hosts and a client in virtual time: connect(h) on a fresh connection (the harness does what server.go does: Remote.Serve per connection, CloseRemote when it returns), close(any open connection, in any order), probe = peer request for all hosts, closeDuring(h) = close h's current connection while its whitelist call is in flight; oracle (registry model): current[h] = connection h most recently registered on if still open; NumRemotes == #hosts with a live current connection; every probe sends vipnode_whitelist exactly to the current connections (never to a closed or superseded one, once each) and returns exactly those hosts; closeDuring: returns within 5s without the closing host; no goroutine left blocked at the end; non-trivial = history with a reconnect and a close of a non-current connection; distinct by op sequence")
	check(t, func(rt *rapid.T) {
		rapid.SyncTest(rt, func(rt *rapid.T) { c09Case(rt, rec) })
	})
}
