package props

// The billing state machine behind C01 (zero-sum ledger), C02 (exact charges)
// and C03 (minimum balance). One generator of pool histories; which oracle
// family is asserted depends on the property the run is for.

import (
	"context"
	"fmt"
	"github.com/vipnode/vipnode/v2/ethnode"
	"math/big"
	"strings"
	"testing"
	"time"

	"github.com/vipnode/vipnode/v2/pool"
	"github.com/vipnode/vipnode/v2/pool/store"
	"pgregory.net/rapid"

	"verif/vt"
)

var billPrices = []string{"1", "7", "1000", "100000000000", "18446744073709551619"}
var billIntervals = []time.Duration{time.Second, time.Minute, 7 * time.Minute, 1}
var billAdvances = []time.Duration{1, time.Second, 30 * time.Second, 59 * time.Second, 60 * time.Second, 61 * time.Second, 90 * time.Second, 119 * time.Second, 121 * time.Second, 5 * time.Minute}

type billAgent struct {
	isHost bool
	kind   string
	wallet int // -1 none
}

type billing struct {
	rt      *rapid.T
	prop    string
	s       *session
	roles   []billAgent
	hist    []string
	kinds   []string
	classes map[string]bool
	nAgents int
}

func (b *billing) logf(format string, a ...interface{}) {
	b.hist = append(b.hist, fmt.Sprintf("[t+%s] ", time.Since(bubbleEpoch()).String())+fmt.Sprintf(format, a...))
}

func bubbleEpoch() time.Time { return time.Date(2000, 1, 1, 0, 0, 0, 0, time.UTC) }

func (b *billing) fail(format string, a ...interface{}) {
	b.rt.Fatalf("%s\nconfig: %s\nhistory:\n  %s", fmt.Sprintf(format, a...), b.s.cfg, strings.Join(b.hist, "\n  "))
}

func genBillCfg(rt *rapid.T, prop string) sessCfg {
	cfg := sessCfg{}
	cfg.Driver = rapid.SampledFrom([]string{"memory", "memory", "badger"}).Draw(rt, "driver")
	cfg.Price, _ = new(big.Int).SetString(rapid.SampledFrom(billPrices).Draw(rt, "price"), 10)
	cfg.Interval = rapid.SampledFrom(billIntervals).Draw(rt, "interval")
	minChoices := []string{"off", "off", "-5", "0", "1000", "1000000", "huge"}
	if prop == "C03" {
		minChoices = []string{"off", "-3", "0", "1", "1000", "1000000", "1000000"}
	}
	switch m := rapid.SampledFrom(minChoices).Draw(rt, "min"); m {
	case "off":
	case "huge":
		cfg.Min = bigPow(10, 40)
	default:
		cfg.Min, _ = new(big.Int).SetString(m, 10)
	}
	cfg.Deposits = rapid.Bool().Draw(rt, "deposits")
	cfg.MaxRequestHosts = rapid.SampledFrom([]int{0, 0, 1, 2}).Draw(rt, "maxHosts")
	switch rapid.IntRange(0, 2).Draw(rt, "wmin") {
	case 1:
		cfg.WithdrawMin = big.NewInt(0)
	case 2:
		cfg.WithdrawMin = big.NewInt(500)
	}
	cfg.Fee = rapid.SampledFrom([]string{"", "const", "prop"}).Draw(rt, "fee")
	return cfg
}

func (b *billing) agentIDs() []string {
	r := make([]string, b.nAgents)
	for i := range r {
		r[i] = b.s.agents[i].id.nodeID
	}
	return r
}

func (b *billing) registered(i int) bool {
	_, err := b.s.model.st.GetNode(store.NodeID(b.s.agents[i].id.nodeID))
	return err == nil
}

func (b *billing) drawRegistered(label string, pred func(i int) bool) (int, bool) {
	var c []int
	for i := 0; i < b.nAgents; i++ {
		if b.registered(i) && (pred == nil || pred(i)) {
			c = append(c, i)
		}
	}
	if len(c) == 0 {
		return 0, false
	}
	return rapid.SampledFrom(c).Draw(b.rt, label), true
}

// checkState compares every balance with the model and (C01) the ledger sums.
func (b *billing) checkState(after string) {
	s := b.s
	sum := new(big.Int)
	seenWallet := map[store.Account]bool{}
	for i := 0; i < b.nAgents; i++ {
		id := store.NodeID(s.agents[i].id.nodeID)
		got, gerr := s.bal.GetNodeBalance(id)
		want, werr := s.model.st.GetNodeBalance(id)
		if (gerr == nil) != (werr == nil) {
			b.fail("after %s: GetNodeBalance(%s): error %v, model %v", after, nodeName(string(id)), gerr, werr)
		}
		if gerr != nil {
			continue
		}
		if got.Credit.Cmp(&want.Credit) != 0 || got.Account != want.Account {
			b.fail("after %s: balance of %s is account=%q credit=%s, model says account=%q credit=%s", after, nodeName(string(id)), got.Account, got.Credit.String(), want.Account, want.Credit.String())
		}
		if got.Account == "" {
			sum.Add(sum, &got.Credit)
		} else if !seenWallet[got.Account] {
			seenWallet[got.Account] = true
		}
	}
	for w := 0; w < 2; w++ {
		a := store.Account(walletIdent(w).addr)
		got, gerr := s.bal.GetAccountBalance(a)
		if gerr != nil {
			b.fail("after %s: GetAccountBalance(%s): %v", after, walletIdent(w).name, gerr)
		}
		want, _ := s.model.st.GetAccountBalance(a)
		if got.Credit.Cmp(&want.Credit) != 0 {
			b.fail("after %s: wallet %s credit=%s, model says %s", after, walletIdent(w).name, got.Credit.String(), want.Credit.String())
		}
		if s.cfg.Deposits {
			wd := new(big.Int)
			if d, ok := s.model.deposits[a]; ok {
				wd = d
			}
			if got.Deposit.Cmp(wd) != 0 {
				b.fail("after %s: wallet %s deposit=%s, model says %s", after, walletIdent(w).name, got.Deposit.String(), wd.String())
			}
		}
		sum.Add(sum, &got.Credit)
	}
	if b.prop == "C01" {
		st, err := s.st.Stats()
		if err != nil {
			b.fail("Stats: %v", err)
		}
		want := new(big.Int).Sub(s.model.granted, s.model.settled)
		if st.TotalCredit.Cmp(want) != 0 {
			b.fail("after %s: ledger total (Stats.TotalCredit) is %s, must be granted-settled = %s-%s = %s", after, st.TotalCredit.String(), s.model.granted, s.model.settled, want)
		}
		if sum.Cmp(want) != 0 {
			b.fail("after %s: sum over wallets and trial balances is %s, must be %s", after, sum, want)
		}
	}
}

func (b *billing) opConnect() {
	rt, s := b.rt, b.s
	i := rapid.IntRange(0, b.nAgents-1).Draw(rt, "agent")
	role := b.roles[i]
	isHost := role.isHost
	if rapid.IntRange(0, 11).Draw(rt, "flipRole") == 0 {
		isHost = !isHost
		b.classes["role-flip"] = true
	}
	if len(s.agents[i].conns) > 0 {
		b.classes["reconnect"] = true
	}
	payout := ""
	if role.wallet >= 0 && rapid.Bool().Draw(rt, "withPayout") {
		payout = walletIdent(role.wallet).addr
	}
	b.doConnect(i, isHost, payout)
}

func (b *billing) doConnect(i int, isHost bool, payout string) {
	s := b.s
	role := b.roles[i]
	ac := s.openConn(i, "")
	refuse, bal := s.model.connect(s.agents[i].id.nodeID, ac.id, isHost, role.kind, payout)
	err := s.connect(i, ac, isHost, role.kind, payout)
	ec := classifyErr(err)
	b.logf("connect %s host=%v kind=%s conn#%d -> %v", s.agents[i].id.name, isHost, role.kind, ac.id, err)
	switch ec.Kind {
	case "":
		if refuse && b.prop == "C03" {
			b.fail("client %s connected although its spendable balance %s is below the minimum %s", s.agents[i].id.name, bal, s.cfg.Min)
		}
	case "lowbalance":
		b.classes["connect-refused"] = true
		if b.prop == "C03" {
			if isHost {
				b.fail("full-node host %s refused at connect for its balance: %v", s.agents[i].id.name, err)
			}
			if !refuse {
				b.fail("client %s refused at connect (%v) although balance %v >= minimum %v", s.agents[i].id.name, err, bal, s.cfg.Min)
			}
			if ec.Balance == nil || ec.Balance.Cmp(bal) != 0 {
				b.fail("connect refusal reports balance %v, actual spendable balance is %s", ec.Balance, bal)
			}
		}
	default:
		b.fail("connect of %s failed unexpectedly: %v", s.agents[i].id.name, err)
	}
}

func (b *billing) opClose() {
	var c []*agentConn
	for _, a := range b.s.agents {
		for _, ac := range a.conns {
			if ac.open {
				c = append(c, ac)
			}
		}
	}
	if len(c) == 0 {
		return
	}
	ac := rapid.SampledFrom(c).Draw(b.rt, "conn")
	b.s.closeConn(ac)
	b.logf("close conn#%d", ac.id)
}

func (b *billing) genReport() []string {
	ids := b.agentIDs()
	n := rapid.IntRange(0, 4).Draw(b.rt, "nReported")
	var r []string
	for k := 0; k < n; k++ {
		if rapid.IntRange(0, 9).Draw(b.rt, "unknownPeer") == 0 {
			r = append(r, nodeIdent(9).nodeID)
		} else {
			r = append(r, rapid.SampledFrom(ids).Draw(b.rt, "peer"))
		}
	}
	return r
}

func names(ids []string) []string {
	r := make([]string, len(ids))
	for i, id := range ids {
		r[i] = nodeName(id)
	}
	return r
}

// doUpdate performs one keep-alive of agent i and checks it against the model.
func (b *billing) doUpdate(i int, reported []string, steerDelta *int) {
	rt, s := b.rt, b.s
	id := s.agents[i].id.nodeID
	enodeForm := rapid.Bool().Draw(rt, "enodeForm")
	viaRPC := rapid.Bool().Draw(rt, "viaRPC")
	block := uint64(rapid.IntRange(0, 100).Draw(rt, "block"))

	if steerDelta != nil {
		// steer the client's balance so that it lands exactly min+delta after this keep-alive's charge
		pm := *s.model
		pm.st = s.model.st.Clone()
		pe := pm.update(id, reported, block)
		cur, _ := s.model.spendable(id)
		target := new(big.Int).Add(s.cfg.Min, big.NewInt(int64(*steerDelta)))
		target.Add(target, pe.Charge)
		grant := new(big.Int).Sub(target, cur)
		if err := s.st.AddNodeBalance(store.NodeID(id), grant); err != nil {
			b.fail("steering grant failed: %v", err)
		}
		s.model.st.AddNodeBalance(store.NodeID(id), grant)
		s.model.granted.Add(s.model.granted, grant)
		b.logf("grant %s %s (steer to min%+d after a charge of %s)", nodeName(id), grant, *steerDelta, pe.Charge)
		b.classes["steered"] = true
	}

	// balances before (for per-peer deltas)
	before := map[string]*big.Int{}
	for k := 0; k < b.nAgents; k++ {
		if bal, err := s.bal.GetNodeBalance(store.NodeID(s.agents[k].id.nodeID)); err == nil {
			before[s.agents[k].id.nodeID] = new(big.Int).Set(&bal.Credit)
		}
	}
	if steerDelta == nil && !s.cfg.NoManager && rapid.IntRange(0, 11).Draw(rt, "blockNumberProviderFails") == 0 {
		// The pool command gives the pool a block-number provider (a scan of the store); this keep-alive finds it
		// failing. The keep-alive fails - and a failed keep-alive moves no credit. (Observed contract: the check-in
		// and the reported peers are recorded before the provider is asked; the stretch is not billed later either.)
		s.pool.BlockNumberProvider = func(ethnode.NetworkID) (uint64, error) { return 0, errScripted }
		s.model.cfg.NoManager = true
		s.model.update(id, reported, block)
		s.model.cfg.NoManager = false
		_, err := s.update(i, reported, block, enodeForm, viaRPC)
		s.pool.BlockNumberProvider = nil
		b.logf("update %s reports %v while the block-number provider fails -> err=%v", nodeName(id), names(reported), err)
		if classifyErr(err).Kind == "verify" {
			b.fail("correctly signed keep-alive refused: %v", err)
		}
		b.classes["provider-failed"] = true
		return // (checkState after the operation compares every balance with the model: nothing was billed)
	}
	seq0 := nextSeq()
	e := s.model.update(id, reported, block)
	gone := false
	if steerDelta != nil && !viaRPC && b.prop == "C03" && rapid.IntRange(0, 2).Draw(rt, "requesterGone") == 0 {
		// the client has hung up by the time the pool works on its keep-alive (an HTTP client that timed out): the
		// request's context has ended. The keep-alive is billed and judged all the same, and a client that falls below
		// the minimum is cut off - the hosts are told, whether or not anybody waits for the answer.
		ctx, cancel := context.WithCancel(context.Background())
		cancel()
		s.nextUpdateCtx = ctx
		gone = true
		b.classes["requester-gone"] = true
	}
	resp, err := s.update(i, reported, block, enodeForm, viaRPC)
	if gone {
		time.Sleep(10 * time.Second) // (virtual) - the instructions written to the hosts are handled, slow hosts included
	}
	ec := classifyErr(err)
	b.logf("update %s reports %v (enodeForm=%v rpc=%v) elapsed=%s -> err=%v; model: active=%v invalid=%v perPeer=%s charge=%s after=%s cutoff=%s",
		nodeName(id), names(reported), enodeForm, viaRPC, e.Elapsed, err, names(e.Active), names(e.Invalid), e.PerPeer, e.Charge, e.After, e.Cutoff)

	if e.Unregistered {
		if ec.Kind != "unregistered" {
			b.fail("keep-alive of unregistered node %s: got %v, want unregistered-node error", nodeName(id), err)
		}
		return
	}
	if ec.Kind == "verify" {
		b.fail("correctly signed keep-alive refused: %v", err)
	}
	if e.Charge.Sign() > 0 {
		b.classes["billed"] = true
		if sharesWallet(s, id, e.Active) {
			b.classes["peer-shares-wallet"] = true
		}
	}
	if len(e.Invalid) > 0 {
		b.classes["peer-expired"] = true
	}

	// --- C03: cut-off decision, reported balance, disconnect instructions
	if ec.Kind == "lowbalance" {
		b.classes["cutoff"] = true
		if b.prop == "C03" {
			if e.IsHost {
				b.fail("full-node host %s was cut off for its balance: %v", nodeName(id), err)
			}
			if e.Cutoff == "mustnot" {
				b.fail("client %s cut off (%v) although its balance after the charge, %s, is not below the minimum %s", nodeName(id), err, e.After, s.cfg.Min)
			}
			if ec.Balance == nil || ec.Balance.Cmp(e.After) != 0 {
				b.fail("cut-off error reports balance %v; the client's actual spendable balance after the charge is %s (minimum %s)", ec.Balance, e.After, s.cfg.Min)
			}
			// every connected host peering with it was asked to disconnect it
			want := map[string]bool{}
			for _, p := range e.Active {
				if cid, ok := s.model.liveHost(p); ok {
					want[fmt.Sprintf("%s@conn#%d", nodeName(p), cid)] = true
				}
			}
			got := map[string]bool{}
			for _, a := range s.agents {
				for _, ac := range a.conns {
					for _, c := range ac.svc.Calls() {
						if c.Seq > seq0 && c.Method == "disconnect" {
							if c.Arg != id {
								b.fail("host %s was told to disconnect %s, the cut-off client is %s", a.id.name, nodeName(c.Arg), nodeName(id))
							}
							got[fmt.Sprintf("%s@conn#%d", a.id.name, ac.id)] = true
						}
					}
				}
			}
			if strings.Join(sortedKeys(got), ",") != strings.Join(sortedKeys(want), ",") {
				b.fail("cut-off of %s: disconnect sent to %v, must be sent to its connected host peers %v", nodeName(id), sortedKeys(got), sortedKeys(want))
			}
			if len(want) > 0 {
				b.classes["cutoff-disconnects"] = true
			}
		}
	} else if err == nil {
		if e.Cutoff == "must" && b.prop == "C03" {
			b.fail("client %s not cut off although its balance after the charge, %s, is below the minimum %s", nodeName(id), e.After, s.cfg.Min)
		}
	} else {
		b.fail("keep-alive of %s failed unexpectedly: %v", nodeName(id), err)
	}

	// --- C02: exact movement
	if b.prop == "C02" {
		for k := 0; k < b.nAgents; k++ {
			pid := s.agents[k].id.nodeID
			bef, ok := before[pid]
			if !ok {
				continue
			}
			aft, aerr := s.bal.GetNodeBalance(store.NodeID(pid))
			if aerr != nil {
				b.fail("balance read: %v", aerr)
			}
			delta := new(big.Int).Sub(&aft.Credit, bef)
			want := new(big.Int)
			// all nodes sharing a balance (same wallet) see the same delta: compute per balance key
			want = expectedDelta(s, pid, id, e)
			if delta.Cmp(want) != 0 {
				b.fail("keep-alive of %s (elapsed %s, price %s per %s, active peers %v): balance of %s moved by %s, must move by %s", nodeName(id), e.Elapsed, s.cfg.Price, s.cfg.Interval, names(e.Active), nodeName(pid), delta, want)
			}
		}
		if err == nil {
			if resp.Balance == nil {
				if !s.cfg.NoManager {
					b.fail("update response carries no balance")
				}
			} else {
				rb, _ := s.bal.GetNodeBalance(store.NodeID(id))
				if resp.Balance.Credit.Cmp(&rb.Credit) != 0 || resp.Balance.Deposit.Cmp(&rb.Deposit) != 0 {
					b.fail("update response balance credit=%s deposit=%s differs from the balance read back credit=%s deposit=%s", resp.Balance.Credit.String(), resp.Balance.Deposit.String(), rb.Credit.String(), rb.Deposit.String())
				}
			}
			if !setEq(resp.InvalidPeers, e.Invalid) {
				b.fail("invalid peers %v, model %v", names(resp.InvalidPeers), names(e.Invalid))
			}
			if len(resp.ActivePeers) != len(e.Active) {
				b.fail("active peers %d, model %v", len(resp.ActivePeers), names(e.Active))
			}
		}
	}
}

func balanceKey(s *session, id string) string {
	b, err := s.model.st.GetNodeBalance(store.NodeID(id))
	if err == nil && b.Account != "" {
		return "w:" + string(b.Account)
	}
	if a, _ := s.model.st.GetAccountNodes(""); len(a) > 0 {
		for _, n := range a {
			if string(n) == id {
				return "w:"
			}
		}
	}
	return "n:" + id
}

func sharesWallet(s *session, client string, peers []string) bool {
	k := balanceKey(s, client)
	if !strings.HasPrefix(k, "w:") {
		return false
	}
	for _, p := range peers {
		if balanceKey(s, p) == k {
			return true
		}
	}
	return false
}

// expectedDelta: by how much the balance that node pid reads must have moved
// through the keep-alive of client: +perPeer for every active peer on that
// balance, -charge if the client is on it.
func expectedDelta(s *session, pid, client string, e updateExpect) *big.Int {
	k := balanceKey(s, pid)
	d := new(big.Int)
	if e.Charge.Sign() == 0 {
		return d
	}
	for _, p := range e.Active {
		if balanceKey(s, p) == k {
			d.Add(d, e.PerPeer)
		}
	}
	if balanceKey(s, client) == k {
		d.Sub(d, e.Charge)
	}
	return d
}

func (b *billing) opUpdate() {
	i := rapid.IntRange(0, b.nAgents-1).Draw(b.rt, "agent")
	b.doUpdate(i, b.genReport(), nil)
}

func (b *billing) opSteeredUpdate() {
	if b.s.cfg.Min == nil || b.s.cfg.Min.BitLen() > 64 {
		return
	}
	i, ok := b.drawRegistered("client", func(i int) bool {
		n, _ := b.s.model.st.GetNode(store.NodeID(b.s.agents[i].id.nodeID))
		return !n.IsHost
	})
	if !ok {
		return
	}
	d := rapid.SampledFrom(billAdvances).Draw(b.rt, "advance")
	time.Sleep(d)
	b.logf("advance %s", d)
	delta := rapid.SampledFrom([]int{-1, 0, 1}).Draw(b.rt, "delta")
	// make sure there is something to bill: report the hosts
	var rep []string
	for k := 0; k < b.nAgents; k++ {
		if b.registered(k) && k != i && rapid.IntRange(0, 2).Draw(b.rt, "rep") > 0 {
			rep = append(rep, b.s.agents[k].id.nodeID)
		}
	}
	b.doUpdate(i, rep, &delta)
}

func (b *billing) opAdvance() {
	d := rapid.SampledFrom(billAdvances).Draw(b.rt, "advance")
	time.Sleep(d)
	b.logf("advance %s", d)
}

func (b *billing) opPeer() {
	i, ok := b.drawRegistered("requester", nil)
	if !ok {
		return
	}
	num := rapid.SampledFrom([]int{0, 1, 2, 3}).Draw(b.rt, "num")
	kind := rapid.SampledFrom([]string{"", "geth", "parity"}).Draw(b.rt, "kind")
	resp, err := b.s.peer(i, num, kind)
	n := 0
	if resp != nil {
		n = len(resp.Peers)
	}
	b.logf("peer request by %s num=%d kind=%q -> %d hosts, err=%v", b.s.agents[i].id.name, num, kind, n, err)
	if ec := classifyErr(err); ec.Kind == "verify" {
		b.fail("correctly signed peer request refused: %v", err)
	}
	b.classes["peer-request"] = true
}

func (b *billing) opAddNode() {
	w := rapid.IntRange(0, 1).Draw(b.rt, "wallet")
	i := rapid.IntRange(0, b.nAgents-1).Draw(b.rt, "node")
	id := b.s.agents[i].id.nodeID
	wa := store.Account(walletIdent(w).addr)
	tb, terr := b.s.model.st.GetNodeBalance(store.NodeID(id))
	if terr == nil && tb.Account == "" && tb.Credit.Sign() != 0 {
		b.classes["link-after-trial-credit"] = true
	}
	if terr == nil && tb.Account != "" && tb.Account != wa {
		b.classes["re-link"] = true
	}
	werr := b.s.model.st.AddAccountNode(wa, store.NodeID(id))
	err := b.s.addNode(walletIdent(w), id)
	b.logf("addNode %s -> wallet %s: %v", nodeName(id), walletIdent(w).name, err)
	if (err == nil) != (werr == nil) {
		b.fail("pool_addNode(%s,%s): got %v, model %v", walletIdent(w).name, nodeName(id), err, werr)
	}
	if err != nil && classifyErr(err).Kind == "verify" {
		b.fail("correctly signed addNode refused: %v", err)
	}
}

func (b *billing) opGrant() {
	i, ok := b.drawRegistered("grantee", nil)
	if !ok {
		return
	}
	amt := big.NewInt(int64(rapid.SampledFrom([]int{1, 1000, 1000000, -500, 100000000}).Draw(b.rt, "amount")))
	id := store.NodeID(b.s.agents[i].id.nodeID)
	if err := b.s.st.AddNodeBalance(id, amt); err != nil {
		b.fail("grant: %v", err)
	}
	b.s.model.st.AddNodeBalance(id, amt)
	b.s.model.granted.Add(b.s.model.granted, amt)
	b.logf("grant %s %s", b.s.agents[i].id.name, amt)
}

func (b *billing) opDeposit() {
	if !b.s.cfg.Deposits {
		return
	}
	w := rapid.IntRange(0, 1).Draw(b.rt, "wallet")
	amt := big.NewInt(int64(rapid.SampledFrom([]int{0, 1, 999, 1000, 1001, 5000000}).Draw(b.rt, "deposit")))
	a := store.Account(walletIdent(w).addr)
	b.s.proxy.setDeposit(a, amt)
	b.s.model.deposits[a] = amt
	b.classes["deposit"] = true
	b.logf("deposit of wallet %s := %s", walletIdent(w).name, amt)
}

func (b *billing) opRefused() {
	rt, s := b.rt, b.s
	i := rapid.IntRange(0, b.nAgents-1).Draw(rt, "victim")
	victim := s.agents[i].id
	forger := nodeIdent((i + 1) % b.nAgents)
	endpoint := rapid.SampledFrom([]string{"update", "peer", "connect", "addNode", "withdraw"}).Draw(rt, "endpoint")
	kind := rapid.SampledFrom([]string{"otherkey", "stale"}).Draw(rt, "refusal")
	var err error
	key := forger.key
	switch endpoint {
	case "update", "peer", "connect":
		n := s.nonce(victim.nodeID)
		if kind == "stale" {
			key = victim.key
			n = time.Now().Add(-16 * time.Minute).UnixNano()
		}
		switch endpoint {
		case "update":
			req := poolUpdateReq(b.agentIDs())
			_, err = s.pool.Update(rpcCtx(), mustSign(key, "vipnode_update", victim.nodeID, n, req), victim.nodeID, n, req)
		case "peer":
			req := poolPeerReq(1)
			_, err = s.pool.Peer(rpcCtx(), mustSign(key, "vipnode_peer", victim.nodeID, n, req), victim.nodeID, n, req)
		case "connect":
			req := s.connectReq(false, "geth", "")
			_, err = s.pool.Connect(rpcCtx(), mustSign(key, "vipnode_connect", victim.nodeID, n, req), victim.nodeID, n, req)
		}
	default:
		w := walletIdent(rapid.IntRange(0, 1).Draw(rt, "wallet"))
		wkey := walletIdent(2).key
		n := s.nonce(w.addr)
		if kind == "stale" {
			wkey = w.key
			n = time.Now().Add(-16 * time.Minute).UnixNano()
		}
		if endpoint == "addNode" {
			err = s.pay.AddNode(rpcCtx(), mustSign(wkey, "pool_addNode", w.addr, n, victim.nodeID), w.addr, n, victim.nodeID)
		} else {
			err = s.pay.Withdraw(rpcCtx(), mustSign(wkey, "pool_withdraw", w.addr, n), w.addr, n)
		}
	}
	b.logf("refused %s (%s) against %s -> %v", endpoint, kind, victim.name, err)
	if classifyErr(err).Kind != "verify" {
		b.fail("%s request with %s was not refused by verification: %v", endpoint, kind, err)
	}
	b.classes["refused"] = true
}

func (b *billing) opWithdraw() {
	rt, s := b.rt, b.s
	w := walletIdent(rapid.IntRange(0, 1).Draw(rt, "wallet"))
	a := store.Account(w.addr)
	failSettle := rapid.IntRange(0, 3).Draw(rt, "settleFails") == 0
	// sometimes the wallet earns more while the (slow, on-chain) settlement is in flight
	during := new(big.Int)
	if rapid.IntRange(0, 2).Draw(rt, "accrueDuringSettle") == 0 {
		during = big.NewInt(int64(rapid.SampledFrom([]int{1, 300, 1000000}).Draw(rt, "during")))
	}
	s.mu.Lock()
	s.settleHook = func(acct store.Account, _ *big.Int) error {
		if during.Sign() != 0 {
			if err := s.st.AddAccountBalance(acct, during); err != nil {
				return err
			}
		}
		if failSettle {
			return errScripted
		}
		return nil
	}
	n0 := len(s.settleLog)
	s.mu.Unlock()
	mb, _ := s.model.st.GetAccountBalance(a)
	credit := new(big.Int).Set(&mb.Credit)
	total := new(big.Int).Set(credit)
	if d, ok := s.model.deposits[a]; ok && s.cfg.Deposits {
		total.Add(total, d)
	}
	executes := !(s.cfg.WithdrawMin != nil && total.Cmp(s.cfg.WithdrawMin) < 0) && !failSettle
	err := s.withdraw(w)
	b.logf("withdraw %s (credit %s, total %s, settleFails=%v, +%s credited while settling) -> %v", w.name, credit, total, failSettle, during, err)
	if !(s.cfg.WithdrawMin != nil && total.Cmp(s.cfg.WithdrawMin) < 0) && during.Sign() != 0 {
		// the settle handler ran: the credit it granted is on the books whatever the outcome
		s.model.st.AddAccountBalance(a, during)
		s.model.granted.Add(s.model.granted, during)
		b.classes["accrual-during-settle"] = true
	}
	if classifyErr(err).Kind == "verify" {
		b.fail("correctly signed withdraw refused: %v", err)
	}
	if (err == nil) != executes {
		b.fail("withdraw of %s: got err=%v, model says executes=%v (total %s, minimum %v, settle fails %v)", w.name, err, executes, total, s.cfg.WithdrawMin, failSettle)
	}
	if executes {
		s.model.st.AddAccountBalance(a, new(big.Int).Neg(credit))
		s.model.settled.Add(s.model.settled, credit)
		if s.cfg.Deposits {
			s.model.deposits[a] = new(big.Int)
		}
		b.classes["withdrawal"] = true
	} else {
		b.classes["withdraw-failed"] = true
	}
	_ = n0
}

func poolUpdateReq(ids []string) pool.UpdateRequest {
	return pool.UpdateRequest{PeerInfo: peerInfos(ids, false), BlockNumber: 1}
}

func poolPeerReq(n int) pool.PeerRequest { return pool.PeerRequest{Num: n} }

func billingCase(rt *rapid.T, prop string, rec *vt.Rec) {
	cfg := genBillCfg(rt, prop)
	nAgents := 5
	b := &billing{rt: rt, prop: prop, classes: map[string]bool{}, nAgents: nAgents}
	b.s = newSession(rt, cfg, nAgents)
	defer b.s.close()
	// hosts may answer a disconnect instruction with an error or slowly: every connected host peer must be asked anyway
	disconnectMode := make([]string, nAgents)
	for i := range disconnectMode {
		disconnectMode[i] = rapid.SampledFrom([]string{"ok", "ok", "error", "slow"}).Draw(rt, "disconnectMode")
	}
	b.s.behave = func(hostIdx, connID int, method, arg string) (time.Duration, error) {
		if method != "disconnect" {
			return 0, nil
		}
		switch disconnectMode[hostIdx] {
		case "error":
			return 0, errScripted
		case "slow":
			return 2 * time.Second, nil
		}
		return 0, nil
	}
	for i := 0; i < nAgents; i++ {
		r := billAgent{isHost: i < 2, kind: rapid.SampledFrom([]string{"geth", "geth", "parity"}).Draw(rt, "kind"), wallet: rapid.IntRange(-1, 1).Draw(rt, "wallet")}
		if i == 2 {
			r.isHost = rapid.Bool().Draw(rt, "role2")
		}
		b.roles = append(b.roles, r)
	}
	ops := map[string]func(){
		"connect": b.opConnect, "close": b.opClose, "update": b.opUpdate, "steeredUpdate": b.opSteeredUpdate, "advance": b.opAdvance,
		"peer": b.opPeer, "addNode": b.opAddNode, "grant": b.opGrant, "deposit": b.opDeposit, "refused": b.opRefused, "withdraw": b.opWithdraw,
	}
	weights := []string{"connect", "connect", "connect", "update", "update", "update", "update", "advance", "advance", "advance", "peer", "addNode", "grant", "deposit", "refused", "withdraw", "close"}
	if prop == "C03" {
		weights = append(weights, "steeredUpdate", "steeredUpdate", "steeredUpdate", "steeredUpdate")
	} else {
		weights = append(weights, "steeredUpdate")
	}
	// start with a populated pool so that histories are not dominated by setup
	for i := 0; i < nAgents; i++ {
		if rapid.IntRange(0, 4).Draw(rt, "preconnect") > 0 {
			b.doConnect(i, b.roles[i].isHost, "")
		}
	}
	b.checkState("setup")
	n := rapid.IntRange(6, 30).Draw(rt, "steps")
	for k := 0; k < n; k++ {
		op := rapid.SampledFrom(weights).Draw(rt, "op")
		ops[op]()
		b.kinds = append(b.kinds, op)
		b.checkState(op)
	}
	nontrivial := false
	switch prop {
	case "C01":
		nontrivial = b.classes["billed"] && (b.classes["cutoff"] || b.classes["link-after-trial-credit"] || b.classes["withdrawal"] || b.classes["refused"] || b.classes["reconnect"] || b.classes["connect-refused"])
	case "C02":
		nontrivial = b.classes["billed"]
	case "C03":
		nontrivial = b.classes["steered"] || b.classes["cutoff"] || b.classes["connect-refused"]
	}
	var cl []string
	for k := range b.classes {
		cl = append(cl, k)
	}
	cl = sortedCopy(cl)
	sig := cfg.String() + "|" + strings.Join(b.kinds, ",") + "|" + strings.Join(cl, ",")
	rec.Case(sig, nontrivial, append(cl, "driver:"+cfg.Driver), func() interface{} {
		return map[string]interface{}{"config": cfg.String(), "history": b.hist, "classes": cl}
	})
}

func runBilling(t *testing.T, prop string) {
	defer vt.Watch("billing/"+prop, 120*time.Second)()
	rec := vt.For(prop)
	check(t, func(rt *rapid.T) {
		rapid.SyncTest(rt, func(rt *rapid.T) { billingCase(rt, prop, rec) })
	})
}
