package props

// C15 against the shipped binary: hostile frames over a real WebSocket and
// hostile bodies over HTTP to `vipnode pool` (built with the race detector),
// so that server.go, the gorilla codec and the HTTP server are inside the loop.

import (
	"bytes"
	"context"
	"encoding/json"
	"fmt"
	"io"
	"net/http"
	"os"
	"strings"
	"testing"
	"time"

	"github.com/gorilla/websocket"
	"pgregory.net/rapid"

	"verif/vt"
)

func TestC15Binary(t *testing.T) {
	rec := vt.For("C15")
	rec.Rule("T5 binary: the `vipnode pool` binary (race detector on) receives over one WebSocket a generated series of frames - well-formed requests with hostile typed values (text or binary frames), raw garbage frames, 1 MB frames, and bursts of 10-150 pipelined vipnode_ping requests written without reading - and hostile bodies over HTTP; oracle: the process stays alive with no 'panic' / 'fatal error' / 'DATA RACE' on stderr, every well-formed request on a connection that has only seen well-formed requests gets a reply with its own id and a result or an error within 10 s (bursts: all ids, any order), and after every frame another client's vipnode_ping over HTTP is answered; non-trivial = a well-formed request or a burst; distinct by frame kinds")
	os.Setenv("VERIF_BINARY_RACE", "1")
	p := startPool(t)
	defer p.stop()
	check(t, func(rt *rapid.T) {
		var hist []string
		fail := func(f string, a ...interface{}) {
			rt.Fatalf("%s\nframes so far:\n  %s\npool log tail:\n%s", fmt.Sprintf(f, a...), strings.Join(hist, "\n  "), tailLines(p.log(), 25))
		}
		var conn *websocket.Conn
		healthy := false
		dial := func() {
			if conn != nil {
				conn.Close()
			}
			c, _, err := websocket.DefaultDialer.Dial("ws://"+p.addr+"/", nil)
			if err != nil {
				fail("cannot open a WebSocket to the pool any more: %v", err)
			}
			conn, healthy = c, true
		}
		defer func() {
			if conn != nil {
				conn.Close()
			}
		}()
		// readReply reads until a reply with one of the wanted ids arrives (requests the pool sends us are skipped)
		readReplies := func(want map[string]bool, what string) {
			deadline := time.Now().Add(10 * time.Second)
			for len(want) > 0 {
				conn.SetReadDeadline(deadline)
				_, data, err := conn.ReadMessage()
				if err != nil {
					fail("%s: %d replies still missing after %v: %v", what, len(want), 10*time.Second, err)
				}
				var m struct {
					ID     json.RawMessage `json:"id"`
					Method string          `json:"method"`
					Result json.RawMessage `json:"result"`
					Error  json.RawMessage `json:"error"`
				}
				if err := json.Unmarshal(data, &m); err != nil {
					fail("%s: the pool sent a frame that is not JSON: %.200q", what, data)
				}
				if m.Method != "" {
					continue // a reverse request (we may have registered as a host)
				}
				k := compactJSON(string(m.ID))
				if !want[k] {
					continue
				}
				if len(m.Result) == 0 && (len(m.Error) == 0 || string(m.Error) == "null") {
					fail("%s: reply %.200s has neither result nor error", what, data)
				}
				delete(want, k)
			}
		}
		control := func(after string) {
			log := p.log()
			for _, bad := range []string{"panic:", "http: panic serving", "fatal error:", "WARNING: DATA RACE"} { // (net/http recovers a handler's panic and logs it: still a panic)
				if i := strings.Index(log, bad); i >= 0 {
					fail("after %s the pool binary reported %q:\n%.5000s", after, bad, log[i:])
				}
			}
			ctx, cancel := context.WithTimeout(context.Background(), 10*time.Second)
			defer cancel()
			var pong string
			if err := httpClient(p.addr).Call(ctx, &pong, "vipnode_ping"); err != nil || pong != "pong" {
				fail("after %s another client's vipnode_ping over HTTP is not answered: %v", after, err)
			}
		}
		var kinds []string
		nontrivial := false
		n := rapid.IntRange(1, 6).Draw(rt, "frames")
		for i := 0; i < n; i++ {
			kind := rapid.SampledFrom([]string{"request", "request", "request", "raw", "burst", "big", "http", "httpdoc", "badframe"}).Draw(rt, "kind")
			kinds = append(kinds, kind)
			if conn == nil || !healthy {
				dial()
			}
			switch kind {
			case "request":
				method, params := genHostileCall(rt)
				pj, _ := json.Marshal(params)
				mj, _ := json.Marshal(method)
				id := fmt.Sprintf("%d", 100+i)
				body := fmt.Sprintf(`{"jsonrpc":"2.0","id":%s,"method":%s,"params":%s}`, id, mj, pj)
				ft := websocket.TextMessage
				if rapid.IntRange(0, 3).Draw(rt, "binaryFrame") == 0 {
					ft = websocket.BinaryMessage
				}
				hist = append(hist, fmt.Sprintf("request (frame type %d): %.300s", ft, body))
				if err := conn.WriteMessage(ft, []byte(body)); err != nil {
					fail("write: %v", err)
				}
				readReplies(map[string]bool{id: true}, "well-formed request "+method)
				nontrivial = true
			case "burst":
				k := rapid.IntRange(10, 150).Draw(rt, "burst")
				pad := strings.Repeat("p", rapid.SampledFrom([]int{0, 100, 4000}).Draw(rt, "pad"))
				want := map[string]bool{}
				hist = append(hist, fmt.Sprintf("burst of %d pipelined vipnode_ping requests (id padding %d)", k, len(pad)))
				for j := 0; j < k; j++ {
					id := fmt.Sprintf(`"b%d-%d%s"`, i, j, pad)
					want[id] = true
					if err := conn.WriteMessage(websocket.TextMessage, []byte(fmt.Sprintf(`{"jsonrpc":"2.0","id":%s,"method":"vipnode_ping"}`, id))); err != nil {
						fail("burst write %d: %v", j, err)
					}
				}
				readReplies(want, fmt.Sprintf("burst of %d pipelined requests", k))
				nontrivial = true
			case "raw":
				b, wellFormed := genRawBytes(rt)
				hist = append(hist, fmt.Sprintf("raw frame: %.200q", b))
				conn.WriteMessage(websocket.TextMessage, b)
				if !wellFormed {
					healthy = false // the pool may hang up on garbage; that costs the sender its own connection only
				} else {
					healthy = false // (replies not awaited here)
				}
			case "big":
				b := []byte(strings.Repeat(rapid.SampledFrom([]string{"[", "{\"a\":", "9", "\"x\","}).Draw(rt, "unit"), 1<<18))
				hist = append(hist, fmt.Sprintf("big frame of %d bytes", len(b)))
				conn.WriteMessage(websocket.TextMessage, b)
				healthy = false
			case "badframe":
				// bytes that break the WebSocket framing rules themselves (reserved bits, unknown opcode, an unmasked
				// client frame, an oversized control frame, a continuation of nothing, a close frame with a reserved
				// code), written straight onto the TCP connection: this connection is lost, the process is not
				frame := rapid.SampledFrom([][]byte{
					{0xF1, 0x80, 1, 2, 3, 4},
					{0x83, 0x80, 1, 2, 3, 4},
					{0x81, 0x01, 'x'},
					append([]byte{0x89, 0xFE, 0x00, 0x7E, 1, 2, 3, 4}, make([]byte, 126)...),
					{0x80, 0x80, 1, 2, 3, 4},
					{0x88, 0x82, 0, 0, 0, 0, 0x03, 0xED},
				}).Draw(rt, "badFrame")
				hist = append(hist, fmt.Sprintf("bytes that violate the WebSocket framing: % x", frame[:min(len(frame), 12)]))
				conn.UnderlyingConn().Write(frame)
				healthy = false
				time.Sleep(150 * time.Millisecond) // let the pool deal with it before the log is looked at
			case "httpdoc":
				// a valid JSON document that is not a request (a stray reply, an empty object, a bare value, a batch):
				// over HTTP it gets some answer or none, but it does not make the handler panic
				doc := rapid.SampledFrom([]string{`{"id":7}`, `{}`, `null`, `[]`, `7`, `"x"`, `true`, `{"jsonrpc":"2.0","id":7,"result":1}`, `{"jsonrpc":"2.0","id":8,"error":{"code":1,"message":"m"}}`, `[{"jsonrpc":"2.0","id":1,"method":"vipnode_ping"}]`, `{"jsonrpc":"2.0"}`, `{"id":null}`, `{"params":[1]}`}).Draw(rt, "httpDoc")
				hist = append(hist, "HTTP POST of a JSON document that is not a request: "+doc)
				httpPostRaw(p.addr, []byte(doc))
			case "http":
				b, _ := genRawBytes(rt)
				hist = append(hist, fmt.Sprintf("HTTP POST body: %.200q", b))
				httpPostRaw(p.addr, b)
			}
			control(kind)
		}
		rec.Case("bin|"+strings.Join(kinds, ","), nontrivial, []string{"binary"}, func() interface{} {
			return map[string]interface{}{"target": "pool binary over WebSocket/HTTP", "frames": hist}
		})
	})
}

func httpPostRaw(addr string, body []byte) {
	c := &http.Client{Timeout: 10 * time.Second}
	resp, err := c.Post("http://"+addr+"/", "application/json", bytes.NewReader(body))
	if err == nil {
		io.Copy(io.Discard, resp.Body)
		resp.Body.Close()
	}
}
