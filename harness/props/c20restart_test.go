package props

// C20 — "starting it again while running is refused": also for a Start that arrives right when an earlier run is
// being stopped. Real goroutines, real parallelism (statistical).

import (
	"sync"
	"testing"
	"time"

	"github.com/vipnode/vipnode/v2/agent"
	"github.com/vipnode/vipnode/v2/ethnode"
	"pgregory.net/rapid"

	"verif/vt"
)

func TestC20RestartRace(t *testing.T) {
	rec := vt.For("C20")
	rec.Rule("restart race (statistical, free-running): a running agent is stopped while 1-3 other goroutines keep calling Start until one succeeds (a supervisor that restarts the agent as soon as it can); once the new run is up and the old outcome has been collected, one more Start must be refused with ErrAlreadyStarted (the new run is running) and the pool has seen exactly one registration per accepted Start; 200-600 rounds per case; distinct by (starters, rounds)")
	check(t, func(rt *rapid.T) {
		node := &recNode{enode: "enode://" + hexID(99) + "@[::]:30303", ua: ethnode.UserAgent{Version: "v", Kind: ethnode.Geth, IsFullNode: true, Network: 1}}
		sp := &scriptPool{}
		a := &agent.Agent{EthNode: node, UpdateInterval: time.Hour, NumHosts: 0}
		if err := a.Start(sp); err != nil {
			rt.Fatalf("start: %v", err)
		}
		starters := rapid.IntRange(1, 3).Draw(rt, "starters")
		rounds := rapid.SampledFrom([]int{200, 400, 600}).Draw(rt, "rounds")
		accepted := 1
		for r := 0; r < rounds; r++ {
			var wg sync.WaitGroup
			var mu sync.Mutex
			won := 0
			stopSpin := make(chan struct{})
			for s := 0; s < starters; s++ {
				wg.Add(1)
				go func() {
					defer wg.Done()
					for {
						select {
						case <-stopSpin:
							return
						default:
						}
						if err := a.Start(sp); err == nil {
							mu.Lock()
							won++
							mu.Unlock()
							return
						} else if err != agent.ErrAlreadyStarted {
							return
						}
					}
				}()
			}
			a.Stop()
			if err := a.Wait(); err != nil { // the stopped run's outcome
				rt.Fatalf("round %d: Wait after Stop: %v", r, err)
			}
			// wait until one starter has got in
			deadline := time.Now().Add(20 * time.Second)
			for {
				mu.Lock()
				w := won
				mu.Unlock()
				if w > 0 || time.Now().After(deadline) {
					break
				}
				time.Sleep(50 * time.Microsecond)
			}
			close(stopSpin)
			wg.Wait()
			mu.Lock()
			w := won
			mu.Unlock()
			if w == 0 {
				rt.Fatalf("round %d: no Start got through within 20 s after the agent was stopped", r)
			}
			accepted += w
			if w > 1 {
				rt.Fatalf("round %d: %d concurrent Starts were accepted after one Stop: more than one keep-alive loop is running", r, w)
			}
			// the new run is up: one more Start must be refused
			if err := a.Start(sp); err != agent.ErrAlreadyStarted {
				if err == nil {
					accepted++
				}
				rt.Fatalf("round %d: the agent was stopped and started again by a concurrent Start; a further Start returned %v, want ErrAlreadyStarted (a second keep-alive loop now runs next to the first)", r, err)
			}
		}
		a.Stop()
		a.Wait()
		if n := sp.count("connect"); n != accepted {
			rt.Fatalf("%d Starts were accepted, the pool saw %d registrations", accepted, n)
		}
		rec.Case("restartrace", true, []string{"restart-race"}, func() interface{} {
			return map[string]interface{}{"kind": "restart race", "starters": starters, "rounds": rounds, "accepted_starts": accepted}
		})
	})
}
