package props

import (
	"crypto/sha256"
	"testing"

	"pgregory.net/rapid"
)

// Coverage-guided twins of the rapid properties (thorough tier only).
//
// Every property test hands its property to check(); normally that is
// rapid.Check (random generation from -rapid.seed, shrinking, fail files).
// fuzzVia runs the same Test function in "capture" mode, takes the property it
// would have checked and gives it to Go's native fuzzer through
// rapid.MakeFuzz: the fuzzer's bytes become rapid's random bit stream, so the
// mutation engine steers the SAME generators and the SAME oracle by the
// coverage of the code under test (all cores) instead of by a PRNG. A crasher
// lands in testdata/fuzz/<Fuzz…>/ and is the replay file.

var (
	capturing    bool
	capturedProp func(*rapid.T)
)

func check(t *testing.T, prop func(*rapid.T)) {
	if capturing {
		capturedProp = prop
		return
	}
	rapid.Check(t, prop)
}

// fuzzSeeds gives the mutation engine bit streams long enough for whole cases:
// without them every input starts as "ran out of random data" (skipped).
func fuzzSeeds(f *testing.F) {
	for _, n := range []int{64, 512, 4096, 32768} {
		for k := 0; k < 3; k++ {
			buf := make([]byte, 0, n+32)
			h := sha256.Sum256([]byte{byte(n), byte(n >> 8), byte(k)})
			for len(buf) < n {
				buf = append(buf, h[:]...)
				h = sha256.Sum256(h[:])
			}
			f.Add(buf[:n])
		}
	}
	f.Add(make([]byte, 4096)) // all draws minimal
	ones := make([]byte, 4096)
	for i := range ones {
		ones[i] = 0xff
	}
	f.Add(ones) // all draws maximal
}

func fuzzVia(f *testing.F, test func(*testing.T)) {
	capturing, capturedProp = true, nil
	test(nil) // capture mode: the Test function only states its rule and hands over the property
	capturing = false
	prop := capturedProp
	if prop == nil {
		f.Fatal("fuzzVia: the test did not hand over a property")
	}
	fuzzSeeds(f)
	run := rapid.MakeFuzz(prop)
	f.Fuzz(func(t *testing.T, input []byte) {
		// A case that runs out of random data in the middle of a history is abandoned by rapid with a panic; inside a
		// bubble that leaves the case's goroutines behind and synctest reports a deadlock - a failure of the harness's
		// making (rapid.Check never runs out while generating). The fuzzer's bytes are therefore followed by zeros:
		// every further draw takes its minimal value, so the history winds down by itself.
		padded := make([]byte, len(input)+fuzzPad)
		copy(padded, input)
		run(t, padded)
	})
}

const fuzzPad = 128 << 10

func FuzzC02Manager(f *testing.F)         { fuzzVia(f, TestC02Manager) }
func FuzzC03OnClient(f *testing.F)        { fuzzVia(f, TestC03OnClient) }
func FuzzC04SignedEndpoints(f *testing.F) { fuzzVia(f, TestC04SignedEndpoints) }
func FuzzC05NonceStore(f *testing.F)      { fuzzVia(f, TestC05NonceStore) }
func FuzzC06Refused(f *testing.F)         { fuzzVia(f, TestC06RefusedChangesNothing) }
func FuzzC08PeerRequests(f *testing.F)    { fuzzVia(f, TestC08PeerRequests) }
func FuzzC09HostRegistry(f *testing.F)    { fuzzVia(f, TestC09HostRegistry) }
func FuzzC11PeerExpiry(f *testing.F)      { fuzzVia(f, TestC11PeerExpiry) }
func FuzzC12Lockstep(f *testing.F)        { fuzzVia(f, TestC12Lockstep) }
func FuzzC15Structured(f *testing.F)      { fuzzVia(f, TestC15Structured) }
func FuzzC15HostileReplies(f *testing.F)  { fuzzVia(f, TestC15HostileReplies) }
func FuzzC16Library(f *testing.F)         { fuzzVia(f, TestC16Library) }
func FuzzC18AgentRound(f *testing.F)      { fuzzVia(f, TestC18AgentRound) }
func FuzzC19NodeURI(f *testing.F)         { fuzzVia(f, TestC19NodeURI) }
func FuzzC19Reregistration(f *testing.F)  { fuzzVia(f, TestC19Reregistration) }
func FuzzC20AgentLifecycle(f *testing.F)  { fuzzVia(f, TestC20AgentLifecycle) }
func FuzzC01Ledger(f *testing.F)          { fuzzVia(f, TestC01Ledger) }
func FuzzC07Withdraw(f *testing.F)        { fuzzVia(f, TestC07Withdraw) }
func FuzzC10Snapshots(f *testing.F)       { fuzzVia(f, TestC10Snapshots) }
func FuzzC14Controlled(f *testing.F)      { fuzzVia(f, TestC14Controlled) }
