package props

// C07 at the level of the pool binary in contract mode: the command-line wiring of the operator key store, the
// chain RPC endpoint, the contract proxy and the payment service - driven over HTTP against the real contract on a
// simulated chain that the harness serves over WebSocket JSON-RPC.

import (
	"context"
	"crypto/ecdsa"
	"fmt"
	"math/big"
	"net/http/httptest"
	"os"
	"path/filepath"
	"strings"
	"testing"
	"time"

	"github.com/dgraph-io/badger/v2"
	ethereum "github.com/ethereum/go-ethereum"
	"github.com/ethereum/go-ethereum/accounts/abi/bind"
	"github.com/ethereum/go-ethereum/accounts/abi/bind/backends"
	"github.com/ethereum/go-ethereum/accounts/keystore"
	"github.com/ethereum/go-ethereum/common"
	"github.com/ethereum/go-ethereum/common/hexutil"
	"github.com/ethereum/go-ethereum/core"
	"github.com/ethereum/go-ethereum/core/types"
	"github.com/ethereum/go-ethereum/crypto"
	"github.com/ethereum/go-ethereum/eth/filters"
	"github.com/ethereum/go-ethereum/rlp"
	"github.com/ethereum/go-ethereum/rpc"
	"github.com/pborman/uuid"
	"github.com/vipnode/vipnode-contract/go/vipnodepool"
	"github.com/vipnode/vipnode/v2/pool/store"
	badgerstore "github.com/vipnode/vipnode/v2/pool/store/badger"
	"pgregory.net/rapid"

	"verif/vt"
)

// ChainNetAPI / ChainEthAPI: the handful of JSON-RPC methods ethclient needs, answered by the simulated backend.
type ChainNetAPI struct{}

func (ChainNetAPI) Version() string { return "1" }

type ChainEthAPI struct{ b *backends.SimulatedBackend }

type chainCallArgs struct {
	From     *common.Address `json:"from"`
	To       *common.Address `json:"to"`
	Gas      *hexutil.Uint64 `json:"gas"`
	GasPrice *hexutil.Big    `json:"gasPrice"`
	Value    *hexutil.Big    `json:"value"`
	Data     *hexutil.Bytes  `json:"data"`
}

func (a chainCallArgs) msg() ethereum.CallMsg {
	m := ethereum.CallMsg{To: a.To}
	if a.From != nil {
		m.From = *a.From
	}
	if a.Gas != nil {
		m.Gas = uint64(*a.Gas)
	}
	if a.GasPrice != nil {
		m.GasPrice = (*big.Int)(a.GasPrice)
	}
	if a.Value != nil {
		m.Value = (*big.Int)(a.Value)
	}
	if a.Data != nil {
		m.Data = *a.Data
	}
	return m
}

func (e *ChainEthAPI) Call(ctx context.Context, args chainCallArgs, blockNr rpc.BlockNumber) (hexutil.Bytes, error) {
	if blockNr == rpc.PendingBlockNumber {
		return e.b.PendingCallContract(ctx, args.msg())
	}
	return e.b.CallContract(ctx, args.msg(), nil)
}
func (e *ChainEthAPI) GetCode(ctx context.Context, addr common.Address, blockNr rpc.BlockNumber) (hexutil.Bytes, error) {
	if blockNr == rpc.PendingBlockNumber {
		return e.b.PendingCodeAt(ctx, addr)
	}
	return e.b.CodeAt(ctx, addr, nil)
}
func (e *ChainEthAPI) GetTransactionCount(ctx context.Context, addr common.Address, blockNr rpc.BlockNumber) (*hexutil.Uint64, error) {
	n, err := e.b.PendingNonceAt(ctx, addr)
	return (*hexutil.Uint64)(&n), err
}
func (e *ChainEthAPI) GasPrice(ctx context.Context) (*hexutil.Big, error) {
	p, err := e.b.SuggestGasPrice(ctx)
	return (*hexutil.Big)(p), err
}
func (e *ChainEthAPI) EstimateGas(ctx context.Context, args chainCallArgs) (hexutil.Uint64, error) {
	g, err := e.b.EstimateGas(ctx, args.msg())
	return hexutil.Uint64(g), err
}
func (e *ChainEthAPI) SendRawTransaction(ctx context.Context, data hexutil.Bytes) (common.Hash, error) {
	tx := new(types.Transaction)
	if err := rlp.DecodeBytes(data, tx); err != nil {
		return common.Hash{}, err
	}
	return tx.Hash(), e.b.SendTransaction(ctx, tx)
}
func (e *ChainEthAPI) GetBalance(ctx context.Context, addr common.Address, blockNr rpc.BlockNumber) (*hexutil.Big, error) {
	b, err := e.b.BalanceAt(ctx, addr, nil)
	return (*hexutil.Big)(b), err
}
func (e *ChainEthAPI) GetLogs(ctx context.Context, crit filters.FilterCriteria) ([]types.Log, error) {
	return e.b.FilterLogs(ctx, ethereum.FilterQuery(crit))
}

// Logs serves eth_subscribe("logs", ...).
func (e *ChainEthAPI) Logs(ctx context.Context, crit filters.FilterCriteria) (*rpc.Subscription, error) {
	notifier, ok := rpc.NotifierFromContext(ctx)
	if !ok {
		return nil, rpc.ErrNotificationsUnsupported
	}
	rpcSub := notifier.CreateSubscription()
	ch := make(chan types.Log, 64)
	sub, err := e.b.SubscribeFilterLogs(context.Background(), ethereum.FilterQuery(crit), ch)
	if err != nil {
		return nil, err
	}
	go func() {
		defer sub.Unsubscribe()
		for {
			select {
			case l := <-ch:
				notifier.Notify(rpcSub.ID, &l)
			case <-rpcSub.Err():
				return
			case <-notifier.Closed():
				return
			case <-sub.Err():
				return
			}
		}
	}()
	return rpcSub, nil
}

func writeKeystore(path string, key *ecdsa.PrivateKey, pass string) error {
	k := &keystore.Key{Id: uuid.NewRandom(), Address: crypto.PubkeyToAddress(key.PublicKey), PrivateKey: key}
	b, err := keystore.EncryptKey(k, pass, keystore.LightScryptN, keystore.LightScryptP)
	if err != nil {
		return err
	}
	return os.WriteFile(path, b, 0o600)
}

func finney(n int64) *big.Int { return new(big.Int).Mul(big.NewInt(n), big.NewInt(1e15)) }

func TestC07Binary(t *testing.T) {
	rec := vt.For("C07")
	rec.Rule("binary level, contract mode: `vipnode pool --store=persist --contract.address --contract.rpc --contract.keystore` (operator key in an encrypted key store, pass phrase in the environment) runs against the real pool contract on a simulated chain served by the harness over WebSocket JSON-RPC; the data directory is prepared with a generated credit for the wallet, the chain with generated deposits (the wallet's own, and another wallet's that decides whether the contract can pay); one or two signed pool_withdraw requests over HTTP, then a block; oracle: the withdrawal executes iff deposit+credit >= the binary's minimum (0.005 ETH) and the contract can pay; then the wallet's on-chain ether grows by exactly deposit+credit-0.0025 ETH, its on-chain deposit and stored credit are 0 and the second request pays nothing; otherwise the request fails, nothing is paid and deposit and stored credit (read from the data directory after stopping the pool) are unchanged; non-trivial = a withdrawal that executes or one the contract cannot pay; distinct by amounts")
	rec.Assume("the harness's JSON-RPC front end of the simulated chain implements only what ethclient needs here (eth_call, eth_estimateGas, eth_sendRawTransaction, eth_getTransactionCount, eth_gasPrice, eth_getCode, eth_getBalance, eth_getLogs, eth_subscribe logs, net_version = 1)")
	os.Setenv("KEYSTORE_PASSPHRASE", "verif-pass")
	check(t, func(rt *rapid.T) {
		operator, w, other := walletIdent(3), walletIdent(0), walletIdent(1)
		alloc := core.GenesisAlloc{}
		for _, x := range []ident{operator, w, other} {
			alloc[common.HexToAddress(x.addr)] = core.GenesisAccount{Balance: eth(1000)}
		}
		backend := backends.NewSimulatedBackend(alloc, 8000000)
		defer backend.Close()
		caddr, _, contract, err := vipnodepool.DeployVipnodePool(bind.NewKeyedTransactor(operator.key), backend, common.HexToAddress(operator.addr))
		if err != nil {
			rt.Fatalf("[setup failed] deploy: %v", err)
		}
		backend.Commit()
		dep := finney(rapid.SampledFrom([]int64{0, 3, 4, 6, 1000}).Draw(rt, "depositFinney"))
		cred := finney(rapid.SampledFrom([]int64{0, 2, 3, 10, 1500}).Draw(rt, "creditFinney"))
		otherDep := finney(rapid.SampledFrom([]int64{0, 0, 5, 3000}).Draw(rt, "otherWalletsDepositFinney"))
		for _, d := range []struct {
			who ident
			amt *big.Int
		}{{w, dep}, {other, otherDep}} {
			if d.amt.Sign() == 0 {
				continue
			}
			o := bind.NewKeyedTransactor(d.who.key)
			o.Value = d.amt
			if _, err := contract.AddBalance(o); err != nil {
				rt.Fatalf("[setup failed] deposit: %v", err)
			}
			backend.Commit()
		}
		dir := tempDir("c07-bin-")
		defer removeAll(dir)
		dataDir := filepath.Join(dir, "data")
		os.MkdirAll(dataDir, 0o700)
		acct := w.addr
		if rapid.Bool().Draw(rt, "lowerCaseSpelling") {
			acct = strings.ToLower(w.addr)
		}
		openData := func() (store.Store, error) {
			return badgerstore.Open(badger.DefaultOptions(dataDir).WithTruncate(true).WithMaxCacheSize(1 << 20).WithMaxTableSize(1 << 20).WithLogger(nil))
		}
		st, err := openData()
		if err != nil {
			rt.Fatalf("[setup failed] open data dir: %v", err)
		}
		if cred.Sign() != 0 {
			if err := st.AddAccountBalance(store.Account(acct), cred); err != nil {
				rt.Fatalf("[setup failed] credit: %v", err)
			}
		}
		closeStore(st)
		keyFile := filepath.Join(dir, "operator.json")
		if err := writeKeystore(keyFile, operator.key, "verif-pass"); err != nil {
			rt.Fatalf("[setup failed] key store: %v", err)
		}
		srv := rpc.NewServer()
		defer srv.Stop()
		if err := srv.RegisterName("eth", &ChainEthAPI{backend}); err != nil {
			rt.Fatalf("[setup failed] %v", err)
		}
		srv.RegisterName("net", ChainNetAPI{})
		ts := httptest.NewServer(srv.WebsocketHandler([]string{"*"}))
		defer ts.Close()
		p := startPool(rt, "--store=persist", "--datadir="+dataDir, "--contract.address=mainnet://"+caddr.Hex(), "--contract.rpc=ws"+strings.TrimPrefix(ts.URL, "http"), "--contract.keystore="+keyFile)
		stopped := false
		defer func() {
			if !stopped {
				p.stop()
			}
		}()
		chainBal := func(a string) *big.Int {
			b, _ := backend.BalanceAt(context.Background(), common.HexToAddress(a), nil)
			return b
		}
		onChainDeposit := func() *big.Int {
			r, err := contract.Accounts(nil, common.HexToAddress(w.addr))
			if err != nil {
				rt.Fatalf("Accounts: %v", err)
			}
			return r.Balance
		}
		funds := chainBal(caddr.Hex())
		before := chainBal(w.addr)
		owed := new(big.Int).Add(dep, cred)
		pays := new(big.Int).Sub(owed, finney(0).Add(big.NewInt(2500000000000000), big.NewInt(0)))
		executes := owed.Cmp(big.NewInt(5000000000000000)) >= 0 && pays.Cmp(funds) <= 0
		twice := rapid.Bool().Draw(rt, "askTwice")
		nonce := time.Now().UnixNano()
		var errs []error
		for i := 0; i < 1+map[bool]int{true: 1, false: 0}[twice]; i++ {
			nonce++
			ctx, cancel := context.WithTimeout(context.Background(), 30*time.Second)
			err := httpClient(p.addr).Call(ctx, nil, "pool_withdraw", mustSign(w.key, "pool_withdraw", acct, nonce), acct, nonce)
			cancel()
			errs = append(errs, err)
		}
		backend.Commit()
		got := new(big.Int).Sub(chainBal(w.addr), before)
		depAfter := onChainDeposit()
		p.stop()
		stopped = true
		st, err = openData()
		if err != nil {
			rt.Fatalf("open data dir after the pool stopped: %v", err)
		}
		b, berr := st.GetAccountBalance(store.Account(acct))
		closeStore(st)
		if berr != nil {
			rt.Fatalf("GetAccountBalance: %v", berr)
		}
		desc := fmt.Sprintf("wallet %s (as %s): deposit %s + stored credit %s = %s owed, would be paid %s; contract holds %s; requests -> %v; received %s on chain, on-chain deposit now %s, stored credit now %s\npool log tail:\n%s", w.name, acct, dep, cred, owed, pays, funds, errs, got, depAfter, b.Credit.String(), tailLines(p.log(), 12))
		if p.died() && false {
			rt.Fatalf("the pool process died: %s", desc)
		}
		if classifyErr(errs[0]).Kind == "verify" {
			rt.Fatalf("correctly signed withdraw refused by verification: %s", desc)
		}
		if executes {
			if errs[0] != nil {
				rt.Fatalf("a withdrawal that is due (balance at or above the minimum, contract can pay) failed: %s", desc)
			}
			if got.Cmp(pays) != 0 || depAfter.Sign() != 0 || b.Credit.Sign() != 0 {
				rt.Fatalf("the withdrawal must pay exactly %s once and leave nothing: %s", pays, desc)
			}
		} else {
			if errs[0] == nil {
				rt.Fatalf("a withdrawal that cannot be carried out (below the minimum, or more than the contract holds) was acknowledged: %s", desc)
			}
			if got.Sign() != 0 || depAfter.Cmp(dep) != 0 || b.Credit.Cmp(cred) != 0 {
				rt.Fatalf("a refused withdrawal must change nothing: %s", desc)
			}
		}
		outcome := "refused:below-minimum"
		if executes {
			outcome = "paid"
		} else if owed.Cmp(big.NewInt(5000000000000000)) >= 0 {
			outcome = "refused:contract-cannot-pay"
		}
		rec.Case(fmt.Sprintf("c07bin|%s|%s|%s|%v", dep, cred, otherDep, twice), outcome != "refused:below-minimum", []string{"contract-binary", "contract-binary:" + outcome, fmt.Sprintf("contract-binary:asked-twice:%v", twice)}, func() interface{} {
			return map[string]interface{}{"kind": "pool binary in contract mode", "deposit": dep.String(), "stored_credit": cred.String(), "other_deposits": otherDep.String(), "asked_twice": twice, "outcome": outcome, "received": got.String()}
		})
	})
}
