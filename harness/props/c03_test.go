package props

import "testing"

// C03 — minimum balance: clients below it are refused and cut off, others never are.
func TestC03MinBalance(t *testing.T) {
	vtRule("C03", "rapid-generated pool histories with a minimum from {off,-3,0,1,1000,10^6}, deposit/credit splits, and 'steered' keep-alives that put the client's balance at exactly min+delta (delta in {-1,0,+1}) after the charge; oracle: connect refused <=> deposit+credit < min (clients only), billing keep-alive cut off <=> balance after the charge < min, reported balance == actual balance, disconnect sent exactly to the client's connected host peers, hosts never refused, min off/satisfied never refused; non-trivial = a steered keep-alive, a cut-off or a refused connect; distinct by config + op sequence")
	runBilling(t, "C03")
}
