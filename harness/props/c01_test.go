package props

import "testing"

// C01 — the pool ledger is zero-sum (sequential histories; concurrent parts in c01conc_test.go).
func TestC01Ledger(t *testing.T) {
	vtRule("C01", "rapid-generated pool histories (5 agents: hosts/clients, shared wallets, reconnects, role flips; connect, keep-alive with generated reported peers, peer request, pool_addNode linking/re-linking, refused requests, advance, grants, deposits, withdrawals ok/failed, steered low-balance cut-offs) on a generated config (driver memory/badger, price 1..2^64+3, interval 1ns..7min, minimum off/negative/0/small/huge, deposit overlay) in virtual time; after every operation: Stats.TotalCredit == own sum over wallets+trials == credit granted by the harness - credit settled by successful withdrawals, and every balance equals the billing model; non-trivial = at least one non-zero billing AND one of {cut-off, link after trial credit, withdrawal, refused request, reconnect, refused connect}; distinct by config + op sequence + classes")
	runBilling(t, "C01")
}
