package props

// C03 through the shipped binary: `vipnode pool --contract.min-balance=… --contract.price=…`
// is started and driven over real WebSocket connections, so that the option
// parsing and the wiring of the balance manager in package main are inside the loop.

import (
	"context"
	"fmt"
	"math/big"
	"testing"
	"time"

	"github.com/vipnode/vipnode/v2/ethnode"
	"github.com/vipnode/vipnode/v2/pool"
	"pgregory.net/rapid"

	"verif/vt"
)

type etherSpec struct {
	text string
	wei  string
}

func TestC03Binary(t *testing.T) {
	rec := vt.For("C03")
	rec.Rule("binary-level: `vipnode pool --store=memory` is started with a generated --contract.min-balance (off / negative / zero / positive, in wei and in units) and --contract.price; a host and a light client connect over WebSocket and send keep-alives in real time; oracle: the host is always admitted; the client is refused at connect iff the minimum is above its balance of 0, with the error reporting balance 0 and the configured minimum; a billed keep-alive is refused iff the balance it reports is below the minimum, the reported balance is consistent with price x measured real elapsed time (two-sided bounds), and after a cut-off the host receives vipnode_disconnect for the client; non-trivial = a minimum is configured; distinct by (min, price, outcome)")
	rec.Assume("real time: the charge is bounded from both sides by timestamps taken around the requests; a cut-off's vipnode_disconnect is awaited for up to 5 s")
	mins := []etherSpec{{"off", ""}, {"off", ""}, {"0", "0"}, {"1", "1"}, {"-1", "-1"}, {"1 gwei", "1000000000"}, {"-1 gwei", "-1000000000"}, {"0.005 ether", "5000000000000000"}, {"-250000000", "-250000000"}, {"-0.5 gwei", "-500000000"}, {"1wei", "1"}, {"-1 wei", "-1"}, {"1 kwei", "1000"}}
	prices := []etherSpec{{"", "100000000000"}, {"100 gwei", "100000000000"}, {"1 ether", "1000000000000000000"}, {"60000000000", "60000000000"}, {"6 gwei", "6000000000"}, {"6000000000 wei", "6000000000"}, {"6000000 kwei", "6000000000"}}
	check(t, func(rt *rapid.T) {
		min := rapid.SampledFrom(mins).Draw(rt, "min")
		price := rapid.SampledFrom(prices).Draw(rt, "price")
		var args []string
		if min.text != "off" || rapid.Bool().Draw(rt, "explicitOff") {
			args = append(args, "--contract.min-balance="+min.text)
		}
		if price.text != "" {
			args = append(args, "--contract.price="+price.text)
		}
		pp := startPool(rt, args...)
		defer pp.stop()
		var minWei *big.Int
		if min.wei != "" {
			minWei, _ = new(big.Int).SetString(min.wei, 10)
		}
		priceWei, _ := new(big.Int).SetString(price.wei, 10)
		fail := func(format string, a ...interface{}) {
			rt.Fatalf("%s\npool options: %v\npool log (tail):\n%s", fmt.Sprintf(format, a...), args, tailLines(pp.log(), 15))
		}
		ctx, cancel := context.WithTimeout(context.Background(), 30*time.Second)
		defer cancel()
		host, err := dialWS(pp.addr, nodeIdent(0), 1)
		if err != nil {
			fail("%s", pp.dialFailure(err))
		}
		defer host.end("")
		if err := host.connectHost(ctx); err != nil {
			fail("a full-node host must never be refused for its balance, connect failed: %v", err)
		}
		cli, err := dialWS(pp.addr, nodeIdent(2), 2)
		if err != nil {
			fail("%s", pp.dialFailure(err))
		}
		defer cli.end("")
		creq := pool.ConnectRequest{VipnodeVersion: "verif", NodeInfo: ethnode.UserAgent{Version: "Geth/verif", Kind: ethnode.Geth, IsFullNode: false, Network: 1}}
		n := time.Now().UnixNano()
		tConnect0 := time.Now()
		var cresp pool.ConnectResponse
		cerr := cli.remote.Call(ctx, &cresp, "vipnode_connect", mustSign(cli.id.key, "vipnode_connect", cli.id.nodeID, n, creq), cli.id.nodeID, n, creq)
		outcome := "admitted"
		wantRefuse := minWei != nil && minWei.Sign() > 0
		if cerr != nil {
			ec := classifyErr(cerr)
			if ec.Kind != "lowbalance" {
				fail("client connect failed with something other than the low-balance refusal: %v", cerr)
			}
			if !wantRefuse {
				fail("client with balance 0 refused at connect although the configured minimum is %s: %v", min.text, cerr)
			}
			if ec.Balance == nil || ec.Balance.Sign() != 0 || ec.Min == nil || ec.Min.Cmp(minWei) != 0 {
				fail("refusal must report the actual balance 0 and the configured minimum %s: %v", minWei, cerr)
			}
			outcome = "refused-at-connect"
		} else if wantRefuse {
			fail("client with balance 0 admitted although --contract.min-balance=%s (= %s wei) is configured", min.text, minWei)
		}
		cutoff := false
		if cerr == nil {
			hostID, cliID := host.id.nodeID, cli.id.nodeID
			update := func(a *wsAgent, peers []string, block uint64) (*pool.UpdateResponse, error) {
				req := pool.UpdateRequest{PeerInfo: peerInfos(peers, false), BlockNumber: block}
				n := time.Now().UnixNano()
				var resp pool.UpdateResponse
				err := a.remote.Call(ctx, &resp, "vipnode_update", mustSign(a.id.key, "vipnode_update", a.id.nodeID, n, req), a.id.nodeID, n, req)
				return &resp, err
			}
			if _, err := update(host, []string{cliID}, 1); err != nil {
				fail("host keep-alive: %v", err)
			}
			rttSum := time.Duration(0)
			for round := 1; round <= 2 && !cutoff; round++ {
				time.Sleep(time.Duration(rapid.IntRange(5, 80).Draw(rt, "pauseMs")) * time.Millisecond)
				tSent := time.Now()
				resp, err := update(cli, []string{hostID}, uint64(round))
				tDone := time.Now()
				rttSum += tDone.Sub(tSent)
				var bal *big.Int
				if err != nil {
					ec := classifyErr(err)
					if ec.Kind != "lowbalance" {
						fail("client keep-alive failed with something other than the low-balance cut-off: %v", err)
					}
					if minWei == nil {
						fail("client cut off although no minimum balance is configured: %v", err)
					}
					if ec.Min == nil || ec.Min.Cmp(minWei) != 0 {
						fail("cut-off reports minimum %v, configured is %s", ec.Min, minWei)
					}
					bal = ec.Balance
					if bal.Cmp(minWei) >= 0 {
						fail("client cut off with balance %s which is not below the minimum %s", bal, minWei)
					}
					cutoff = true
				} else {
					bal = new(big.Int).Add(&resp.Balance.Credit, &resp.Balance.Deposit)
					if minWei != nil && bal.Cmp(minWei) < 0 {
						fail("keep-alive accepted although it leaves the client at %s, below the minimum %s", bal, minWei)
					}
				}
				// the charge so far is price x (time since connect), one peer: bounded by the measured real time
				// (10 ms + 10 % slack: the two processes read the clock on different CPUs of a loaded machine)
				// The pool stamps the node's check-in at the start of a keep-alive and bills up to a slightly later
				// clock reading, so the time it spends inside a keep-alive is billed again by the next one (known finding
				// of C02, KNOWN_FINDINGS.txt): that time is bounded by the round trips measured here.
				span := tDone.Sub(tConnect0) + rttSum
				span += span/10 + 10*time.Millisecond
				upper := new(big.Int).Mul(priceWei, big.NewInt(int64(span)))
				upper.Div(upper, big.NewInt(int64(time.Minute)))
				charged := new(big.Int).Neg(bal)
				if charged.Sign() < 0 || charged.Cmp(upper) > 0 {
					fail("after keep-alive %d the client's balance is %s; with price %s wei/min and at most %s since its connect the charge must be within [0, %s]", round, bal, priceWei, tDone.Sub(tConnect0), upper)
				}
				if round == 2 && charged.Sign() == 0 && priceWei.Cmp(big.NewInt(1e9)) >= 0 {
					fail("two keep-alives with an active host peer %s after connect charged nothing at price %s wei/min", tDone.Sub(tConnect0), priceWei)
				}
			}
			if cutoff {
				outcome = "cut-off"
				deadline := time.Now().Add(5 * time.Second)
				for {
					if host.svc.disconnectedCount(cliID) > 0 {
						break
					}
					if time.Now().After(deadline) {
						fail("client was cut off for its balance but its host was never asked to disconnect it")
					}
					time.Sleep(10 * time.Millisecond)
				}
			}
		}
		rec.Case(fmt.Sprintf("bin|%s|%s|%s", min.text, price.text, outcome), minWei != nil, []string{"binary", "binary:" + outcome, fmt.Sprintf("binary:min-configured:%v", minWei != nil)}, func() interface{} {
			return map[string]interface{}{"kind": "pool binary", "options": args, "outcome": outcome}
		})
	})
}

func (h *HostSvc) disconnectedCount(nodeID string) int {
	n := 0
	for _, c := range h.Calls() {
		if c.Method == "disconnect" && c.Arg == nodeID {
			n++
		}
	}
	return n
}
