package props

// C03 at the balance-manager level: the connect-time check (OnClient) over
// the whole grid of credit / deposit / minimum, on both drivers, with the
// deposit layered on top of the store the way the contract proxy does it.

import (
	"fmt"
	"math/big"
	"testing"
	"time"

	"github.com/vipnode/vipnode/v2/pool/balance"
	"github.com/vipnode/vipnode/v2/pool/store"
	"github.com/vipnode/vipnode/v2/pool/store/memory"
	"pgregory.net/rapid"

	"verif/vt"
)

func genAmount(rt *rapid.T, label string) *big.Int {
	s := rapid.SampledFrom([]string{"0", "1", "-1", "150", "-100", "-600", "999", "1000", "1001", "-1000", "450", "18446744073709551616", "-18446744073709551615", "340282366920938463463374607431768211456"}).Draw(rt, label)
	v, _ := new(big.Int).SetString(s, 10)
	if rapid.IntRange(0, 3).Draw(rt, label+"Jitter") == 0 {
		v.Add(v, big.NewInt(int64(rapid.IntRange(-2, 2).Draw(rt, label+"Delta"))))
	}
	return v
}

func TestC03OnClient(t *testing.T) {
	rec := vt.For("C03")
	rec.Rule("manager level, connect-time check: generated (driver memory/badger, client linked to a wallet or on trial, credit, deposit layered on top of the store like the contract proxy does, minimum incl. unset, host flag); OnClient is called 1-3 times in a row; oracle: refused iff client and credit+deposit < minimum, the error reports exactly credit+deposit and the minimum, hosts and an unset minimum never refuse, every call gives the same answer, and the stored balance (credit, deposit as layered) is the same before and after - a check is not a write; non-trivial = a minimum is set and the client has a deposit; distinct by (driver, linked, signs, outcome)")
	check(t, func(rt *rapid.T) {
		driver := rapid.SampledFrom([]string{"memory", "memory", "badger"}).Draw(rt, "driver")
		var st store.Store
		if driver == "memory" {
			st = memory.New()
		} else {
			st = mustOpenBadger(rt, "")
		}
		defer st.Close()
		id := store.NodeID("client-node")
		isHost := rapid.IntRange(0, 4).Draw(rt, "isHost") == 0
		node := store.Node{ID: id, IsHost: isHost, LastSeen: time.Now()}
		if err := st.SetNode(node); err != nil {
			rt.Fatal(err)
		}
		linked := rapid.IntRange(0, 3).Draw(rt, "linked") > 0
		acct := store.Account("0xWallet")
		credit := genAmount(rt, "credit")
		if err := st.AddNodeBalance(id, credit); err != nil {
			rt.Fatal(err)
		}
		deposit := new(big.Int)
		proxy := &depositProxy{AccountStore: st, deposits: map[store.Account]*big.Int{}}
		if linked {
			if err := st.AddAccountNode(acct, id); err != nil {
				rt.Fatal(err)
			}
			deposit = genAmount(rt, "deposit")
			if deposit.Sign() < 0 {
				deposit.Neg(deposit)
			}
			proxy.setDeposit(acct, deposit)
		}
		// the wallet may have asked the contract to release its deposit: until that is through, the proxy cannot
		// name a balance for it (payment.ErrDepositTimelocked)
		timeLocked := linked && rapid.IntRange(0, 5).Draw(rt, "depositTimeLocked") == 0
		var min *big.Int
		if rapid.IntRange(0, 5).Draw(rt, "minSet") > 0 {
			min = genAmount(rt, "min")
			if rapid.IntRange(0, 2).Draw(rt, "minNearTotal") == 0 {
				// right at the threshold
				min = new(big.Int).Add(new(big.Int).Add(credit, deposit), big.NewInt(int64(rapid.IntRange(-1, 1).Draw(rt, "minDelta"))))
			}
		}
		mgr := balance.PayPerInterval(proxy, time.Minute, big.NewInt(1000))
		if min != nil {
			mgr.MinBalance = new(big.Int).Set(min)
		}
		total := new(big.Int).Add(credit, deposit)
		wantRefuse := !isHost && min != nil && total.Cmp(min) < 0
		calls := rapid.IntRange(1, 3).Draw(rt, "calls")
		outcome := "admitted"
		if timeLocked {
			proxy.locked = map[store.Account]bool{acct: true}
			for k := 1; k <= calls; k++ {
				err := mgr.OnClient(node)
				// a client's balance cannot be judged (either answer is acceptable); a host, and anybody on a pool
				// without a minimum, is not judged by its balance at all
				if err != nil && (isHost || min == nil) {
					rt.Fatalf("driver=%s host=%v min=%v: the node's deposit is time-locked on chain (no balance can be named); a host, or a node on a pool without a minimum, must not be refused over its balance: %v", driver, isHost, min, err)
				}
			}
			rec.Case(fmt.Sprintf("onclient|%s|%v|locked|%v", driver, isHost, min != nil), min != nil, []string{"onclient", "onclient:time-locked-deposit", "onclient:driver:" + driver}, func() interface{} {
				return map[string]interface{}{"level": "manager OnClient", "driver": driver, "host": isHost, "deposit": "time-locked", "min": fmt.Sprint(min)}
			})
			return
		}
		for k := 1; k <= calls; k++ {
			err := mgr.OnClient(node)
			desc := fmt.Sprintf("driver=%s host=%v linked=%v credit=%s deposit=%s min=%v, OnClient call %d of %d -> %v", driver, isHost, linked, credit, deposit, min, k, calls, err)
			if wantRefuse {
				outcome = "refused"
				lb, ok := err.(balance.LowBalanceError)
				if !ok {
					rt.Fatalf("client with balance %s below the minimum must be refused with the low-balance error: %s", total, desc)
				}
				if lb.CurrentBalance.Cmp(total) != 0 || lb.MinBalance.Cmp(min) != 0 {
					rt.Fatalf("the refusal must report the actual balance %s and the minimum %s, it reports %s / %s: %s", total, min, lb.CurrentBalance, lb.MinBalance, desc)
				}
			} else if err != nil {
				rt.Fatalf("a host, or a client at or above the minimum (balance %s), must not be refused: %s", total, desc)
			}
			b, gerr := proxy.GetNodeBalance(id)
			if gerr != nil {
				rt.Fatalf("GetNodeBalance: %v", gerr)
			}
			if b.Credit.Cmp(credit) != 0 || b.Deposit.Cmp(deposit) != 0 {
				rt.Fatalf("the connect-time check changed the stored balance: credit %s -> %s, deposit %s -> %s: %s", credit, b.Credit.String(), deposit, b.Deposit.String(), desc)
			}
		}
		sign := func(v *big.Int) string { return fmt.Sprint(v.Sign()) }
		rec.Case(fmt.Sprintf("onclient|%s|%v|%v|%s|%s|%v|%s", driver, isHost, linked, sign(credit), sign(deposit), min != nil, outcome), min != nil && deposit.Sign() != 0, []string{"onclient", "onclient:" + outcome, "onclient:driver:" + driver}, func() interface{} {
			return map[string]interface{}{"level": "manager OnClient", "driver": driver, "host": isHost, "linked": linked, "credit": credit.String(), "deposit": deposit.String(), "min": fmt.Sprint(min), "outcome": outcome}
		})
	})
}
