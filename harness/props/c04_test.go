package props

// C04 — every signed endpoint acts only on requests signed by the identity they name.

import (
	"context"
	"encoding/base64"
	"encoding/hex"
	"encoding/json"
	"fmt"
	"math/big"
	"reflect"
	"sort"
	"strings"
	"sync"
	"testing"
	"time"

	"github.com/vipnode/vipnode/v2/ethnode"
	"github.com/vipnode/vipnode/v2/pool"
	"github.com/vipnode/vipnode/v2/pool/store"
	"github.com/vipnode/vipnode/v2/request"
	"pgregory.net/rapid"

	so "verif/storeops"
	"verif/vt"
)

// legacyUpdate is the payload old agents sign for vipnode_update.
type legacyUpdate struct {
	Peers       []string `json:"peers"`
	BlockNumber uint64   `json:"block_number"`
}

var c04Endpoints = []string{"connect", "update", "updateLegacy", "peer", "host", "client", "addNode", "withdraw"}

var c04Alterations = []string{
	"none", "none", "none",
	"method", "identity", "idcase", "nonce+1", "nonce-1", "param", "sigbyte", "otherkey", "empty", "short", "garbage", "alphabet", "style", "prefixjunk", "malleate", "idsuffix",
}

func genText(rt *rapid.T, label string) string {
	switch rapid.IntRange(0, 5).Draw(rt, label+"Class") {
	case 0:
		return ""
	case 1:
		return rapid.String().Draw(rt, label)
	case 2:
		return rapid.SampledFrom([]string{"geth", "parity", "Geth/v1.9.15-stable/linux-amd64/go1.14", "<script>&amp; ", "ünïcödé 🚀", "\\\"quoted\\\"", "a\x00b"}).Draw(rt, label+"Const")
	case 3:
		// arbitrary bytes made valid UTF-8 (JSON text cannot carry invalid UTF-8: the
		// signer's own json.Marshal would substitute U+FFFD in a different spelling
		// than the verifier's re-marshal, see DESIGN.md §7)
		return strings.ToValidUTF8(string(rapid.SliceOfN(rapid.Byte(), 0, 12).Draw(rt, label+"Bytes")), "\uFFFD")
	default:
		return rapid.StringMatching(`[a-zA-Z0-9:/@.\-]{0,24}`).Draw(rt, label)
	}
}

func genRaw(rt *rapid.T) json.RawMessage {
	return json.RawMessage(rapid.SampledFrom([]string{`{"version": 63}`, `{"difficulty":17179869184,"head":"0xabc"}`, `"handshake"`, `null`, `[1, 2.50, 1e3]`, `{"a":{"b":[true,false,null]}}`, `{}`}).Draw(rt, "raw"))
}

func genPeerInfo(rt *rapid.T) ethnode.PeerInfo {
	nodes, _ := idents()
	p := ethnode.PeerInfo{Name: genText(rt, "name")}
	switch rapid.IntRange(0, 3).Draw(rt, "pidClass") {
	case 0:
		p.ID = rapid.SampledFrom(nodes).Draw(rt, "pid").nodeID
	case 1:
		p.ID = fmt.Sprintf("%064x", rapid.Uint64().Draw(rt, "hashid"))
		p.Enode = "enode://" + rapid.SampledFrom(nodes).Draw(rt, "penode").nodeID + "@" + genText(rt, "paddr")
	default:
		p.ID = genText(rt, "pidText")
		p.Enode = genText(rt, "penodeText")
	}
	if rapid.Bool().Draw(rt, "hasCaps") {
		p.Caps = rapid.SliceOfN(rapid.SampledFrom([]string{"eth/63", "eth/64", "les/2", ""}), 0, 3).Draw(rt, "caps")
	}
	if rapid.Bool().Draw(rt, "hasProtocols") {
		p.Protocols = map[string]json.RawMessage{}
		for i, n := 0, rapid.IntRange(0, 3).Draw(rt, "nProto"); i < n; i++ {
			p.Protocols[rapid.SampledFrom([]string{"eth", "les", "pip", "zé"}).Draw(rt, "proto")] = genRaw(rt)
		}
	}
	p.Network.LocalAddress = genText(rt, "laddr")
	p.Network.RemoteAddress = genText(rt, "raddr")
	return p
}

func genConnectReq(rt *rapid.T) pool.ConnectRequest {
	return pool.ConnectRequest{
		VipnodeVersion: genText(rt, "vv"),
		NodeInfo: ethnode.UserAgent{Version: genText(rt, "ver"), EthProtocol: genText(rt, "proto"), Kind: ethnode.NodeKind(rapid.IntRange(-1, 5).Draw(rt, "kind")),
			Network: ethnode.NetworkID(rapid.SampledFrom([]int{0, 1, 3, 4, 42, -7, 1 << 40}).Draw(rt, "net")), IsFullNode: rapid.Bool().Draw(rt, "full")},
		NodeURI: genText(rt, "uri"),
		Payout:  genText(rt, "payout"),
	}
}

func genUpdateReq(rt *rapid.T, legacy bool) pool.UpdateRequest {
	r := pool.UpdateRequest{BlockNumber: rapid.SampledFrom([]uint64{0, 1, 9000000, 1<<63 + 5, 1<<64 - 1}).Draw(rt, "block")}
	if legacy || rapid.Bool().Draw(rt, "hasPeers") {
		n := rapid.IntRange(0, 3).Draw(rt, "nPeers")
		r.Peers = []string{}
		for i := 0; i < n; i++ {
			r.Peers = append(r.Peers, genText(rt, "peer"))
		}
		if legacy && n == 0 && rapid.Bool().Draw(rt, "nilPeers") {
			r.Peers = nil
		}
	}
	if !legacy {
		switch rapid.IntRange(0, 3).Draw(rt, "infoClass") {
		case 0:
			r.PeerInfo = nil
		case 1:
			r.PeerInfo = []ethnode.PeerInfo{}
		default:
			for i, n := 0, rapid.IntRange(1, 3).Draw(rt, "nInfo"); i < n; i++ {
				r.PeerInfo = append(r.PeerInfo, genPeerInfo(rt))
			}
		}
	}
	return r
}

type c04Req struct {
	endpoint string
	method   string
	wallet   bool
	who      ident
	nonce    int64
	arg      interface{} // typed request struct, string (addNode) or nil (withdraw)
	signArgs []interface{}
}

func (r c04Req) id() string {
	if r.wallet {
		return r.who.addr
	}
	return r.who.nodeID
}

// c04SparseIdent signs the sparse follow-up requests (an identity of its own, so that its nonces are in nobody's way).
var c04SparseIdent = mkIdent("c04-sparse")

func sortedRawKeys(m map[string]json.RawMessage) []string {
	var ks []string
	for k := range m {
		ks = append(ks, k)
	}
	sort.Strings(ks)
	return ks
}

func genC04Req(rt *rapid.T, endpoint string, nodeWho, walletWho ident) c04Req {
	r := c04Req{endpoint: endpoint, who: nodeWho, nonce: time.Now().UnixNano() + genNonceAhead(rt)}
	switch endpoint {
	case "connect":
		r.method = "vipnode_connect"
		a := genConnectReq(rt)
		r.arg, r.signArgs = a, []interface{}{a}
	case "update":
		r.method = "vipnode_update"
		a := genUpdateReq(rt, false)
		r.arg, r.signArgs = a, []interface{}{a}
	case "updateLegacy":
		r.method = "vipnode_update"
		a := genUpdateReq(rt, true)
		r.arg, r.signArgs = a, []interface{}{legacyUpdate{a.Peers, a.BlockNumber}}
	case "peer":
		r.method = "vipnode_peer"
		a := pool.PeerRequest{Num: rapid.SampledFrom([]int{-3, 0, 1, 2, 1000000}).Draw(rt, "num"), Kind: genText(rt, "kind")}
		r.arg, r.signArgs = a, []interface{}{a}
	case "host":
		r.method = "vipnode_host"
		a := pool.HostRequest{Kind: genText(rt, "kind"), Payout: genText(rt, "payout"), NodeURI: genText(rt, "uri")}
		r.arg, r.signArgs = a, []interface{}{a}
	case "client":
		r.method = "vipnode_client"
		a := pool.ClientRequest{Kind: genText(rt, "kind"), NumHosts: rapid.SampledFrom([]int{-1, 0, 1, 3, 99}).Draw(rt, "numHosts")}
		r.arg, r.signArgs = a, []interface{}{a}
	case "addNode":
		r.method, r.wallet, r.who = "pool_addNode", true, walletWho
		nodes, _ := idents()
		a := rapid.SampledFrom(nodes[:4]).Draw(rt, "addNodeTarget").nodeID
		if rapid.IntRange(0, 3).Draw(rt, "weirdTarget") == 0 {
			a = genText(rt, "target")
		}
		r.arg, r.signArgs = a, []interface{}{a}
	case "withdraw":
		r.method, r.wallet, r.who = "pool_withdraw", true, walletWho
	}
	return r
}

// mutateParam changes exactly one signed component of the parameters so that
// the canonical JSON differs.
func mutateParam(rt *rapid.T, r c04Req) (interface{}, string) {
	switch a := r.arg.(type) {
	case pool.ConnectRequest:
		switch rapid.IntRange(0, 7).Draw(rt, "field") {
		case 0:
			a.VipnodeVersion += "x"
			return a, "vipnode_version"
		case 1:
			a.NodeInfo.Version += "x"
			return a, "node_info.version"
		case 2:
			a.NodeInfo.EthProtocol += "1"
			return a, "node_info.eth_protocol"
		case 3:
			a.NodeInfo.Kind++
			return a, "node_info.kind"
		case 4:
			a.NodeInfo.Network++
			return a, "node_info.network"
		case 5:
			a.NodeInfo.IsFullNode = !a.NodeInfo.IsFullNode
			return a, "node_info.is_full_node"
		case 6:
			a.NodeURI += "x"
			return a, "node_uri"
		default:
			a.Payout += "0"
			return a, "payout"
		}
	case pool.UpdateRequest:
		legacy := r.endpoint == "updateLegacy"
		f := rapid.IntRange(0, 1).Draw(rt, "field")
		if !legacy {
			f = rapid.IntRange(0, 6).Draw(rt, "fieldNew")
		}
		switch f {
		case 0:
			a.BlockNumber++
			return a, "block_number"
		case 1:
			a.Peers = append(append([]string{}, a.Peers...), "x")
			return a, "peers"
		case 2:
			a.PeerInfo = append(append([]ethnode.PeerInfo{}, a.PeerInfo...), ethnode.PeerInfo{ID: "extra"})
			return a, "peers_info+"
		default:
			if len(a.PeerInfo) == 0 {
				a.PeerInfo = append(append([]ethnode.PeerInfo{}, a.PeerInfo...), ethnode.PeerInfo{ID: "extra"})
				return a, "peers_info+"
			}
			pi := append([]ethnode.PeerInfo{}, a.PeerInfo...)
			k := rapid.IntRange(0, len(pi)-1).Draw(rt, "which")
			switch f {
			case 3:
				pi[k].ID += "0"
				a.PeerInfo = pi
				return a, "peers_info.id"
			case 4:
				pi[k].Enode += "0"
				a.PeerInfo = pi
				return a, "peers_info.enode"
			case 5:
				pi[k].Network.RemoteAddress += "0"
				a.PeerInfo = pi
				return a, "peers_info.network.remoteAddress"
			default:
				np := map[string]json.RawMessage{}
				for kk, v := range pi[k].Protocols {
					np[kk] = v
				}
				np["extra"] = json.RawMessage(`1`)
				pi[k].Protocols = np
				a.PeerInfo = pi
				return a, "peers_info.protocols"
			}
		}
	case pool.PeerRequest:
		if rapid.Bool().Draw(rt, "field") {
			a.Num++
			return a, "num"
		}
		a.Kind += "x"
		return a, "kind"
	case pool.HostRequest:
		switch rapid.IntRange(0, 2).Draw(rt, "field") {
		case 0:
			a.Kind += "x"
			return a, "kind"
		case 1:
			a.Payout += "x"
			return a, "payout"
		default:
			a.NodeURI += "x"
			return a, "node_uri"
		}
	case pool.ClientRequest:
		if rapid.Bool().Draw(rt, "field") {
			a.NumHosts++
			return a, "num_hosts"
		}
		a.Kind += "x"
		return a, "kind"
	case string:
		return a + "0", "node_id"
	}
	return r.arg, ""
}

// c04Fixture: a pool with one registered host (live connection) and one
// registered client, a payment service with a settle log.
type c04Fixture struct {
	s      *session
	host   int
	client int
}

func newC04Fixture(rt *rapid.T) *c04Fixture {
	// the pool's configuration must not matter to verification: minimum balance, request cap, driver
	cfg := sessCfg{Driver: rapid.SampledFrom([]string{"memory", "memory", "memory", "badger"}).Draw(rt, "driver"), Price: big.NewInt(1000), Interval: time.Minute}
	cfg.MaxRequestHosts = rapid.SampledFrom([]int{0, 0, 1, 2}).Draw(rt, "maxRequestHosts")
	if rapid.IntRange(0, 3).Draw(rt, "minBalanceSet") == 0 {
		cfg.Min = big.NewInt(-1000000)
	}
	s := newSession(rt, cfg, 5)
	f := &c04Fixture{s: s, host: 0, client: 1}
	hc := s.openConn(0, "")
	if err := s.connect(0, hc, true, "geth", ""); err != nil {
		rt.Fatalf("fixture host connect: %v", err)
	}
	cc := s.openConn(1, "")
	if err := s.connect(1, cc, false, "geth", ""); err != nil {
		rt.Fatalf("fixture client connect: %v", err)
	}
	if _, err := s.update(1, []string{s.agents[0].id.nodeID}, 5, false, false); err != nil {
		rt.Fatalf("fixture update: %v", err)
	}
	if err := s.addNode(walletIdent(0), s.agents[0].id.nodeID); err != nil {
		rt.Fatalf("fixture link: %v", err)
	}
	s.st.AddNodeBalance(store.NodeID(s.agents[0].id.nodeID), big.NewInt(777))
	return f
}

// digest renders everything observable about the pool: every node record,
// peers, balances, wallet links, stats, registered connections, the host call
// logs and the settle log.
func (s *session) digest() string {
	var nodes []string
	for _, a := range s.agents {
		nodes = append(nodes, a.id.nodeID)
	}
	nodes = append(nodes, nodeIdent(9).nodeID)
	accts := []string{walletIdent(0).addr, walletIdent(1).addr, walletIdent(2).addr, ""}
	lines := so.Observe(s.st, nodes, accts, so.ExactTime, true)
	lines = append(lines, fmt.Sprintf("NumRemotes=%d", s.pool.NumRemotes()))
	for _, a := range s.agents {
		for _, ac := range a.conns {
			for _, c := range ac.svc.Calls() {
				lines = append(lines, fmt.Sprintf("hostcall %s conn#%d %s(%s)", a.id.name, ac.id, c.Method, nodeName(c.Arg)))
			}
		}
	}
	s.mu.Lock()
	for _, sc := range s.settleLog {
		lines = append(lines, fmt.Sprintf("settle %s %s ok=%v", sc.Account, sc.Amount, sc.OK))
	}
	s.mu.Unlock()
	if s.proxy != nil {
		for _, a := range accts {
			lines = append(lines, fmt.Sprintf("deposit %s=%s", a, s.proxy.deposit(store.Account(a))))
		}
	}
	return strings.Join(lines, "\n")
}

func diffDigest(before, after string) string {
	b, a := strings.Split(before, "\n"), strings.Split(after, "\n")
	bm := map[string]bool{}
	for _, l := range b {
		bm[l] = true
	}
	am := map[string]bool{}
	for _, l := range a {
		am[l] = true
	}
	var out []string
	for _, l := range b {
		if !am[l] {
			out = append(out, "- "+l)
		}
	}
	for _, l := range a {
		if !bm[l] {
			out = append(out, "+ "+l)
		}
	}
	return strings.Join(out, "\n")
}

// submit sends the request either as a direct method call or through the
// JSON-RPC layer of a connection.
func (f *c04Fixture) submit(r c04Req, sig, id string, nonce int64, arg interface{}, viaRPC bool) error {
	s := f.s
	ctx, cancel := context.WithTimeout(context.Background(), 30*time.Second)
	defer cancel()
	if viaRPC {
		ac := s.agents[f.client].lastConn()
		args := []interface{}{sig, id, nonce}
		if arg != nil {
			if u, ok := arg.(pool.UpdateRequest); ok && r.endpoint == "updateLegacy" {
				// an old agent puts its own (legacy) request type on the wire
				arg = legacyUpdate{u.Peers, u.BlockNumber}
			}
			args = append(args, arg)
		}
		var out json.RawMessage
		return ac.c.agentSide.Call(ctx, &out, r.method, args...)
	}
	var err error
	switch r.endpoint {
	case "connect":
		_, err = s.pool.Connect(ctx, sig, id, nonce, arg.(pool.ConnectRequest))
	case "update", "updateLegacy":
		_, err = s.pool.Update(ctx, sig, id, nonce, arg.(pool.UpdateRequest))
	case "peer":
		_, err = s.pool.Peer(ctx, sig, id, nonce, arg.(pool.PeerRequest))
	case "host":
		_, err = s.pool.Host(ctx, sig, id, nonce, arg.(pool.HostRequest))
	case "client":
		_, err = s.pool.Client(ctx, sig, id, nonce, arg.(pool.ClientRequest))
	case "addNode":
		err = s.pay.AddNode(ctx, sig, id, nonce, arg.(string))
	case "withdraw":
		err = s.pay.Withdraw(ctx, sig, id, nonce)
	}
	return err
}

type c04Sample struct {
	Endpoint   string `json:"endpoint"`
	Alteration string `json:"alteration"`
	Detail     string `json:"detail,omitempty"`
	Transport  string `json:"transport"`
	Identity   string `json:"identity"`
	Params     string `json:"params"`
	Outcome    string `json:"outcome"`
}

func TestC04SignedEndpoints(t *testing.T) {
	defer vt.Watch("TestC04SignedEndpoints", 120*time.Second)()
	rec := vt.For("C04")
	rec.Rule("generated (endpoint in {connect, update, update-legacy-form, peer, host, client, pool_addNode, pool_withdraw}) x (arbitrary parameter values: unicode, invalid UTF-8, nested protocols, extreme numbers) x (identity) x (alteration in {none, other method, other identity, nonce+-1, one parameter field, one signature byte, other key, empty, short, garbage, wrong alphabet, node-style vs wallet-style}) x (direct call | JSON-RPC round trip) against a pool with a live host, a billed client and a linked wallet; oracle: unaltered => never a verification error; altered => verification error and an unchanged full-state digest; non-trivial = every altered case; distinct by (endpoint, alteration, field/position class, transport)")
	rec.Assume("don't-cares: recovery byte V of node-style signatures and bytes after the 65th (documented as dropped); fields outside the legacy signed payload for the deprecated vipnode_update form")
	check(t, func(rt *rapid.T) {
		rapid.SyncTest(rt, func(rt *rapid.T) {
			f := newC04Fixture(rt)
			defer f.s.close()
			time.Sleep(time.Second)
			endpoint := rapid.SampledFrom(c04Endpoints).Draw(rt, "endpoint")
			alt := rapid.SampledFrom(c04Alterations).Draw(rt, "alteration")
			viaRPC := rapid.Bool().Draw(rt, "viaRPC")
			// identities: the registered client / host or an unregistered node; wallet w0 (linked) or w1
			nodeWho := f.s.agents[rapid.SampledFrom([]int{0, 1, 1, 3}).Draw(rt, "who")].id
			walletWho := walletIdent(rapid.IntRange(0, 1).Draw(rt, "wallet"))
			r := genC04Req(rt, endpoint, nodeWho, walletWho)
			if alt == "param" && r.arg == nil {
				alt = "otherkey" // withdraw has no parameters
			}
			id, nonce, arg := r.id(), r.nonce, r.arg
			signKey := r.who.key
			signMethod, signID, signNonce, signArgs := r.method, id, nonce, r.signArgs
			detail := ""
			var sig string
			other := nodeIdent(4)
			otherWallet := walletIdent(2)
			ownSpelling := ""
			if alt == "none" && rapid.IntRange(0, 3).Draw(rt, "ownSpelling") == 0 {
				// the signer spells its own identity another way (hex case; node ids also with a 0x prefix) and signs
				// that spelling: still its identity, the request must pass verification
				spells := []string{"lower", "upper", "mixed"}
				if !r.wallet {
					spells = append(spells, "prefix")
				}
				ownSpelling = rapid.SampledFrom(spells).Draw(rt, "ownSpellingKind")
				id = respell(id, ownSpelling)
				signID = id
				detail = "own spelling: " + ownSpelling
			}
			switch alt {
			case "method":
				signMethod = rapid.SampledFrom([]string{"vipnode_connect", "vipnode_update", "vipnode_peer", "vipnode_host", "vipnode_client", "pool_addNode", "pool_withdraw", "", "vipnode_Update"}).Filter(func(m string) bool { return m != r.method }).Draw(rt, "otherMethod")
				detail = signMethod
			case "identity":
				if r.wallet {
					id = otherWallet.addr
				} else {
					id = other.nodeID
				}
			case "idcase":
				// the same identity spelled differently (hex case): the signature covers the string as sent
				spell := rapid.SampledFrom([]string{"lower", "upper", "mixed", "prefix"}).Draw(rt, "spelling")
				alt2 := respell(id, spell)
				if alt2 == id {
					alt2 = respell(id, "upper")
				}
				if alt2 == id {
					alt2 = respell(id, "lower")
				}
				id = alt2
				detail = spell
			case "nonce+1":
				nonce++
			case "nonce-1":
				nonce--
			case "param":
				arg, detail = mutateParam(rt, r)
			case "otherkey":
				if r.wallet {
					signKey = otherWallet.key
				} else {
					signKey = other.key
				}
			case "idsuffix":
				// a stranger claims an identity that is only the tail of its own address / id (or nothing at all) and
				// signs that claim correctly with its own key
				stranger := other
				full := other.nodeID
				if r.wallet {
					stranger, full = otherWallet, strings.ToLower(otherWallet.addr[2:])
				}
				k := rapid.SampledFrom([]int{0, 1, 6, 10, len(full) - 1}).Draw(rt, "suffixLen")
				id = full[len(full)-k:]
				if r.wallet && rapid.Bool().Draw(rt, "with0x") {
					id = "0x" + id
				}
				signKey, signID = stranger.key, id
				detail = fmt.Sprintf("suffix of length %d", k)
			}
			if len(signArgs) == 0 {
				sig = mustSign(signKey, signMethod, signID, signNonce)
			} else {
				sig = mustSign(signKey, signMethod, signID, signNonce, signArgs...)
			}
			decode := func(s string) []byte {
				if r.wallet {
					b, _ := hex.DecodeString(s)
					return b
				}
				b, _ := base64.StdEncoding.DecodeString(s)
				return b
			}
			encode := func(b []byte) string {
				if r.wallet {
					return hex.EncodeToString(b)
				}
				return base64.StdEncoding.EncodeToString(b)
			}
			switch alt {
			case "sigbyte":
				b := decode(sig)
				max := 63
				if r.wallet {
					max = 64
				}
				pos := rapid.IntRange(0, max).Draw(rt, "pos")
				if r.wallet && rapid.IntRange(0, 3).Draw(rt, "recoveryByte") == 0 {
					pos = 64
				}
				if pos == 64 {
					// any other value of the recovery byte, except the alternative spelling of the same one
					// (V and V+27 denote the same recovery id: the same signature, not an altered one)
					orig := int(b[64])
					v := rapid.IntRange(0, 255).Filter(func(v int) bool { return v != orig && v != orig+27 && v != orig-27 }).Draw(rt, "v")
					b[64] = byte(v)
					detail = fmt.Sprintf("recovery byte %d -> %d", orig, v)
				} else {
					b[pos] ^= byte(rapid.IntRange(1, 255).Draw(rt, "mask"))
				}
				sig = encode(b)
				if pos != 64 {
					detail = fmt.Sprintf("byte %d", pos)
				} else if v := int(b[64]); v >= 35 {
					detail = "recovery byte >= 35"
				} else {
					detail = "recovery byte < 35"
				}
			case "empty":
				sig = ""
			case "short":
				n := rapid.IntRange(0, 63).Draw(rt, "len")
				sig = encode(decode(sig)[:n])
				if r.wallet && rapid.Bool().Draw(rt, "0x") {
					sig = "0x" + sig
				}
				detail = fmt.Sprintf("%d bytes", n)
			case "garbage":
				sig = genText(rt, "garbage")
			case "alphabet":
				if r.wallet {
					sig = base64.StdEncoding.EncodeToString(decode(sig))
				} else {
					sig = hex.EncodeToString(decode(sig))
				}
			case "malleate":
				// the other signature of the same (r, s) pair: s' = n - s with the recovery id flipped. Node-style
				// signatures are checked against the node id's key with the low-s rule, so the twin must be refused.
				// (Wallet-style signatures are checked by key recovery, which has no such rule; the twin is the same
				// signer over the same content and changes more than one byte - not generated.)
				if r.wallet {
					sig = ""
					detail = "wallet: empty instead"
				} else {
					b := decode(sig)
					n, _ := new(big.Int).SetString("fffffffffffffffffffffffffffffffebaaedce6af48a03bbfd25e8cd0364141", 16)
					s2 := new(big.Int).Sub(n, new(big.Int).SetBytes(b[32:64]))
					sb := s2.Bytes()
					copy(b[32:64], make([]byte, 32))
					copy(b[64-len(sb):64], sb)
					if len(b) > 64 {
						b[64] ^= 1
					}
					sig = encode(b)
				}
			case "idsuffix":
				// handled below (needs its own signature)
			case "prefixjunk":
				// characters inserted between the hex prefix and the signature proper (wallet style), or a prefix where
				// none belongs (node style: base64 has no prefix)
				junk := rapid.SampledFrom([]string{"0", "00", "0x", "x", "0X0", "000000", "X"}).Draw(rt, "junk")
				if r.wallet {
					sig = "0x" + junk + sig
				} else {
					sig = rapid.SampledFrom([]string{"0x", "0X", "0"}).Draw(rt, "nodePrefix") + sig
				}
				detail = junk
			case "style":
				// node-style signature on a wallet identity and vice versa
				var err error
				if r.wallet {
					sig, err = request.NodeRequest{Method: r.method, NodeID: id, Nonce: nonce, ExtraArgs: r.signArgs}.Sign(r.who.key)
					if rapid.Bool().Draw(rt, "asHex") {
						sig = hex.EncodeToString(decode2(sig))
					}
				} else {
					sig, err = request.AddressRequest{Method: r.method, Address: id, Nonce: nonce, ExtraArgs: r.signArgs}.Sign(r.who.key)
					if rapid.Bool().Draw(rt, "asB64") {
						b, _ := hex.DecodeString(sig)
						sig = base64.StdEncoding.EncodeToString(b)
					}
				}
				if err != nil {
					rt.Fatalf("sign: %v", err)
				}
			}
			if alt == "none" && r.wallet && rapid.Bool().Draw(rt, "hexPrefix") {
				// wallets usually send their signature with the 0x prefix (what eth_sign returns)
				sig = "0x" + sig
				detail += " 0x-prefixed"
			}
			before := f.s.digest()
			err := f.submit(r, sig, id, nonce, arg, viaRPC)
			ec := classifyErr(err)
			after := f.s.digest()
			transport := "direct"
			if viaRPC {
				transport = "jsonrpc"
			}
			pj, _ := json.Marshal(arg)
			if len(pj) > 300 {
				pj = append(pj[:300], "..."...)
			}
			outcome := ec.Kind
			if outcome == "" {
				outcome = "accepted"
			}
			if alt == "none" {
				if ec.Kind == "verify" {
					rt.Fatalf("correctly signed fresh %s (%s) by %s was refused by verification: %v\nparams: %s", r.method, transport, r.who.name, err, pj)
				}
			} else {
				if ec.Kind != "verify" {
					rt.Fatalf("%s with alteration %q (%s) via %s was not refused by verification: err=%v\nparams: %s", r.method, alt, detail, transport, err, pj)
				}
				if before != after {
					rt.Fatalf("refused %s (alteration %q %s) changed the pool state:\n%s", r.method, alt, detail, diffDigest(before, after))
				}
				// ... nor may it have used up the nonce it carried: the named identity's own, correctly signed request
				// with that very nonce is still a fresh request and must pass verification
				if alt != "nonce-1" && alt != "idcase" && alt != "idsuffix" {
					owner, ownerID := r.who, r.id()
					if alt == "identity" {
						ownerID = id
						owner = other
						if r.wallet {
							owner = otherWallet
						}
					}
					var gsig string
					if len(r.signArgs) == 0 {
						gsig = mustSign(owner.key, r.method, ownerID, nonce)
					} else {
						gsig = mustSign(owner.key, r.method, ownerID, nonce, r.signArgs...)
					}
					if gerr := f.submit(r, gsig, ownerID, nonce, r.arg, viaRPC); classifyErr(gerr).Kind == "verify" {
						rt.Fatalf("after a refused %s (alteration %q %s) naming %s with nonce %d, the identity's own correctly signed request with that nonce is refused by verification: %v (the refused request used up the nonce)", r.method, alt, detail, nodeName(ownerID), nonce, gerr)
					}
				}
			}
			// A follow-up of the same method that leaves members out on the wire (what a client written in another
			// language, or one that omits empty members, sends): the pool must see exactly the members of THIS request -
			// absent ones are zero, whatever the request before it (accepted or refused, from anybody) carried. The
			// sender signs what it sent: the request as decoded from its own wire form.
			if viaRPC && !r.wallet && endpoint != "updateLegacy" && r.arg != nil && rapid.IntRange(0, 3).Draw(rt, "sparseFollowUp") == 0 {
				r2 := genC04Req(rt, endpoint, c04SparseIdent, walletWho)
				full, _ := json.Marshal(r2.arg)
				var members map[string]json.RawMessage
				if json.Unmarshal(full, &members) == nil && len(members) > 0 {
					var dropped []string
					for _, k := range sortedRawKeys(members) {
						if rapid.Bool().Draw(rt, "drop:"+k) {
							delete(members, k)
							dropped = append(dropped, k)
						}
					}
					sparse, _ := json.Marshal(members)
					fresh := reflect.New(reflect.TypeOf(r2.arg))
					if err := json.Unmarshal(sparse, fresh.Interface()); err != nil {
						rt.Fatalf("harness: %v", err)
					}
					asSent := fresh.Elem().Interface()
					n2 := f.s.nonce(c04SparseIdent.nodeID)
					sig2 := mustSign(c04SparseIdent.key, r2.method, c04SparseIdent.nodeID, n2, asSent)
					ctx, cancel := context.WithTimeout(context.Background(), 30*time.Second)
					var out json.RawMessage
					err2 := f.s.agents[f.client].lastConn().c.agentSide.Call(ctx, &out, r2.method, sig2, c04SparseIdent.nodeID, n2, json.RawMessage(sparse))
					cancel()
					if classifyErr(err2).Kind == "verify" {
						rt.Fatalf("correctly signed %s that leaves the members %v out on the wire was refused by verification: %v\nwire form: %s\nthe request before it on this method: %s", r2.method, dropped, err2, sparse, pj)
					}
					detail += " +sparse"
				}
			}
			sigKey := fmt.Sprintf("%s|%s|%s|%s|%s", endpoint, alt, detail, transport, outcome)
			rec.Case(sigKey, alt != "none", []string{"endpoint:" + endpoint, "alt:" + alt, "transport:" + transport, "pair:" + endpoint + "/" + alt}, func() interface{} {
				return c04Sample{endpoint, alt, detail, transport, r.who.name, string(pj), outcome}
			})
		})
	})
}

func decode2(b64 string) []byte {
	b, _ := base64.StdEncoding.DecodeString(b64)
	return b
}

// respell changes the hex-digit case of an identity (keeping a 0x prefix as it is).
func respell(id, how string) string {
	prefix, body := "", id
	if strings.HasPrefix(id, "0x") {
		prefix, body = "0x", id[2:]
	}
	switch how {
	case "prefix":
		// the other spelling of the hex prefix: node ids gain one, wallet addresses get the upper-case one
		if prefix == "" {
			return "0x" + body
		}
		return "0X" + body
	case "lower":
		body = strings.ToLower(body)
	case "upper":
		body = strings.ToUpper(body)
	default:
		b := []byte(strings.ToLower(body))
		for i := range b {
			if i%2 == 0 && b[i] >= 'a' && b[i] <= 'f' {
				b[i] -= 32
			}
		}
		body = string(b)
	}
	return prefix + body
}

// TestC04Concurrent — verification of one request is independent of other requests being verified at the same time.
func TestC04Concurrent(t *testing.T) {
	defer vt.Watch("TestC04Concurrent", 120*time.Second)()
	rec := vt.For("C04")
	rec.Rule("concurrent verification (free-running, -race): 2-8 goroutines submit correctly signed and single-alteration requests of different identities and endpoints at the same instant; oracle: every unaltered request passes verification and every altered one is refused, exactly as when sent alone; any race report fails; distinct by the request mix")
	check(t, func(rt *rapid.T) {
		rapid.SyncTest(rt, func(rt *rapid.T) {
			f := newC04Fixture(rt)
			defer f.s.close()
			time.Sleep(time.Second)
			n := rapid.IntRange(2, 8).Draw(rt, "n")
			type job struct {
				r       c04Req
				sig     string
				altered bool
				desc    string
			}
			var jobs []job
			for i := 0; i < n; i++ {
				endpoint := rapid.SampledFrom([]string{"update", "peer", "connect", "client", "updateLegacy"}).Draw(rt, "endpoint")
				who := f.s.agents[1+i%4].id // distinct identities where possible (an identity is sequential)
				if i >= 4 {
					who = nodeIdent(5 + i%4)
				}
				r := genC04Req(rt, endpoint, who, walletIdent(0))
				altered := rapid.Bool().Draw(rt, "altered")
				method := r.method
				if altered {
					method = "vipnode_ping" // signed for another method
				}
				sig := mustSign(r.who.key, method, r.id(), r.nonce, r.signArgs...)
				jobs = append(jobs, job{r, sig, altered, fmt.Sprintf("%s by %s altered=%v", endpoint, who.name, altered)})
			}
			errs := make([]error, n)
			var wg sync.WaitGroup
			start := make(chan struct{})
			for i := range jobs {
				wg.Add(1)
				go func() {
					defer wg.Done()
					<-start
					errs[i] = f.submit(jobs[i].r, jobs[i].sig, jobs[i].r.id(), jobs[i].r.nonce, jobs[i].r.arg, false)
				}()
			}
			close(start)
			wg.Wait()
			var descs []string
			for i, j := range jobs {
				descs = append(descs, j.desc)
				k := classifyErr(errs[i]).Kind
				if j.altered && k != "verify" {
					rt.Fatalf("request %q signed for another method was not refused while %d others were verified concurrently: %v", j.desc, n-1, errs[i])
				}
				if !j.altered && k == "verify" {
					rt.Fatalf("correctly signed request %q was refused while %d others were verified concurrently: %v", j.desc, n-1, errs[i])
				}
			}
			rec.Case(fmt.Sprintf("conc|%v", descs), true, []string{"concurrent-verify"}, func() interface{} {
				return map[string]interface{}{"kind": "concurrent verification", "requests": descs}
			})
		})
	})
}

// genNonceAhead: how far the request's nonce is ahead of the pool's clock. Any nonce above the identity's last
// accepted one is fresh (C05: "strictly greater ... and not older than the window"): agents with a fast clock exist.
func genNonceAhead(rt *rapid.T) int64 {
	if rapid.IntRange(0, 4).Draw(rt, "farAhead") == 0 {
		return int64(rapid.SampledFrom([]time.Duration{16 * time.Minute, time.Hour, 24 * time.Hour, 24 * 365 * time.Hour}).Draw(rt, "ahead"))
	}
	return rapid.Int64Range(0, int64(time.Minute)).Draw(rt, "nonceAhead")
}
