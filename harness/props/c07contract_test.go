package props

// C07 against the REAL deposit proxy and settlement: payment.ContractPayment
// over the vipnode pool contract deployed on go-ethereum's simulated chain.

import (
	"context"
	"fmt"
	"math/big"
	"strings"
	"testing"
	"time"

	"github.com/ethereum/go-ethereum/accounts/abi/bind"
	"github.com/ethereum/go-ethereum/accounts/abi/bind/backends"
	"github.com/ethereum/go-ethereum/common"
	"github.com/ethereum/go-ethereum/core"
	"github.com/ethereum/go-ethereum/crypto"
	"github.com/vipnode/vipnode-contract/go/vipnodepool"
	"github.com/vipnode/vipnode/v2/pool/payment"
	"github.com/vipnode/vipnode/v2/pool/store"
	"github.com/vipnode/vipnode/v2/pool/store/memory"
	"pgregory.net/rapid"

	"verif/vt"
)

type chainFixture struct {
	backend  *backends.SimulatedBackend
	contract *vipnodepool.VipnodePool
	addr     common.Address
	operator ident
	wallets  []ident
	st       store.Store
	proxy    store.BalanceStore
	pay      *payment.PaymentService
}

func eth(n int64) *big.Int { return new(big.Int).Mul(big.NewInt(n), big.NewInt(1e18)) }

func newChainFixture(t interface{ Fatalf(string, ...interface{}) }, fee string, min *big.Int) *chainFixture {
	f := &chainFixture{operator: walletIdent(3), wallets: []ident{walletIdent(0), walletIdent(1)}}
	alloc := core.GenesisAlloc{common.HexToAddress(f.operator.addr): {Balance: eth(1000)}}
	for _, w := range f.wallets {
		alloc[common.HexToAddress(w.addr)] = core.GenesisAccount{Balance: eth(1000)}
	}
	f.backend = backends.NewSimulatedBackend(alloc, 8000000)
	opts := bind.NewKeyedTransactor(f.operator.key)
	addr, _, c, err := vipnodepool.DeployVipnodePool(opts, f.backend, common.HexToAddress(f.operator.addr))
	if err != nil {
		t.Fatalf("deploy: %v", err)
	}
	f.backend.Commit()
	f.addr, f.contract = addr, c
	f.st = memory.New()
	cp, err := payment.ContractPayment(f.st, addr, f.backend, bind.NewKeyedTransactor(f.operator.key))
	if err != nil {
		t.Fatalf("ContractPayment: %v", err)
	}
	f.proxy = cp
	f.pay = &payment.PaymentService{NonceStore: f.st, AccountStore: f.st, BalanceStore: cp, Settle: cp.OpSettle, WithdrawMin: min}
	switch fee {
	case "const":
		f.pay.WithdrawFee = func(a *big.Int) *big.Int { return new(big.Int).Sub(a, big.NewInt(2500)) }
	case "prop":
		f.pay.WithdrawFee = func(a *big.Int) *big.Int {
			return new(big.Int).Div(new(big.Int).Mul(a, big.NewInt(99)), big.NewInt(100))
		}
	}
	return f
}

func (f *chainFixture) chainBalance(a string) *big.Int {
	b, err := f.backend.BalanceAt(context.Background(), common.HexToAddress(a), nil)
	if err != nil {
		panic(err)
	}
	return b
}

func (f *chainFixture) onChainDeposit(a string) *big.Int {
	r, err := f.contract.Accounts(nil, common.HexToAddress(a))
	if err != nil {
		panic(err)
	}
	return r.Balance
}

// waitProxyDeposit waits until the proxy's view of the deposit equals the chain (the proxy follows Balance events).
func (f *chainFixture) waitProxyDeposit(a string) (*big.Int, bool) {
	want := f.onChainDeposit(a)
	deadline := time.Now().Add(10 * time.Second)
	for {
		b, err := f.proxy.GetAccountBalance(store.Account(a))
		if err == nil && b.Deposit.Cmp(want) == 0 {
			return want, true
		}
		if time.Now().After(deadline) {
			if err == nil {
				return &b.Deposit, false
			}
			return nil, false
		}
		time.Sleep(2 * time.Millisecond)
	}
}

func TestC07Contract(t *testing.T) {
	rec := vt.For("C07")
	rec.Rule("real proxy and settlement: payment.ContractPayment over the vipnode pool contract deployed on go-ethereum's simulated chain (operator key, wallets with funds), real PaymentService with generated fee and minimum; rules: on-chain deposit (addBalance + block), credit accrual in the store, pool-funding deposits by the other wallet, withdraw (+ block), two withdrawals of one wallet before the block is mined; oracle: a withdrawal executes iff deposit+credit >= minimum (and the contract can pay), the wallet's on-chain ether grows by exactly fee(deposit+credit), its on-chain deposit and its stored credit are 0 afterwards, a repeated withdrawal pays nothing more, a refused/failed one changes nothing; non-trivial = a successful withdrawal followed by another attempt; distinct by config + op sequence")
	rec.Assume("the simulated chain mines a block when the harness says so; the proxy's deposit view is awaited (it follows Balance events asynchronously) before each decision that depends on it")
	rapid.Check(t, func(rt *rapid.T) {
		fee := rapid.SampledFrom([]string{"", "const", "prop"}).Draw(rt, "fee")
		var min *big.Int
		switch rapid.IntRange(0, 2).Draw(rt, "min") {
		case 1:
			min = big.NewInt(0)
		case 2:
			min = big.NewInt(5000)
		}
		f := newChainFixture(rt, fee, min)
		defer f.backend.Close()
		feeOf := func(a *big.Int) *big.Int {
			switch fee {
			case "const":
				return new(big.Int).Sub(a, big.NewInt(2500))
			case "prop":
				return new(big.Int).Div(new(big.Int).Mul(a, big.NewInt(99)), big.NewInt(100))
			}
			return new(big.Int).Set(a)
		}
		credit := map[string]*big.Int{}
		for _, w := range f.wallets {
			credit[w.addr] = new(big.Int)
		}
		var hist, kinds []string
		fail := func(format string, a ...interface{}) {
			rt.Fatalf("%s\nfee=%q min=%v\nhistory:\n  %s", fmt.Sprintf(format, a...), fee, min, strings.Join(hist, "\n  "))
		}
		nonce := time.Now().UnixNano()
		doWithdraw := func(w ident) error {
			nonce++
			return f.pay.Withdraw(context.Background(), mustSign(w.key, "pool_withdraw", w.addr, nonce), w.addr, nonce)
		}
		paidThenAgain := false
		n := rapid.IntRange(3, 10).Draw(rt, "steps")
		for i := 0; i < n; i++ {
			w := f.wallets[rapid.IntRange(0, 1).Draw(rt, "wallet")]
			switch op := rapid.SampledFrom([]string{"deposit", "deposit", "accrue", "accrue", "withdraw", "withdraw", "withdrawTwice"}).Draw(rt, "op"); op {
			case "deposit":
				amt := big.NewInt(int64(rapid.SampledFrom([]int{1, 2499, 2500, 2501, 4999, 5000, 1000000}).Draw(rt, "amount")))
				opts := bind.NewKeyedTransactor(w.key)
				opts.Value = amt
				if _, err := f.contract.AddBalance(opts); err != nil {
					fail("addBalance: %v", err)
				}
				f.backend.Commit()
				hist = append(hist, fmt.Sprintf("%s deposits %s on chain", w.name, amt))
			case "accrue":
				amt := big.NewInt(int64(rapid.SampledFrom([]int{1, 2500, 5000, 70000}).Draw(rt, "credit")))
				if err := f.st.AddAccountBalance(store.Account(w.addr), amt); err != nil {
					fail("accrue: %v", err)
				}
				credit[w.addr].Add(credit[w.addr], amt)
				hist = append(hist, fmt.Sprintf("%s earns credit %s", w.name, amt))
			case "withdraw", "withdrawTwice":
				dep, ok := f.waitProxyDeposit(w.addr)
				if !ok {
					fail("the proxy's deposit for %s never caught up with the chain (%v vs %s)", w.name, dep, f.onChainDeposit(w.addr))
				}
				total := new(big.Int).Add(dep, credit[w.addr])
				pays := feeOf(total)
				contractFunds := f.chainBalance(f.addr.Hex())
				expectExec := !(min != nil && total.Cmp(min) < 0) && pays.Sign() >= 0 && pays.Cmp(contractFunds) <= 0
				before := f.chainBalance(w.addr)
				err := doWithdraw(w)
				var err2 error
				second := op == "withdrawTwice"
				if second {
					// the owner (or an impatient client library) asks again before the settlement transaction is mined
					err2 = doWithdraw(w)
				}
				f.backend.Commit()
				after := f.chainBalance(w.addr)
				got := new(big.Int).Sub(after, before)
				hist = append(hist, fmt.Sprintf("%s withdraws (deposit %s + credit %s = %s, pays %s, contract holds %s) -> err=%v, received %s", w.name, dep, credit[w.addr], total, pays, contractFunds, err, got))
				if classifyErr(err).Kind == "verify" {
					fail("correctly signed withdraw refused: %v", err)
				}
				if expectExec {
					if err != nil {
						fail("withdrawal of %s (total %s >= minimum %v, contract can pay) failed: %v", w.name, total, min, err)
					}
					if got.Cmp(pays) != 0 {
						again := ""
						if second {
							again = " (two withdrawals were sent before the block was mined: the same balance must not be paid twice)"
						}
						fail("wallet %s received %s on chain, must receive exactly fee(deposit+credit) = %s%s", w.name, got, pays, again)
					}
					credit[w.addr].SetInt64(0)
					if d := f.onChainDeposit(w.addr); d.Sign() != 0 {
						fail("after the withdrawal the on-chain deposit of %s is %s, want 0", w.name, d)
					}
					sb, _ := f.st.GetAccountBalance(store.Account(w.addr))
					if sb.Credit.Sign() != 0 {
						fail("after the withdrawal the stored credit of %s is %s, want 0", w.name, sb.Credit.String())
					}
					if second {
						hist = append(hist, fmt.Sprintf("   (a second withdrawal of %s was sent before the block was mined -> err=%v)", w.name, err2))
						paidThenAgain = true
					}
				} else {
					if got.Sign() != 0 {
						fail("withdrawal of %s must not execute (total %s, minimum %v, pays %s, contract holds %s) but the wallet received %s", w.name, total, min, pays, contractFunds, got)
					}
					sb, _ := f.st.GetAccountBalance(store.Account(w.addr))
					if sb.Credit.Cmp(credit[w.addr]) != 0 {
						fail("refused/failed withdrawal changed the stored credit of %s: %s -> %s", w.name, credit[w.addr], sb.Credit.String())
					}
					if d := f.onChainDeposit(w.addr); d.Cmp(dep) != 0 {
						fail("refused/failed withdrawal changed the on-chain deposit of %s: %s -> %s", w.name, dep, d)
					}
				}
			}
			kinds = append(kinds, "op")
		}
		rec.Case(fmt.Sprintf("chain|%s|%v|%v", fee, min, hist), paidThenAgain, []string{"contract", fmt.Sprintf("contract:second-withdraw:%v", paidThenAgain)}, func() interface{} {
			return map[string]interface{}{"kind": "real contract proxy on a simulated chain", "fee": fee, "withdraw_min": fmt.Sprint(min), "history": hist}
		})
	})
}

var _ = crypto.Keccak256
