package props

// C07 against the REAL deposit proxy and settlement: payment.ContractPayment
// over the vipnode pool contract deployed on go-ethereum's simulated chain.

import (
	"context"
	"errors"
	"fmt"
	"github.com/vipnode/vipnode/v2/pool/balance"
	"math/big"
	"strings"
	"sync"
	"testing"
	"time"

	ethereum "github.com/ethereum/go-ethereum"
	"github.com/ethereum/go-ethereum/accounts/abi/bind"
	"github.com/ethereum/go-ethereum/accounts/abi/bind/backends"
	"github.com/ethereum/go-ethereum/common"
	"github.com/ethereum/go-ethereum/core"
	"github.com/ethereum/go-ethereum/core/types"
	"github.com/ethereum/go-ethereum/crypto"
	"github.com/vipnode/vipnode-contract/go/vipnodepool"
	"github.com/vipnode/vipnode/v2/pool/payment"
	"github.com/vipnode/vipnode/v2/pool/store"
	"github.com/vipnode/vipnode/v2/pool/store/memory"
	"pgregory.net/rapid"

	"verif/vt"
)

type chainFixture struct {
	backend  *backends.SimulatedBackend
	provider *harnessProvider
	contract *vipnodepool.VipnodePool
	addr     common.Address
	operator ident
	wallets  []ident
	st       store.Store
	proxy    store.BalanceStore
	pay      *payment.PaymentService
}

// harnessProvider is the RPC provider the proxy talks to: the simulated chain, optionally answering "pending" calls
// from the latest block (many public providers do), and with the delivery of contract events under harness control
// (a subscription delivers events some time after the block; the harness can hold them back and release them at a
// chosen point, in order).
type harnessProvider struct {
	*backends.SimulatedBackend
	pendingIsLatest bool
	mu              sync.Mutex
	hold            bool
	queue           []types.Log
	forwarded       int
	out             chan<- types.Log
	subs            []ethereum.Subscription
	ambiguousNext   bool
	parkNextCall    *parkedCall
	failCalls       bool // contract calls fail (the provider is down)
	sent            int
	recv0           int                   // logs the first subscription (the pool's original one) has received
	q0              *ethereum.FilterQuery // its filter
}

// caughtUp waits until the first subscription has received every log that is on the chain (the simulated backend
// hands logs to subscriptions asynchronously; a subscription installed while a block's logs are still under way
// would receive them as well).
func (p *harnessProvider) caughtUp(limit time.Duration) bool {
	p.mu.Lock()
	q := p.q0
	p.mu.Unlock()
	if q == nil {
		return false
	}
	all := *q
	all.FromBlock, all.ToBlock = big.NewInt(0), nil
	deadline := time.Now().Add(limit)
	for {
		logs, err := p.SimulatedBackend.FilterLogs(context.Background(), all)
		p.mu.Lock()
		got := p.recv0
		p.mu.Unlock()
		if err == nil && got >= len(logs) {
			return true
		}
		if time.Now().After(deadline) {
			return false
		}
		time.Sleep(time.Millisecond)
	}
}

// shutdown ends the log subscriptions (the proxy's event loop has no other way to stop and would keep the whole
// simulated chain of this case alive for the rest of the process).
func (p *harnessProvider) shutdown() {
	p.mu.Lock()
	subs := p.subs
	p.subs = nil
	p.mu.Unlock()
	for _, s := range subs {
		s.Unsubscribe()
	}
}

func (p *harnessProvider) PendingCallContract(ctx context.Context, call ethereum.CallMsg) ([]byte, error) {
	var out []byte
	var err error
	p.mu.Lock()
	failing := p.failCalls
	p.mu.Unlock()
	if failing {
		return nil, errors.New("provider: 503 service unavailable")
	}
	if p.pendingIsLatest {
		out, err = p.SimulatedBackend.CallContract(ctx, call, nil)
	} else {
		out, err = p.SimulatedBackend.PendingCallContract(ctx, call)
	}
	// a slow answer: the call was evaluated against the chain as it is NOW, the reply reaches the pool later
	p.mu.Lock()
	park := p.parkNextCall
	p.parkNextCall = nil
	p.mu.Unlock()
	if park != nil {
		close(park.evaluated)
		<-park.deliver
	}
	return out, err
}

type parkedCall struct{ evaluated, deliver chan struct{} }

// slowNextCall makes the answer to the next contract call travel slowly: evaluated at once, delivered on demand.
func (p *harnessProvider) slowNextCall() *parkedCall {
	pc := &parkedCall{evaluated: make(chan struct{}), deliver: make(chan struct{})}
	p.mu.Lock()
	p.parkNextCall = pc
	p.mu.Unlock()
	return pc
}

// SendTransaction sometimes delivers the transaction and then reports a transport error (the reply was lost): the
// sender cannot know whether it went out.
func (p *harnessProvider) SendTransaction(ctx context.Context, tx *types.Transaction) error {
	err := p.SimulatedBackend.SendTransaction(ctx, tx)
	p.mu.Lock()
	amb := p.ambiguousNext
	p.ambiguousNext = false
	p.sent++
	p.mu.Unlock()
	if err == nil && amb {
		return errors.New("read tcp: connection reset by peer")
	}
	return err
}

func (p *harnessProvider) SubscribeFilterLogs(ctx context.Context, q ethereum.FilterQuery, ch chan<- types.Log) (ethereum.Subscription, error) {
	in := make(chan types.Log, 256)
	sub, err := p.SimulatedBackend.SubscribeFilterLogs(ctx, q, in)
	if err != nil {
		return nil, err
	}
	p.mu.Lock()
	p.out = ch
	first := len(p.subs) == 0 && p.q0 == nil
	if first {
		qq := q
		p.q0 = &qq
	}
	p.subs = append(p.subs, sub)
	p.mu.Unlock()
	go func() {
		for {
			select {
			case l := <-in:
				p.mu.Lock()
				if first {
					p.recv0++
				}
				if p.hold {
					p.queue = append(p.queue, l)
					p.mu.Unlock()
					continue
				}
				p.forwarded++
				p.mu.Unlock()
				ch <- l
			case <-sub.Err():
				return
			}
		}
	}()
	return sub, nil
}

func (p *harnessProvider) setHold() {
	p.mu.Lock()
	p.hold = true
	p.mu.Unlock()
}

func (p *harnessProvider) holding() bool {
	p.mu.Lock()
	defer p.mu.Unlock()
	return p.hold
}

// release hands the held events to the subscriber, in order, and gives it a moment to apply them.
func (p *harnessProvider) release() int {
	time.Sleep(3 * time.Millisecond) // let events of the last block reach the queue
	p.mu.Lock()
	q := p.queue
	out := p.out
	p.queue = nil
	p.hold = false
	p.mu.Unlock()
	for _, l := range q {
		out <- l
	}
	time.Sleep(3 * time.Millisecond)
	return len(q)
}

func eth(n int64) *big.Int { return new(big.Int).Mul(big.NewInt(n), big.NewInt(1e18)) }

func newChainFixture(t interface{ Fatalf(string, ...interface{}) }, fee string, min *big.Int, pendingIsLatest bool) *chainFixture {
	f := &chainFixture{operator: walletIdent(3), wallets: []ident{walletIdent(0), walletIdent(1)}}
	alloc := core.GenesisAlloc{common.HexToAddress(f.operator.addr): {Balance: eth(1000)}}
	for _, w := range f.wallets {
		alloc[common.HexToAddress(w.addr)] = core.GenesisAccount{Balance: eth(1000)}
	}
	f.backend = backends.NewSimulatedBackend(alloc, 8000000)
	opts := bind.NewKeyedTransactor(f.operator.key)
	addr, _, c, err := vipnodepool.DeployVipnodePool(opts, f.backend, common.HexToAddress(f.operator.addr))
	if err != nil {
		t.Fatalf("deploy: %v", err)
	}
	f.backend.Commit()
	f.addr, f.contract = addr, c
	f.st = memory.New()
	f.provider = &harnessProvider{SimulatedBackend: f.backend, pendingIsLatest: pendingIsLatest}
	cp, err := payment.ContractPayment(f.st, addr, f.provider, bind.NewKeyedTransactor(f.operator.key))
	if err != nil {
		t.Fatalf("ContractPayment: %v", err)
	}
	f.proxy = cp
	f.pay = &payment.PaymentService{NonceStore: f.st, AccountStore: f.st, BalanceStore: cp, Settle: cp.OpSettle, WithdrawMin: min}
	switch fee {
	case "const":
		f.pay.WithdrawFee = func(a *big.Int) *big.Int { return new(big.Int).Sub(a, big.NewInt(2500)) }
	case "prop":
		f.pay.WithdrawFee = func(a *big.Int) *big.Int {
			return new(big.Int).Div(new(big.Int).Mul(a, big.NewInt(99)), big.NewInt(100))
		}
	}
	return f
}

func (f *chainFixture) chainBalance(a string) *big.Int {
	b, err := f.backend.BalanceAt(context.Background(), common.HexToAddress(a), nil)
	if err != nil {
		panic(err)
	}
	return b
}

func (f *chainFixture) onChainDeposit(a string) *big.Int {
	r, err := f.contract.Accounts(nil, common.HexToAddress(a))
	if err != nil {
		panic(err)
	}
	return r.Balance
}

func (f *chainFixture) timeLocked(a string) bool {
	r, err := f.contract.Accounts(nil, common.HexToAddress(a))
	if err != nil {
		panic(err)
	}
	return r.TimeLocked.Sign() != 0
}

// waitProxyDeposit waits until the proxy's view of the deposit equals the chain (the proxy follows Balance events).
func (f *chainFixture) waitProxyDeposit(a string) (*big.Int, bool) {
	want := f.onChainDeposit(a)
	deadline := time.Now().Add(10 * time.Second)
	for {
		b, err := f.proxy.GetAccountBalance(store.Account(a))
		if err == nil && b.Deposit.Cmp(want) == 0 {
			return want, true
		}
		if time.Now().After(deadline) {
			if err == nil {
				return &b.Deposit, false
			}
			return nil, false
		}
		time.Sleep(2 * time.Millisecond)
	}
}

// c07RestartKey names the listed finding "a restarted pool forgets the settlement it submitted" (KNOWN_FINDINGS.txt).
const c07RestartKey = "restart-forgets-pending-settlement"

func TestC07Contract(t *testing.T) {
	rec := vt.For("C07")
	rec.Rule("real proxy and settlement: payment.ContractPayment over the vipnode pool contract deployed on go-ethereum's simulated chain (operator key, wallets with funds; the provider answers pending calls from the pending state or, like many public providers, from the latest block), real PaymentService with generated fee and minimum; each wallet talks to the pool under a generated spelling of its address (EIP-55, lower-case, upper-case hex) and sometimes under a second one; rules: on-chain deposit (addBalance + block), credit accrual in the store, the owner's forceSettle (time lock), withdraw (+ block), two withdrawals of one wallet before the block is mined (same or different spelling); oracle: a withdrawal executes iff deposit+credit >= minimum (and the contract can pay), the wallet's on-chain ether grows by exactly fee(deposit+credit), its on-chain deposit and its stored credit are 0 afterwards, a repeated withdrawal pays nothing more (under another spelling: only that spelling's own credit, never the deposit again), a refused/failed one changes nothing; with a time-locked deposit a withdrawal is either refused without effect or pays deposit+credit in full; non-trivial = a successful withdrawal followed by another attempt; distinct by config + op sequence")
	rec.Assume("the simulated chain mines a block when the harness says so; the proxy's deposit view is awaited (it follows Balance events asynchronously) before each decision that depends on it")
	knownRestart := vt.Known("C07", c07RestartKey)
	knownRestartSeen := false
	defer func() {
		if knownRestartSeen {
			vt.ReportKnown("C07", c07RestartKey)
		}
	}()
	check(t, func(rt *rapid.T) {
		fee := rapid.SampledFrom([]string{"", "const", "prop"}).Draw(rt, "fee")
		var min *big.Int
		switch rapid.IntRange(0, 2).Draw(rt, "min") {
		case 1:
			min = big.NewInt(0)
		case 2:
			min = big.NewInt(5000)
		}
		pendingIsLatest := rapid.Bool().Draw(rt, "pendingIsLatest")
		f := newChainFixture(rt, fee, min, pendingIsLatest)
		restarted := false
		lateToRestartedSeen := false
		defer f.backend.Close()
		defer f.provider.shutdown()
		feeOf := func(a *big.Int) *big.Int {
			switch fee {
			case "const":
				return new(big.Int).Sub(a, big.NewInt(2500))
			case "prop":
				return new(big.Int).Div(new(big.Int).Mul(a, big.NewInt(99)), big.NewInt(100))
			}
			return new(big.Int).Set(a)
		}
		// how each wallet spells its address towards the pool
		spell := func(w ident, how string) string {
			switch how {
			case "lower":
				return "0x" + strings.ToLower(w.addr[2:])
			case "upper":
				return "0x" + strings.ToUpper(w.addr[2:])
			}
			return w.addr
		}
		spellings := []string{"eip55", "lower", "upper"}
		home := map[string]string{}
		for _, w := range f.wallets {
			home[w.addr] = rapid.SampledFrom([]string{"eip55", "eip55", "lower", "upper"}).Draw(rt, "spelling:"+w.name)
		}
		credit := map[string]*big.Int{} // by account string as sent
		cr := func(a string) *big.Int {
			if credit[a] == nil {
				credit[a] = new(big.Int)
			}
			return credit[a]
		}
		var hist []string
		fail := func(format string, a ...interface{}) {
			rt.Fatalf("%s\nfee=%q min=%v provider answers pending from latest=%v\nhistory:\n  %s", fmt.Sprintf(format, a...), fee, min, pendingIsLatest, strings.Join(hist, "\n  "))
		}
		nonce := time.Now().UnixNano()
		doWithdraw := func(w ident, acct string) error {
			nonce++
			return f.pay.Withdraw(context.Background(), mustSign(w.key, "pool_withdraw", acct, nonce), acct, nonce)
		}
		// expectation for one withdrawal given the deposit it may still claim and the contract's funds
		expect := func(dep, cred, funds *big.Int) (exec bool, pays *big.Int) {
			total := new(big.Int).Add(dep, cred)
			pays = feeOf(total)
			exec = !(min != nil && total.Cmp(min) < 0) && pays.Sign() >= 0 && pays.Cmp(funds) <= 0
			return
		}
		storedCredit := func(a string) *big.Int {
			sb, _ := f.st.GetAccountBalance(store.Account(a))
			return new(big.Int).Set(&sb.Credit)
		}
		// touched: the proxy may hold a cached deposit for the wallet (it was looked up, or an event of it was delivered)
		touched := map[string]bool{}
		release := func() int {
			for _, w := range f.wallets {
				touched[w.addr] = true
			}
			return f.provider.release()
		}
		paidThenAgain, otherSpelling, lockedSeen := false, false, false
		n := rapid.IntRange(3, 10).Draw(rt, "steps")
		// a third of the histories open with the sharpest race: a wallet the pool has never looked at deposits, the
		// block's events are late, and the wallet withdraws twice before they arrive
		opening := rapid.IntRange(0, 2).Draw(rt, "lateDepositOpening") == 0
		openingWallet := rapid.IntRange(0, 1).Draw(rt, "openingWallet")
		for i := 0; i < n; i++ {
			w := f.wallets[rapid.IntRange(0, 1).Draw(rt, "wallet")]
			op := rapid.SampledFrom([]string{"deposit", "deposit", "accrue", "accrue", "withdraw", "withdraw", "withdrawTwice", "withdrawTwice", "forceSettle", "lockedWithdraw"}).Draw(rt, "op")
			forced := opening && i < 2
			if forced {
				w = f.wallets[openingWallet]
				op = []string{"deposit", "withdrawTwice"}[i]
			}
			acct := spell(w, home[w.addr])
			if op == "lockedWithdraw" {
				// the owner starts taking the deposit out on chain (time lock) and asks the pool for a withdrawal as well
				if f.onChainDeposit(w.addr).Sign() == 0 {
					if !touched[w.addr] && rapid.Bool().Draw(rt, "lockedHoldEvents") {
						f.provider.setHold()
					}
					if !f.provider.holding() {
						touched[w.addr] = true
					}
					opts := bind.NewKeyedTransactor(w.key)
					opts.Value = big.NewInt(int64(rapid.SampledFrom([]int{2501, 5000, 1000000}).Draw(rt, "lockedDeposit")))
					if _, err := f.contract.AddBalance(opts); err != nil {
						fail("addBalance: %v", err)
					}
					f.backend.Commit()
					hist = append(hist, fmt.Sprintf("%s deposits %s on chain", w.name, opts.Value))
				}
				amt := big.NewInt(int64(rapid.SampledFrom([]int{1, 5000, 70000}).Draw(rt, "lockedCredit")))
				if err := f.st.AddAccountBalance(store.Account(acct), amt); err != nil {
					fail("accrue: %v", err)
				}
				cr(acct).Add(cr(acct), amt)
				hist = append(hist, fmt.Sprintf("%s earns credit %s (account spelled %s)", w.name, amt, acct))
				if _, err := f.contract.ForceSettle(bind.NewKeyedTransactor(w.key)); err == nil {
					f.backend.Commit()
					hist = append(hist, fmt.Sprintf("%s calls forceSettle on chain (time lock set: %v)", w.name, f.timeLocked(w.addr)))
				}
				op = "withdraw"
			}
			switch op {
			case "deposit":
				amt := big.NewInt(int64(rapid.SampledFrom([]int{1, 2499, 2500, 2501, 4999, 5000, 1000000}).Draw(rt, "amount")))
				opts := bind.NewKeyedTransactor(w.key)
				opts.Value = amt
				held := ""
				if forced || rapid.IntRange(0, 2).Draw(rt, "holdEvents") == 0 {
					f.provider.setHold()
					held = " (the provider delivers the events of this block late)"
				}
				if _, err := f.contract.AddBalance(opts); err != nil {
					fail("addBalance: %v", err)
				}
				f.backend.Commit()
				if !f.provider.holding() {
					touched[w.addr] = true
				}
				hist = append(hist, fmt.Sprintf("%s deposits %s on chain%s", w.name, amt, held))
			case "accrue":
				a := acct
				if rapid.IntRange(0, 5).Draw(rt, "accrueOther") == 0 {
					a = spell(w, rapid.SampledFrom(spellings).Draw(rt, "accrueSpelling"))
				}
				amt := big.NewInt(int64(rapid.SampledFrom([]int{1, 2500, 5000, 70000}).Draw(rt, "credit")))
				if err := f.st.AddAccountBalance(store.Account(a), amt); err != nil {
					fail("accrue: %v", err)
				}
				cr(a).Add(cr(a), amt)
				hist = append(hist, fmt.Sprintf("%s earns credit %s (account spelled %s)", w.name, amt, a))
			case "forceSettle":
				if _, err := f.contract.ForceSettle(bind.NewKeyedTransactor(w.key)); err != nil {
					hist = append(hist, fmt.Sprintf("%s calls forceSettle on chain -> %v", w.name, err))
					break
				}
				f.backend.Commit()
				hist = append(hist, fmt.Sprintf("%s calls forceSettle on chain (time lock set: %v)", w.name, f.timeLocked(w.addr)))
			case "withdraw", "withdrawTwice":
				if !forced && rapid.IntRange(0, 4).Draw(rt, "withdrawOther") == 0 {
					acct = spell(w, rapid.SampledFrom(spellings).Draw(rt, "withdrawSpelling"))
				}
				locked := f.timeLocked(w.addr)
				dep := f.onChainDeposit(w.addr)
				lateEvents := false
				if f.provider.holding() {
					// events are still under way: when the proxy reads the right deposit anyway (first look-up of this
					// account: it asks the chain), the withdrawal goes ahead and the events arrive right after its first request
					if locked && !touched[w.addr] {
						// the proxy has never looked at this wallet: its first look-up goes to the chain
						lateEvents = true
					} else if b, err := f.proxy.GetAccountBalance(store.Account(acct)); !locked && err == nil && b.Deposit.Cmp(dep) == 0 {
						lateEvents = true
					} else {
						n := release()
						hist = append(hist, fmt.Sprintf("(%d late events delivered)", n))
					}
				}
				if locked && touched[w.addr] {
					// the proxy's cached view must have caught up with the chain (or it answers with the time-lock error)
					deadline := time.Now().Add(5 * time.Second)
					for {
						b, err := f.proxy.GetAccountBalance(store.Account(acct))
						if err != nil || b.Deposit.Cmp(dep) == 0 {
							break
						}
						if time.Now().After(deadline) {
							fail("the proxy's deposit for %s (time-locked) never caught up with the chain (proxy %s, chain %s)", w.name, b.Deposit.String(), dep)
						}
						time.Sleep(2 * time.Millisecond)
					}
				}
				touched[w.addr] = true
				if !locked {
					got, ok := f.waitProxyDeposit(acct)
					if !ok {
						fail("the proxy's deposit for %s (account spelled %s) never caught up with the chain (proxy %v, chain %s)", w.name, acct, got, dep)
					}
				}
				second := op == "withdrawTwice"
				acct2 := acct
				if second && !forced && rapid.IntRange(0, 2).Draw(rt, "secondOther") == 0 {
					acct2 = spell(w, rapid.SampledFrom(spellings).Draw(rt, "secondSpelling"))
				}
				funds := f.chainBalance(f.addr.Hex())
				cred1 := new(big.Int).Set(cr(acct))
				exec1, pays1 := expect(dep, cred1, funds)
				before := f.chainBalance(w.addr)
				ambiguous := !second && !locked && rapid.IntRange(0, 5).Draw(rt, "replyOfSendLost") == 0
				if ambiguous {
					f.provider.mu.Lock()
					f.provider.ambiguousNext = true
					f.provider.mu.Unlock()
				}
				err := doWithdraw(w, acct)
				if ambiguous {
					f.provider.mu.Lock()
					f.provider.ambiguousNext = false
					f.provider.mu.Unlock()
					if lateEvents {
						release()
					}
					f.backend.Commit()
					got := new(big.Int).Sub(f.chainBalance(w.addr), before)
					hist = append(hist, fmt.Sprintf("%s withdraws as %s (deposit %s + credit %s, would pay %s); the provider loses the reply to the settlement transaction -> err=%v, received %s", w.name, acct, dep, cred1, pays1, err, got))
					// the pool cannot know whether the transaction went out; whatever it decides, one request must not
					// be paid more than once
					if got.Sign() != 0 && got.Cmp(pays1) != 0 {
						fail("one withdraw request whose settlement reply was lost paid %s; at most %s (once) is owed", got, pays1)
					}
					for _, a := range []string{acct} {
						credit[a] = storedCredit(a)
					}
					touched[w.addr] = true
					continue
				}
				// the pool may be restarted between the two requests: a new proxy on the same store and chain, nothing
				// remembered; what it learns about the deposit it learns from the chain's pending state, where the first
				// settlement already is
				restartNow := second && !pendingIsLatest && rapid.IntRange(0, 2).Draw(rt, "restartBetween") == 0
				lateToRestarted := false
				if restartNow && !lateEvents && !f.provider.caughtUp(5*time.Second) {
					restartNow = false // (logs of mined blocks still under way inside the simulated backend: not this time)
					rec.Count("contract:restart-skipped-logs-under-way", 1)
				}
				if restartNow {
					cp2, err := payment.ContractPayment(f.st, f.addr, f.provider, bind.NewKeyedTransactor(f.operator.key))
					if err != nil {
						fail("ContractPayment (restart): %v", err)
					}
					f.proxy = cp2
					f.pay.BalanceStore, f.pay.Settle = cp2, cp2.OpSettle
					restarted = true
					hist = append(hist, "(pool restarted: new contract proxy, first settlement still unmined)")
					lateToRestarted = lateEvents
					lateToRestartedSeen = lateToRestartedSeen || lateToRestarted
				}
				if lateEvents {
					n := release()
					if lateToRestarted {
						hist = append(hist, fmt.Sprintf("(%d events of blocks mined before the restart reach the restarted pool only now)", n))
					} else {
						hist = append(hist, fmt.Sprintf("(%d events of earlier blocks are delivered only now, after %s's withdraw request)", n, w.name))
					}
				}
				var err2 error
				if second {
					// the owner (or an impatient client library) asks again before the settlement transaction is mined
					err2 = doWithdraw(w, acct2)
				}
				f.backend.Commit()
				got := new(big.Int).Sub(f.chainBalance(w.addr), before)
				hist = append(hist, fmt.Sprintf("%s withdraws as %s (deposit %s%s + credit %s, would pay %s, contract holds %s) -> err=%v", w.name, acct, dep, map[bool]string{true: " TIME-LOCKED", false: ""}[locked], cred1, pays1, funds, err))
				if second {
					hist = append(hist, fmt.Sprintf("   and again as %s before the block is mined (own credit %s) -> err=%v; received %s in total", acct2, cr(acct2), err2, got))
				} else {
					hist = append(hist, fmt.Sprintf("   received %s", got))
				}
				if classifyErr(err).Kind == "verify" || classifyErr(err2).Kind == "verify" {
					fail("correctly signed withdraw refused: %v / %v", err, err2)
				}
				if locked {
					lockedSeen = true
					// a time-locked deposit: the request is either refused without any effect, or carried out in full
					if err != nil || (second && err2 != nil && got.Sign() == 0) {
						if err != nil && got.Sign() != 0 && !second {
							fail("withdrawal with a time-locked deposit returned %v but the wallet received %s", err, got)
						}
					}
					if err == nil && !second {
						if exec1 && got.Cmp(pays1) != 0 {
							fail("withdrawal with a time-locked deposit was carried out but paid %s; the balance is deposit %s + credit %s, so exactly %s is owed (and the deposit is gone: on-chain deposit now %s)", got, dep, cred1, pays1, f.onChainDeposit(w.addr))
						}
					}
					if err != nil && !second {
						if d := f.onChainDeposit(w.addr); d.Cmp(dep) != 0 {
							fail("refused withdrawal (time lock) changed the on-chain deposit: %s -> %s", dep, d)
						}
						if sc := storedCredit(acct); sc.Cmp(cred1) != 0 {
							fail("refused withdrawal (time lock) changed the stored credit: %s -> %s", cred1, sc)
						}
					}
					// resynchronise the model with whatever happened
					for _, a := range []string{acct, acct2} {
						credit[a] = storedCredit(a)
					}
					break
				}
				// expectation for the second request: the deposit was claimed by the first if that executed
				exec2, pays2 := false, new(big.Int)
				if second {
					dep2, funds2, cred2 := dep, funds, new(big.Int).Set(cr(acct2))
					if exec1 {
						dep2 = new(big.Int)
						funds2 = new(big.Int).Sub(funds, pays1)
						if acct2 == acct {
							cred2 = new(big.Int)
						}
					}
					exec2, pays2 = expect(dep2, cred2, funds2)
					if acct2 != acct {
						otherSpelling = true
					}
				}
				want := new(big.Int)
				if exec1 {
					want.Add(want, pays1)
				}
				if exec2 {
					want.Add(want, pays2)
				}
				if exec1 && err != nil {
					fail("withdrawal of %s (deposit %s + credit %s >= minimum %v, contract can pay) failed: %v", w.name, dep, cred1, min, err)
				}
				if got.Cmp(want) != 0 && lateToRestarted && exec1 && knownRestart {
					// the listed finding: the restarted pool has no memory of the settlement it submitted; a Balance
					// event from before it puts the paid-out deposit back and the second request is paid from it again
					cred2 := new(big.Int).Set(cr(acct2))
					if acct2 == acct {
						cred2 = new(big.Int)
					}
					if again, paysAgain := expect(dep, cred2, new(big.Int).Sub(funds, pays1)); again && got.Cmp(new(big.Int).Add(pays1, paysAgain)) == 0 {
						rec.Excluded(c07RestartKey, 1)
						knownRestartSeen = true
						hist = append(hist, "   (known finding: the deposit was paid a second time)")
						for _, a := range []string{acct, acct2} {
							credit[a] = storedCredit(a)
						}
						paidThenAgain = true
						continue
					}
				}
				if got.Cmp(want) != 0 {
					fail("wallet %s received %s on chain, must receive exactly %s (first request: executes=%v pays %s; second: executes=%v pays %s) - a deposit or credit was paid twice, or not in full", w.name, got, want, exec1, pays1, exec2, pays2)
				}
				if exec1 {
					credit[acct] = new(big.Int)
				}
				if exec2 {
					credit[acct2] = new(big.Int)
				}
				wantDep := dep
				if exec1 || exec2 {
					wantDep = new(big.Int)
				}
				if d := f.onChainDeposit(w.addr); d.Cmp(wantDep) != 0 {
					fail("after the withdrawal(s) the on-chain deposit of %s is %s, want %s", w.name, d, wantDep)
				}
				for _, a := range []string{acct, acct2} {
					if sc := storedCredit(a); sc.Cmp(cr(a)) != 0 {
						fail("after the withdrawal(s) the stored credit of account %s is %s, want %s", a, sc, cr(a))
					}
				}
				if exec1 && second {
					paidThenAgain = true
				}
			}
		}
		rec.Case(fmt.Sprintf("chain|%s|%v|%v|%v", fee, min, pendingIsLatest, hist), paidThenAgain, []string{"contract", fmt.Sprintf("contract:restart-with-unmined-settlement:%v", restarted), fmt.Sprintf("contract:late-events-reach-restarted-pool:%v", lateToRestartedSeen), fmt.Sprintf("contract:second-withdraw:%v", paidThenAgain), fmt.Sprintf("contract:second-under-other-spelling:%v", otherSpelling), fmt.Sprintf("contract:time-locked-withdraw:%v", lockedSeen), fmt.Sprintf("contract:pending-is-latest:%v", pendingIsLatest)}, func() interface{} {
			return map[string]interface{}{"kind": "real contract proxy on a simulated chain", "fee": fee, "withdraw_min": fmt.Sprint(min), "provider_pending_is_latest": pendingIsLatest, "history": hist}
		})
	})
}

var _ = crypto.Keccak256

// TestC07LookupRace - a balance look-up of the wallet (pool_account, a client's keep-alive reading its wallet) whose
// answer from the chain travels slowly while the wallet withdraws: whatever the pool does with the late answer, the
// deposit is paid once.
func TestC07LookupRace(t *testing.T) {
	rec := vt.For("C07")
	rec.Rule("look-up racing a withdrawal (real proxy on the simulated chain): a wallet the pool has never looked at deposits (events held back), somebody looks its balance up and the chain's answer - evaluated before the withdrawal - is delivered only after the wallet's pool_withdraw has been settled; the wallet then withdraws again before the settlement is mined, and once more after it is mined; oracle: the wallet receives exactly fee(deposit+credit) once (nothing if below the minimum), its on-chain deposit and stored credit are 0 afterwards; distinct by (fee, minimum, amounts, provider mode, look-up kind)")
	check(t, func(rt *rapid.T) {
		fee := rapid.SampledFrom([]string{"", "const", "prop"}).Draw(rt, "fee")
		var min *big.Int
		if rapid.Bool().Draw(rt, "min") {
			min = big.NewInt(5000)
		}
		pendingIsLatest := rapid.Bool().Draw(rt, "pendingIsLatest")
		f := newChainFixture(rt, fee, min, pendingIsLatest)
		defer f.backend.Close()
		defer f.provider.shutdown()
		w := f.wallets[rapid.IntRange(0, 1).Draw(rt, "wallet")]
		other := f.wallets[0]
		if other.addr == w.addr {
			other = f.wallets[1]
		}
		acct := w.addr
		if rapid.Bool().Draw(rt, "lowerCase") {
			acct = "0x" + strings.ToLower(w.addr[2:])
		}
		// the contract holds other depositors' funds as well (what a second payment would be taken from)
		oo := bind.NewKeyedTransactor(other.key)
		oo.Value = big.NewInt(50000000)
		if _, err := f.contract.AddBalance(oo); err != nil {
			rt.Fatalf("addBalance: %v", err)
		}
		f.backend.Commit()
		dep := big.NewInt(int64(rapid.SampledFrom([]int{2501, 5000, 70000, 1000000}).Draw(rt, "deposit")))
		f.provider.setHold() // the wallet's Balance event is under way: the pool has no cached deposit for it
		wo := bind.NewKeyedTransactor(w.key)
		wo.Value = dep
		if _, err := f.contract.AddBalance(wo); err != nil {
			rt.Fatalf("addBalance: %v", err)
		}
		f.backend.Commit()
		cred := big.NewInt(int64(rapid.SampledFrom([]int{0, 1, 5000, 33333}).Draw(rt, "credit")))
		if cred.Sign() > 0 {
			if err := f.st.AddAccountBalance(store.Account(acct), cred); err != nil {
				rt.Fatal(err)
			}
		}
		viaNode := rapid.Bool().Draw(rt, "lookUpThroughANode")
		nodeID := store.NodeID(nodeIdent(0).nodeID)
		if viaNode {
			if err := f.st.SetNode(store.Node{ID: nodeID, LastSeen: time.Now()}); err != nil {
				rt.Fatal(err)
			}
			if err := f.st.AddAccountNode(store.Account(acct), nodeID); err != nil {
				rt.Fatal(err)
			}
		}
		total := new(big.Int).Add(dep, cred)
		var pays *big.Int
		switch fee {
		case "const":
			pays = new(big.Int).Sub(total, big.NewInt(2500))
		case "prop":
			pays = new(big.Int).Div(new(big.Int).Mul(total, big.NewInt(99)), big.NewInt(100))
		default:
			pays = new(big.Int).Set(total)
		}
		before := f.chainBalance(w.addr)
		// 1. the look-up: its chain call is evaluated now, its answer is on its way
		slow := f.provider.slowNextCall()
		lookDone := make(chan error, 1)
		go func() {
			var err error
			if viaNode {
				_, err = f.proxy.GetNodeBalance(nodeID)
			} else {
				_, err = f.proxy.GetAccountBalance(store.Account(acct))
			}
			lookDone <- err
		}()
		select {
		case <-slow.evaluated:
		case <-time.After(10 * time.Second):
			rt.Fatalf("[setup failed] the look-up never reached the chain")
		}
		// 2. the withdrawal (its own chain call is answered at once)
		nonce := time.Now().UnixNano()
		wd := func() error {
			nonce++
			return f.pay.Withdraw(context.Background(), mustSign(w.key, "pool_withdraw", acct, nonce), acct, nonce)
		}
		err1 := wd()
		// 3. the look-up's answer arrives
		close(slow.deliver)
		if err := <-lookDone; err != nil {
			rt.Fatalf("look-up: %v", err)
		}
		// 4. the wallet asks again before the settlement is mined ...
		err2 := wd()
		f.provider.release()
		f.backend.Commit()
		// ... and once more afterwards
		time.Sleep(5 * time.Millisecond)
		err3 := wd()
		f.backend.Commit()
		got := new(big.Int).Sub(f.chainBalance(w.addr), before)
		got.Add(got, dep) // (the deposit itself left the wallet at the start of the window measured)
		_ = got
		received := new(big.Int).Sub(f.chainBalance(w.addr), before)
		exec := !(min != nil && total.Cmp(min) < 0) && pays.Sign() >= 0
		desc := fmt.Sprintf("fee=%q min=%v pending-from-latest=%v deposit=%s credit=%s account=%s look-up through a node=%v; withdraw errors: first %v, second (settlement unmined) %v, third (mined) %v", fee, min, pendingIsLatest, dep, cred, acct, viaNode, err1, err2, err3)
		if classifyErr(err1).Kind == "verify" {
			rt.Fatalf("correctly signed withdraw refused: %v", err1)
		}
		want := new(big.Int)
		if exec {
			want = pays
		}
		if received.Cmp(want) != 0 {
			rt.Fatalf("a balance look-up whose answer from the chain arrived after the wallet's withdrawal was settled: the wallet received %s in total, %s is owed once (deposit %s + credit %s after the fee)\n%s", received, want, dep, cred, desc)
		}
		if exec {
			if d := f.onChainDeposit(w.addr); d.Sign() != 0 {
				rt.Fatalf("on-chain deposit after the withdrawal is %s\n%s", d, desc)
			}
			if sb, _ := f.st.GetAccountBalance(store.Account(acct)); sb.Credit.Sign() != 0 {
				rt.Fatalf("stored credit after the withdrawal is %s\n%s", &sb.Credit, desc)
			}
		}
		rec.Case(fmt.Sprintf("lookuprace|%s|%v|%v|%s|%s|%v", fee, min, pendingIsLatest, dep, cred, viaNode), exec, []string{"contract:lookup-race", fmt.Sprintf("contract:lookup-race:paid:%v", exec)}, func() interface{} {
			return map[string]interface{}{"level": "contract, look-up racing a withdrawal", "fee": fee, "min": fmt.Sprint(min), "deposit": dep.String(), "credit": cred.String(), "lookup_through_node": viaNode, "received": received.String(), "errors": []string{fmt.Sprint(err1), fmt.Sprint(err2), fmt.Sprint(err3)}}
		})
	})
}

// TestC01ContractBilling - C01 with the balance store the pool command uses in contract mode: the real contract proxy
// between the balance manager and the store driver. A keep-alive is billed while the wallet's deposit cannot be looked
// up (provider down, nothing cached): whatever the keep-alive returns, credit is only moved.
func TestC01ContractBilling(t *testing.T) {
	rec := vt.For("C01")
	rec.Rule("contract mode: the real balance manager bills over the real contract proxy (payment.ContractPayment on the simulated chain, memory driver underneath); a light client linked to a wallet (deposit on chain, events held back so that nothing is cached, or already looked up) sends keep-alives with 1-3 host peers (trial balances or a shared wallet) while the provider answers or is down; oracle after every keep-alive, failed or not: the stored credits of all parties sum to zero, and a keep-alive that returned nil moved exactly peers x floor(elapsed x price / interval); distinct by configuration")
	check(t, func(rt *rapid.T) {
		f := newChainFixture(rt, "", nil, rapid.Bool().Draw(rt, "pendingIsLatest"))
		defer f.backend.Close()
		defer f.provider.shutdown()
		w := f.wallets[0]
		cached := rapid.Bool().Draw(rt, "depositLookedUpBefore")
		if !cached {
			f.provider.setHold()
		}
		wo := bind.NewKeyedTransactor(w.key)
		wo.Value = big.NewInt(int64(rapid.SampledFrom([]int{1, 5000, 1000000}).Draw(rt, "deposit")))
		if _, err := f.contract.AddBalance(wo); err != nil {
			rt.Fatalf("addBalance: %v", err)
		}
		f.backend.Commit()
		client := store.Node{ID: store.NodeID(nodeIdent(0).nodeID), Kind: "geth"}
		if err := f.st.SetNode(client); err != nil {
			rt.Fatal(err)
		}
		if err := f.st.AddAccountNode(store.Account(w.addr), client.ID); err != nil {
			rt.Fatal(err)
		}
		if cached {
			if _, ok := f.waitProxyDeposit(w.addr); !ok {
				rt.Fatalf("[setup failed] the proxy never saw the deposit")
			}
		}
		nHosts := rapid.IntRange(1, 3).Draw(rt, "hosts")
		var hosts []store.Node
		for h := 0; h < nHosts; h++ {
			n := store.Node{ID: store.NodeID(nodeIdent(1 + h).nodeID), IsHost: true, Kind: "geth", LastSeen: time.Now()}
			if err := f.st.SetNode(n); err != nil {
				rt.Fatal(err)
			}
			if rapid.Bool().Draw(rt, "hostOnWallet") {
				if err := f.st.AddAccountNode(store.Account(f.wallets[1].addr), n.ID); err != nil {
					rt.Fatal(err)
				}
			}
			hosts = append(hosts, n)
		}
		price := big.NewInt(int64(rapid.SampledFrom([]int{1, 1000, 1000000}).Draw(rt, "price")))
		mgr := balance.PayPerInterval(f.proxy, time.Second, price)
		total := func() *big.Int {
			sum := new(big.Int)
			seen := map[store.Account]bool{}
			for _, n := range append([]store.Node{client}, hosts...) {
				b, err := f.st.GetNodeBalance(n.ID)
				if err != nil {
					rt.Fatal(err)
				}
				if b.Account != "" {
					if seen[b.Account] {
						continue
					}
					seen[b.Account] = true
				}
				sum.Add(sum, &b.Credit)
			}
			return sum
		}
		var hist []string
		for k := rapid.IntRange(1, 4).Draw(rt, "keepAlives"); k > 0; k-- {
			down := rapid.Bool().Draw(rt, "providerDown")
			f.provider.mu.Lock()
			f.provider.failCalls = down
			f.provider.mu.Unlock()
			node := client
			node.LastSeen = time.Now().Add(-time.Duration(rapid.IntRange(1, 90).Draw(rt, "elapsedSeconds")) * time.Second)
			_, err := mgr.OnUpdate(node, hosts)
			hist = append(hist, fmt.Sprintf("keep-alive (provider down: %v, deposit cached: %v) -> err=%v", down, cached, err))
			if t := total(); t.Sign() != 0 {
				rt.Fatalf("contract mode: after a keep-alive of a wallet-linked client the stored credits sum to %s (credit was %s)\n  %s", t, map[bool]string{true: "created", false: "lost"}[t.Sign() > 0], strings.Join(hist, "\n  "))
			}
			if err == nil {
				cached = true // the closing balance read went to the chain
			}
		}
		f.provider.mu.Lock()
		f.provider.failCalls = false
		f.provider.mu.Unlock()
		rec.Case(fmt.Sprintf("contractbilling|%v|%d|%s|%d", cached, nHosts, price, len(hist)), true, []string{"contract-billing"}, func() interface{} {
			return map[string]interface{}{"level": "contract-mode billing", "hosts": nHosts, "price": price.String(), "history": hist}
		})
	})
}
