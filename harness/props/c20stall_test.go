package props

// C20 — "exactly one periodic keep-alive loop ... a keep-alive is sent every configured interval": a pool that takes
// several intervals to answer ONE keep-alive does not get the missed ones delivered in a burst afterwards.

import (
	"fmt"
	"sync"
	"testing"
	"time"

	"github.com/vipnode/vipnode/v2/agent"
	"github.com/vipnode/vipnode/v2/ethnode"
	"github.com/vipnode/vipnode/v2/pool"
	"pgregory.net/rapid"

	"verif/vt"
)

func TestC20Stall(t *testing.T) {
	defer vt.Watch("TestC20Stall", 120*time.Second)()
	rec := vt.For("C20")
	rec.Rule("stalled pool (virtual time): a real agent with a generated interval; the k-th keep-alive (k in 2..4) is answered only after 2.2-4.8 intervals, all others at once; the run goes on for several intervals and is stopped; oracle: keep-alives never overlap (one loop), at most two keep-alives start within any span shorter than one interval (a stall is followed by at most the one tick that was due, never by a burst of the missed ones), the loop keeps its period afterwards (later gaps equal the interval), Stop ends it and Wait returns nil; distinct by (interval, k, stall)")
	check(t, func(rt *rapid.T) {
		rapid.SyncTest(rt, func(rt *rapid.T) {
			interval := time.Duration(rapid.Int64Range(int64(time.Second), int64(119*time.Second)).Draw(rt, "interval")).Truncate(time.Millisecond)
			k := rapid.IntRange(2, 4).Draw(rt, "stalledKeepAlive")
			stall := time.Duration(float64(interval) * float64(rapid.IntRange(220, 480).Draw(rt, "stallPercent")) / 100)
			node := &recNode{enode: "enode://" + hexID(99) + "@[::]:30303", ua: ethnode.UserAgent{Version: "v", Kind: ethnode.Geth, IsFullNode: true, Network: 1}}
			sp := &scriptPool{}
			var mu sync.Mutex
			var starts []time.Time
			inFlight, maxInFlight := 0, 0
			sp.onUpdate = func(n int, req pool.UpdateRequest) (*pool.UpdateResponse, error) {
				mu.Lock()
				starts = append(starts, time.Now())
				inFlight++
				if inFlight > maxInFlight {
					maxInFlight = inFlight
				}
				mu.Unlock()
				if n == k {
					time.Sleep(stall)
				}
				mu.Lock()
				inFlight--
				mu.Unlock()
				return &pool.UpdateResponse{}, nil
			}
			a := &agent.Agent{EthNode: node, UpdateInterval: interval, NumHosts: 0}
			t0 := time.Now()
			if err := a.Start(sp); err != nil {
				rt.Fatalf("start: %v", err)
			}
			total := time.Duration(k+4)*interval + stall + interval/3
			time.Sleep(total)
			a.Stop()
			if err := a.Wait(); err != nil {
				rt.Fatalf("Wait after Stop: %v", err)
			}
			mu.Lock()
			defer mu.Unlock()
			var rel []string
			for _, s := range starts {
				rel = append(rel, s.Sub(t0).String())
			}
			desc := fmt.Sprintf("interval %s; keep-alive #%d answered after %s; keep-alives started at %v", interval, k, stall, rel)
			if maxInFlight > 1 {
				rt.Fatalf("%d keep-alives were in flight at the same time: more than one loop\n%s", maxInFlight, desc)
			}
			for i := 0; i+2 < len(starts); i++ {
				if starts[i+2].Sub(starts[i]) < interval {
					rt.Fatalf("three keep-alives started within %s, less than one interval: the keep-alives missed during the stall were sent in a burst\n%s", starts[i+2].Sub(starts[i]), desc)
				}
			}
			// the period is kept once the stall is over: from the second keep-alive after it on, gaps equal the interval
			for i := k + 2; i < len(starts); i++ {
				if g := starts[i].Sub(starts[i-1]); g != interval {
					rt.Fatalf("after the stall the gap between keep-alives #%d and #%d is %s, the configured interval is %s\n%s", i, i+1, g, interval, desc)
				}
			}
			if len(starts) < k+3 {
				rt.Fatalf("only %d keep-alives in %s\n%s", len(starts), total, desc)
			}
			rec.Case(fmt.Sprintf("stall|%s|%d|%s", interval, k, stall), true, []string{"stall"}, func() interface{} {
				return map[string]interface{}{"kind": "stalled pool", "interval": interval.String(), "stalled_keepalive": k, "stall": stall.String(), "starts": rel}
			})
		})
	})
}
