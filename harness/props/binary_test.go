package props

// Binary-level probing: the shipped `vipnode pool` binary is built from the
// working tree and driven over real HTTP and WebSocket connections, so that
// the wiring in package main (server.go, pool.go) is inside the loop.

import (
	"bufio"
	"context"
	"fmt"
	"net"
	"net/http"
	"os"
	"os/exec"
	"path/filepath"
	"strings"
	"sync"
	"sync/atomic"
	"testing"
	"time"

	"github.com/gorilla/websocket"
	"github.com/vipnode/vipnode/v2/ethnode"
	"github.com/vipnode/vipnode/v2/jsonrpc2"
	"github.com/vipnode/vipnode/v2/pool"
	"pgregory.net/rapid"

	"verif/vt"
)

var (
	binOnce sync.Once
	binPath string
	binErr  error
)

// vipnodeBinary builds the repository's main package once per test process.
func vipnodeBinary() (string, error) {
	binOnce.Do(func() {
		dir := os.Getenv("VERIF_WORKDIR")
		if dir == "" {
			dir = os.TempDir()
		}
		binPath = filepath.Join(dir, fmt.Sprintf("vipnode-%d", os.Getpid()))
		args := []string{"build", "-o", binPath}
		if os.Getenv("VERIF_BINARY_RACE") != "" {
			args = append(args, "-race")
		}
		args = append(args, ".")
		cmd := exec.Command("go1.26.8", args...)
		cmd.Dir = repoDir()
		env := []string{}
		for _, e := range os.Environ() {
			if !strings.HasPrefix(e, "GOFLAGS=") {
				env = append(env, e)
			}
		}
		cmd.Env = append(env, "GOFLAGS=-mod=mod", "GOPROXY=off", "GOSUMDB=off", "GOTOOLCHAIN=local")
		if out, err := cmd.CombinedOutput(); err != nil {
			binErr = fmt.Errorf("building the vipnode binary: %v\n%s", err, out)
		}
	})
	return binPath, binErr
}

func repoDir() string {
	if d := os.Getenv("VERIF_REPO"); d != "" {
		return d
	}
	return "/repo"
}

var poolSeq int64

type poolProc struct {
	cmd    *exec.Cmd
	exited chan struct{}
	addr   string
	mu     sync.Mutex
	stderr []string
}

func freePort() int {
	l, err := net.Listen("tcp", "127.0.0.1:0")
	if err != nil {
		panic(err)
	}
	defer l.Close()
	return l.Addr().(*net.TCPAddr).Port
}

func startPool(t interface{ Fatalf(string, ...interface{}) }, extra ...string) *poolProc {
	return startPoolOn(t, "127.0.0.1", extra...)
}

// startPoolOn starts the pool binary listening on the given host ("127.0.0.1", "[::]", ...). The port is picked
// by asking the kernel for a free one, which can collide with a parallel test process doing the same: a pool that
// exits right away (bind error) is started again on another port.
func startPoolOn(t interface{ Fatalf(string, ...interface{}) }, host string, extra ...string) *poolProc {
	p, err := tryStartPool(host, extra...)
	if err != nil {
		t.Fatalf("[setup failed] %v", err)
	}
	return p
}

// tryStartPool is startPoolOn returning the failure (for checks in which "the pool does not start" is a finding).
func tryStartPool(host string, extra ...string) (*poolProc, error) {
	bin, err := vipnodeBinary()
	if err != nil {
		return nil, err
	}
	var last *poolProc
	for attempt := 0; attempt < 6; attempt++ {
		p := &poolProc{addr: fmt.Sprintf("%s:%d", host, freePort()), exited: make(chan struct{})}
		last = p
		// the instance answers HTTP POSTs with this token in a header: proof that what listens on the port is the
		// process started here and not another test process's pool that got the same port from the kernel
		token := fmt.Sprintf("verif-%d-%d", os.Getpid(), atomic.AddInt64(&poolSeq, 1))
		args := append([]string{"pool", "--store=memory", "--bind", p.addr, "--allow-origin", token}, extra...)
		p.cmd = exec.Command(bin, args...)
		p.cmd.Env = append(os.Environ(), "HOME="+os.TempDir())
		pipe, _ := p.cmd.StderrPipe()
		if err := p.cmd.Start(); err != nil {
			return nil, fmt.Errorf("start pool: %v", err)
		}
		scanned := make(chan struct{})
		go func() {
			sc := bufio.NewScanner(pipe)
			sc.Buffer(make([]byte, 1<<20), 1<<20)
			for sc.Scan() {
				p.mu.Lock()
				p.stderr = append(p.stderr, sc.Text())
				p.mu.Unlock()
			}
			close(scanned)
		}()
		go func() {
			<-scanned
			p.cmd.Wait()
			close(p.exited)
		}()
		deadline := time.Now().Add(20 * time.Second)
		up := false
		for time.Now().Before(deadline) && !up {
			select {
			case <-p.exited:
				deadline = time.Now() // bind failed or crashed at start: try another port
				continue
			default:
			}
			c, err := net.DialTimeout("tcp", p.addr, 200*time.Millisecond)
			if err == nil {
				c.Close()
				up = true
				break
			}
			time.Sleep(30 * time.Millisecond)
		}
		if up {
			// make sure it is OUR process that listens there (a process that lost the race for the port exits, but on
			// a loaded machine not at once - thorough run #10 talked to a neighbour's pool that way)
			mine := false
			for i := 0; i < 50 && !mine; i++ {
				select {
				case <-p.exited:
					i = 50
					continue
				default:
				}
				hc := &http.Client{Timeout: 2 * time.Second}
				resp, err := hc.Post("http://"+p.addr+"/", "application/json", strings.NewReader(`{"jsonrpc":"2.0","id":1,"method":"vipnode_ping","params":[]}`))
				if err == nil {
					got := resp.Header.Get("Access-Control-Allow-Origin")
					resp.Body.Close()
					if got == token {
						mine = true
						break
					}
					break // somebody else's pool answers on this port
				}
				time.Sleep(50 * time.Millisecond)
			}
			if mine {
				return p, nil
			}
		}
		p.stop()
	}
	return nil, fmt.Errorf("pool binary did not start listening (last attempt on %s); stderr: %v", last.addr, last.log())
}

// died reports whether the pool process has ended although the test did not stop it.
func (p *poolProc) died() bool {
	if p == nil || p.exited == nil {
		return false
	}
	select {
	case <-p.exited:
		return true
	default:
		return false
	}
}

// dialFailure words a failed dial: an infrastructure problem ("[setup failed]": the port was taken, the machine is
// out of descriptors) unless the pool process itself is gone - then the pool has crashed, which is a finding.
func (p *poolProc) dialFailure(err error) string {
	if p.died() {
		return fmt.Sprintf("the pool process has died (it was not stopped by the test); dial: %v\npool log tail:\n%s", err, tailLines(p.log(), 25))
	}
	return fmt.Sprintf("[setup failed] dial: %v", err)
}

func (p *poolProc) log() string {
	p.mu.Lock()
	defer p.mu.Unlock()
	return strings.Join(p.stderr, "\n")
}

func (p *poolProc) stop() {
	if p.cmd != nil && p.cmd.Process != nil {
		p.cmd.Process.Kill()
		if p.exited != nil {
			<-p.exited
		} else {
			p.cmd.Wait()
		}
	}
}

// wsCodec is the harness's own gorilla codec (it keeps the *websocket.Conn so
// that tests can end the connection in different ways).
type wsTestCodec struct {
	conn *websocket.Conn
	wmu  sync.Mutex
}

func (c *wsTestCodec) RemoteAddr() string { return c.conn.RemoteAddr().String() }
func (c *wsTestCodec) Close() error       { return c.conn.Close() }
func (c *wsTestCodec) ReadMessage() (*jsonrpc2.Message, error) {
	var m jsonrpc2.Message
	if err := c.conn.ReadJSON(&m); err != nil {
		return nil, err
	}
	return &m, nil
}
func (c *wsTestCodec) WriteMessage(m *jsonrpc2.Message) error {
	c.wmu.Lock()
	defer c.wmu.Unlock()
	return c.conn.WriteJSON(m)
}

type wsAgent struct {
	id     ident
	codec  *wsTestCodec
	remote *jsonrpc2.Remote
	svc    *HostSvc
	done   chan struct{}
	open   bool
	connID int
}

func dialWS(addr string, id ident, connID int) (*wsAgent, error) {
	conn, _, err := websocket.DefaultDialer.Dial("ws://"+addr+"/", nil)
	if err != nil {
		return nil, err
	}
	a := &wsAgent{id: id, codec: &wsTestCodec{conn: conn}, svc: &HostSvc{}, done: make(chan struct{}), open: true, connID: connID}
	a.remote = &jsonrpc2.Remote{Codec: a.codec, Server: a.svc.handler(), Client: &jsonrpc2.Client{}}
	go func() { a.remote.Serve(); close(a.done) }()
	return a, nil
}

func (a *wsAgent) connectHost(ctx context.Context) error {
	req := pool.ConnectRequest{VipnodeVersion: "verif", NodeInfo: ethnode.UserAgent{Version: "Geth/verif", Kind: ethnode.Geth, IsFullNode: true, Network: 1}}
	n := time.Now().UnixNano()
	var resp pool.ConnectResponse
	return a.remote.Call(ctx, &resp, "vipnode_connect", mustSign(a.id.key, "vipnode_connect", a.id.nodeID, n, req), a.id.nodeID, n, req)
}

// end closes the WebSocket in one of several ways a real peer might.
func (a *wsAgent) end(mode string) {
	a.open = false
	switch mode {
	case "tcp-drop":
		a.codec.conn.UnderlyingConn().Close()
	case "close-1000", "close-1001", "close-1011":
		code := map[string]int{"close-1000": websocket.CloseNormalClosure, "close-1001": websocket.CloseGoingAway, "close-1011": websocket.CloseInternalServerErr}[mode]
		a.codec.wmu.Lock()
		a.codec.conn.WriteControl(websocket.CloseMessage, websocket.FormatCloseMessage(code, "bye"), time.Now().Add(time.Second))
		a.codec.wmu.Unlock()
		// give the server the chance to read the close frame, then drop
		time.Sleep(20 * time.Millisecond)
		a.codec.conn.Close()
	default:
		a.codec.conn.Close()
	}
	select {
	case <-a.done:
	case <-time.After(5 * time.Second):
	}
}

func httpClient(addr string) *jsonrpc2.HTTPService {
	return &jsonrpc2.HTTPService{Endpoint: "http://" + addr + "/"}
}

// TestC09Binary drives the registry property through the real server.go wiring.
func TestC09Binary(t *testing.T) {
	rec := vt.For("C09")
	rec.Rule("binary level (real time): the `vipnode pool` binary built from the working tree is driven over real WebSockets (hosts) and HTTP (a client); generated events: host registers on a new WebSocket, a connection ends by TCP drop / close frame 1000 / 1001 / 1011 / plain close, in any order incl. old-after-reconnect; oracle (registry model, polled for up to 10s after an event because the server learns of a close asynchronously): a peer request returns exactly the hosts whose most recently registered connection is open, instructs exactly those connections, and when none is left fails with 'no host nodes' rather than with a failed call to a closed connection; non-trivial = a reconnect and a close of a non-current connection, or a close by close-frame; distinct by event sequence")
	rec.Assume("binary-level timing is one-sided: a state is accepted as soon as it is observed within 10 s of the event; a slow server can only delay, never fake, the expected state")
	p := startPool(t)
	defer p.stop()
	ctxAll, cancelAll := context.WithCancel(context.Background())
	defer cancelAll()
	// one client over HTTP for probing
	client := nodeIdent(5)
	hc := httpClient(p.addr)
	{
		req := pool.ConnectRequest{VipnodeVersion: "verif", NodeInfo: ethnode.UserAgent{Version: "Geth/verif", Kind: ethnode.Geth, IsFullNode: false, Network: 1}}
		n := time.Now().UnixNano()
		var resp pool.ConnectResponse
		if err := hc.Call(ctxAll, &resp, "vipnode_connect", mustSign(client.key, "vipnode_connect", client.nodeID, n, req), client.nodeID, n, req); err != nil {
			t.Fatalf("client connect over HTTP: %v\npool log:\n%s", err, p.log())
		}
	}
	connSeq := 0
	check(t, func(rt *rapid.T) {
		nHosts := rapid.IntRange(1, 2).Draw(rt, "nHosts")
		conns := map[int][]*wsAgent{}
		current := map[int]*wsAgent{}
		var hist, kinds []string
		classes := map[string]bool{}
		defer func() {
			for _, cs := range conns {
				for _, c := range cs {
					if c.open {
						c.end("close")
					}
				}
			}
		}()
		fail := func(f string, a ...interface{}) {
			rt.Fatalf("%s\nhistory:\n  %s\npool log tail:\n%s", fmt.Sprintf(f, a...), strings.Join(hist, "\n  "), tailLines(p.log(), 15))
		}
		probe := func(label string) {
			var want, wantConns []string
			for h := 0; h < nHosts; h++ {
				if c := current[h]; c != nil && c.open {
					want = append(want, nodeIdent(h).name)
					wantConns = append(wantConns, fmt.Sprintf("%s@conn#%d", nodeIdent(h).name, c.connID))
				}
			}
			deadline := time.Now().Add(10 * time.Second)
			var lastGot []string
			var lastErr error
			var lastConns []string
			for {
				before := map[*wsAgent]int{}
				for _, cs := range conns {
					for _, c := range cs {
						before[c] = len(c.svc.Calls())
					}
				}
				req := pool.PeerRequest{Num: 3}
				n := time.Now().UnixNano()
				var resp pool.PeerResponse
				ctx, cancel := context.WithTimeout(ctxAll, 8*time.Second)
				err := hc.Call(ctx, &resp, "vipnode_peer", mustSign(client.key, "vipnode_peer", client.nodeID, n, req), client.nodeID, n, req)
				cancel()
				var got, gotConns []string
				for _, pn := range resp.Peers {
					got = append(got, nodeName(string(pn.ID)))
				}
				for h, cs := range conns {
					for _, c := range cs {
						if len(c.svc.Calls()) > before[c] {
							gotConns = append(gotConns, fmt.Sprintf("%s@conn#%d", nodeIdent(h).name, c.connID))
						}
					}
				}
				lastGot, lastErr, lastConns = got, err, gotConns
				ok := setEq(got, want) && setEq(gotConns, wantConns)
				if ok && len(want) == 0 && err != nil && strings.Contains(err.Error(), "failed to call") {
					ok = false // the pool still tried to call a connection that is closed
				}
				if ok && len(want) > 0 && err != nil {
					ok = false
				}
				if ok {
					hist = append(hist, fmt.Sprintf("%s: peer request -> %v (err=%v), instructed %v", label, got, err, gotConns))
					return
				}
				if time.Now().After(deadline) {
					break
				}
				time.Sleep(40 * time.Millisecond)
			}
			fail("%s: 10 s after the event a peer request still returns %v (err=%v) and instructs %v; hosts with a live most-recently-registered connection: %v", label, lastGot, lastErr, lastConns, wantConns)
		}
		n := rapid.IntRange(2, 7).Draw(rt, "steps")
		for k := 0; k < n; k++ {
			op := rapid.SampledFrom([]string{"connect", "connect", "end", "end", "probe", "httpConnect"}).Draw(rt, "op")
			switch op {
			case "httpConnect":
				// a full node posts its vipnode_connect to the plain HTTP endpoint (a script, a foreign agent): HTTP has no
				// connection the pool could call back on, so whatever the reply, the registry must be what it was
				h := rapid.IntRange(0, nHosts-1).Draw(rt, "host")
				id := nodeIdent(h)
				req := pool.ConnectRequest{VipnodeVersion: "verif", NodeInfo: ethnode.UserAgent{Version: "Geth/verif", Kind: ethnode.Geth, IsFullNode: true, Network: 1}}
				if rapid.Bool().Draw(rt, "httpConnectNamesAddress") {
					// ... naming the address it wants advertised (nothing else about the request changes)
					req.NodeURI = "enode://" + id.nodeID + "@203.0.113.5:30303"
				}
				nn := time.Now().UnixNano()
				var resp pool.ConnectResponse
				ctx, cancel := context.WithTimeout(ctxAll, 10*time.Second)
				err := httpClient(p.addr).Call(ctx, &resp, "vipnode_connect", mustSign(id.key, "vipnode_connect", id.nodeID, nn, req), id.nodeID, nn, req)
				cancel()
				classes["http-connect"] = true
				hist = append(hist, fmt.Sprintf("host %s sends vipnode_connect by plain HTTP POST -> err=%v", id.name, err))
			case "connect":
				h := rapid.IntRange(0, nHosts-1).Draw(rt, "host")
				connSeq++
				a, err := dialWS(p.addr, nodeIdent(h), connSeq)
				if err != nil {
					fail("%s", p.dialFailure(err))
				}
				ctx, cancel := context.WithTimeout(ctxAll, 10*time.Second)
				err = a.connectHost(ctx)
				cancel()
				if err != nil {
					fail("host connect over WebSocket: %v", err)
				}
				if len(conns[h]) > 0 {
					classes["reconnect"] = true
				}
				conns[h] = append(conns[h], a)
				current[h] = a
				hist = append(hist, fmt.Sprintf("host %s registers on conn#%d", nodeIdent(h).name, a.connID))
			case "end":
				var open []*wsAgent
				owner := map[*wsAgent]int{}
				for h, cs := range conns {
					for _, c := range cs {
						if c.open {
							open = append(open, c)
							owner[c] = h
						}
					}
				}
				if len(open) == 0 {
					continue
				}
				// deterministic order for the draw
				for i := 1; i < len(open); i++ {
					for j := i; j > 0 && open[j].connID < open[j-1].connID; j-- {
						open[j], open[j-1] = open[j-1], open[j]
					}
				}
				c := open[rapid.IntRange(0, len(open)-1).Draw(rt, "conn")]
				mode := rapid.SampledFrom([]string{"close", "tcp-drop", "close-1000", "close-1001", "close-1011"}).Draw(rt, "mode")
				if current[owner[c]] != c {
					classes["close-noncurrent"] = true
				}
				if strings.HasPrefix(mode, "close-1") {
					classes["close-frame"] = true
				}
				c.end(mode)
				hist = append(hist, fmt.Sprintf("conn#%d of %s ends (%s; was current: %v)", c.connID, nodeIdent(owner[c]).name, mode, current[owner[c]] == c))
				op = "end:" + mode
			case "probe":
			}
			kinds = append(kinds, op)
			probe("after " + op)
		}
		nontrivial := (classes["reconnect"] && classes["close-noncurrent"]) || classes["close-frame"]
		rec.Case("bin|"+strings.Join(kinds, ","), nontrivial, []string{"binary", fmt.Sprintf("binary:close-frame:%v", classes["close-frame"])}, func() interface{} {
			return map[string]interface{}{"kind": "pool binary over WebSocket/HTTP", "history": hist}
		})
	})
	if !strings.Contains(p.log(), "panic") {
		return
	}
	t.Fatalf("pool binary log contains a panic:\n%s", tailLines(p.log(), 60))
}

func tailLines(s string, n int) string {
	l := strings.Split(s, "\n")
	if len(l) > n {
		l = l[len(l)-n:]
	}
	return strings.Join(l, "\n")
}
