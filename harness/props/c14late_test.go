package props

// C14 — abandoned calls and the calls after them: "a late reply is never delivered to a different call", and neither
// does an abandoned call cost a later call ITS reply.

import (
	"context"
	"fmt"
	"sync"
	"testing"
	"testing/synctest"
	"time"

	"github.com/vipnode/vipnode/v2/jsonrpc2"
	"pgregory.net/rapid"

	"verif/vt"
)

// QuickSvc answers at once.
type QuickSvc struct{}

func (QuickSvc) Quick(ctx context.Context, token string) (string, error) { return token, nil }

func TestC14AbandonedThenCalls(t *testing.T) {
	defer vt.Watch("TestC14AbandonedThenCalls", 120*time.Second)()
	rec := vt.For("C14")
	rec.Rule("abandoned calls and their successors (virtual time, net.Pipe connection, where a reply usually reaches the read loop before its caller has started waiting): 1-3 calls are abandoned (their contexts end while the handler holds the request), then 5-40 quick calls follow - one after the other or 2-4 at a time - while the late replies are still outstanding, then the held handlers answer (late replies arrive), then more quick calls; optionally the connection has the pool server's pending limits; oracle: every abandoned call returns its context's error, every quick call returns its own token well within its 5-minute context, before and after the late replies; distinct by (abandoned, quick calls, concurrency, limits)")
	check(t, func(rt *rapid.T) {
		rapid.SyncTest(rt, func(rt *rapid.T) {
			rb, ra := jsonrpc2.ServePipe()
			defer ra.Close()
			defer rb.Close()
			hold := &HoldSvc{release: make(chan struct{})}
			if err := rb.Server.RegisterMethod("test_hold", hold, "Hold"); err != nil {
				rt.Fatal(err)
			}
			if err := rb.Server.RegisterMethod("test_quick", QuickSvc{}, "Quick"); err != nil {
				rt.Fatal(err)
			}
			limits := rapid.Bool().Draw(rt, "poolServerLimits")
			if limits {
				ra.PendingLimit, ra.PendingDiscard = 50, 10
			}
			nAbandon := rapid.IntRange(1, 3).Draw(rt, "abandoned")
			var wg sync.WaitGroup
			abErr := make([]error, nAbandon)
			for i := 0; i < nAbandon; i++ {
				wg.Add(1)
				go func() {
					defer wg.Done()
					ctx, cancel := context.WithTimeout(context.Background(), time.Duration(i+1)*time.Second)
					defer cancel()
					var out string
					abErr[i] = ra.Call(ctx, &out, "test_hold", fmt.Sprintf("held%d", i))
				}()
			}
			time.Sleep(10 * time.Second) // (virtual) every held call has been abandoned by now
			wg.Wait()
			for i, err := range abErr {
				if err == nil {
					c14Fatalf(rt, "call held%d returned without an error although its handler never answered", i)
				}
			}
			quick := func(label string, n, width int) {
				for done := 0; done < n; done += width {
					var qw sync.WaitGroup
					errs := make([]string, width)
					for k := 0; k < width && done+k < n; k++ {
						qw.Add(1)
						go func() {
							defer qw.Done()
							tok := fmt.Sprintf("%s-%d", label, done+k)
							ctx, cancel := context.WithTimeout(context.Background(), 5*time.Minute)
							defer cancel()
							var out string
							if err := ra.Call(ctx, &out, "test_quick", tok); err != nil {
								errs[k] = fmt.Sprintf("call %s never got its reply: %v", tok, err)
							} else if out != tok {
								errs[k] = fmt.Sprintf("call %s returned %q", tok, out)
							}
						}()
					}
					qw.Wait()
					for _, e := range errs {
						if e != "" {
							c14Fatalf(rt, "%s (%d call(s) had been abandoned before, their late replies %s; pool server limits: %v)", e, nAbandon, map[bool]string{true: "have arrived", false: "are still outstanding"}[label == "after"], limits)
						}
					}
				}
			}
			nQuick := rapid.IntRange(5, 40).Draw(rt, "quickCalls")
			width := rapid.SampledFrom([]int{1, 1, 2, 4}).Draw(rt, "atATime")
			quick("before", nQuick, width)
			close(hold.release) // the held handlers answer: late replies
			synctest.Wait()
			quick("after", rapid.IntRange(1, 10).Draw(rt, "quickCallsAfter"), width)
			rec.Case(fmt.Sprintf("abandoned|%d|%d|%d|%v", nAbandon, nQuick, width, limits), true, []string{"abandoned-then-calls"}, func() interface{} {
				return map[string]interface{}{"kind": "abandoned calls, then quick calls", "abandoned": nAbandon, "quick_calls": nQuick, "at_a_time": width, "pool_server_limits": limits}
			})
		})
	})
}
