package props

// C18 — the agent makes its node's peers match what the pool says.

import (
	"bytes"
	"context"
	"errors"
	"fmt"
	"io"
	"net/http"
	"net/http/httptest"
	"sort"
	"strings"
	"sync"
	"testing"
	"time"

	"github.com/vipnode/vipnode/v2/agent"
	"github.com/vipnode/vipnode/v2/ethnode"
	"github.com/vipnode/vipnode/v2/jsonrpc2"
	"github.com/vipnode/vipnode/v2/pool"
	"github.com/vipnode/vipnode/v2/pool/store"
	"pgregory.net/rapid"

	"verif/vt"
)

type c18Addr struct {
	host   string // as written in an address ("192.0.2.5", "[2001:db8::5]", "node.example.org")
	plain  string // comparable host
	folded bool   // loopback / unspecified / localhost: the code treats these as "no remote address"
}

var c18Hosts = []c18Addr{
	{"192.0.2.5", "192.0.2.5", false}, {"198.51.100.7", "198.51.100.7", false}, {"[2001:db8::5]", "2001:db8::5", false},
	{"node.example.org", "node.example.org", false}, {"203.0.113.9", "203.0.113.9", false},
	{"127.0.0.1", "127.0.0.1", true}, {"[::1]", "::1", true}, {"0.0.0.0", "0.0.0.0", true}, {"localhost", "localhost", true}, {"[::]", "::", true},
}

func genC18Addr(rt *rapid.T, label string) (c18Addr, string) {
	a := rapid.SampledFrom(c18Hosts[:5]).Draw(rt, label)
	if rapid.IntRange(0, 7).Draw(rt, label+"Folded") == 0 {
		a = rapid.SampledFrom(c18Hosts[5:]).Draw(rt, label+"F")
	}
	port := rapid.SampledFrom([]string{"30303", "30303", "40404", "1"}).Draw(rt, label+"Port")
	return a, port
}

type c18Local struct {
	id    string
	addr  c18Addr
	port  string
	form  string // "id" or "enode"
	adv   string // enode form: the host the peer advertises for itself ("" = the address it is connected from)
	zoned bool   // connected over a zoned link-local address (the pool never lists such an address)
}

func (l c18Local) info(k int) ethnode.PeerInfo {
	p := ethnode.PeerInfo{ID: l.id, Name: "Geth/x", Caps: []string{"eth/63"}}
	p.Network.RemoteAddress = l.addr.host + ":" + l.port
	if l.form == "enode" {
		p.ID = fmt.Sprintf("%064x", 0xabc0+k)
		adv := l.addr.host
		if l.adv != "" {
			// what the peer advertises (its listening address, a NAT-internal one, [::]) is not where it is connected from
			adv = l.adv
		}
		p.Enode = "enode://" + l.id + "@" + adv + ":" + l.port
	}
	return p
}

type c18Round struct {
	Local       []string `json:"local_peers"`
	Active      []string `json:"pool_active"`
	Invalid     []string `json:"pool_invalid"`
	UpdateErr   bool     `json:"update_fails"`
	PeerErr     string   `json:"peer_error,omitempty"`
	Offered     []string `json:"pool_offers"`
	NodeCalls   []string `json:"node_calls"`
	PeerRequest string   `json:"peer_request,omitempty"`
}

func c18Case(rt *rapid.T, rec *vt.Rec, viaRPCNode bool) {
	strict := rapid.Bool().Draw(rt, "strict")
	target := rapid.IntRange(0, 6).Draw(rt, "target")
	full := rapid.Bool().Draw(rt, "fullNode")
	kind := rapid.SampledFrom([]ethnode.NodeKind{ethnode.Geth, ethnode.Parity}).Draw(rt, "kind")
	if viaRPCNode {
		full = true // the RPC-backed node flavours report themselves as full nodes unless the protocol version says light
	}
	var node ethnode.EthNode
	var rn *recNode
	var rpcNode *rpcFakeNode
	if viaRPCNode {
		rpcNode = newRPCFakeNode(rt, kind)
		defer rpcNode.close()
		node = rpcNode.node
	} else {
		rn = &recNode{enode: "enode://" + hexID(99) + "@[::]:30303", ua: ethnode.UserAgent{Version: "v", Kind: kind, IsFullNode: full, Network: 1}}
		node = rn
	}
	sp := &scriptPool{}
	// the pool as the agent reaches it: the scripted pool itself, or (in the real-time variant) the scripted pool
	// behind the real HTTP server and the library's HTTP client, as `vipnode agent http://...` reaches a pool; there a
	// keep-alive can also fail because an intermediary answers in its place (empty 200, 204, an HTML error page)
	var thePool pool.Pool = sp
	httpFault := ""
	var httpMu sync.Mutex
	overHTTP := viaRPCNode && rapid.Bool().Draw(rt, "poolOverHTTP")
	if overHTTP {
		inner := &jsonrpc2.HTTPServer{}
		if err := inner.Server.Register("vipnode_", &ScriptPoolRPC{sp}); err != nil {
			rt.Fatal(err)
		}
		ts := httptest.NewServer(http.HandlerFunc(func(w http.ResponseWriter, r *http.Request) {
			body, _ := io.ReadAll(r.Body)
			r.Body = io.NopCloser(bytes.NewReader(body))
			httpMu.Lock()
			f := httpFault
			httpMu.Unlock()
			if f == "" || !bytes.Contains(body, []byte(`"vipnode_update"`)) {
				inner.ServeHTTP(w, r)
				return
			}
			switch f {
			case "empty200":
				w.WriteHeader(200)
			case "status204":
				w.WriteHeader(204)
			case "html":
				w.Header().Set("content-type", "text/html")
				w.Write([]byte("<html>502 Bad Gateway</html>"))
			}
		}))
		defer ts.Close()
		thePool = pool.Remote(&jsonrpc2.HTTPService{Endpoint: ts.URL}, nodeIdent(0).key)
	}
	a := &agent.Agent{EthNode: node, NumHosts: target, StrictPeers: strict, UpdateInterval: time.Hour}
	nRounds := rapid.IntRange(1, 4).Draw(rt, "rounds")
	var rounds []c18Round
	running := false
	defer func() {
		// never leave the keep-alive loop behind (also when the case fails): a bubble cannot end with it alive
		if running {
			a.Stop()
			a.Wait()
		}
	}()
	classes := map[string]bool{}
	universe := 6
	setLocal := func(ls []c18Local) {
		var infos []ethnode.PeerInfo
		for k, l := range ls {
			infos = append(infos, l.info(k))
		}
		if viaRPCNode {
			rpcNode.setPeers(infos)
		} else {
			rn.setPeers(infos)
		}
	}
	takeNodeCalls := func() []nodeCall {
		if viaRPCNode {
			return rpcNode.take()
		}
		return rn.take()
	}
	for r := 0; r < nRounds; r++ {
		// --- generate the round
		var locals []c18Local
		for i := 0; i < universe; i++ {
			if rapid.IntRange(0, 2).Draw(rt, "isLocal") > 0 {
				ad, port := genC18Addr(rt, "localAddr")
				zoned := false
				if rapid.IntRange(0, 7).Draw(rt, "linkLocal") == 0 {
					// connected over a link-local IPv6 address: the node reports it with its zone
					ad, zoned = c18Addr{"[fe80::1%eth0]", "fe80::1%eth0", false}, true
				}
				form := rapid.SampledFrom([]string{"id", "enode"}).Draw(rt, "form")
				if viaRPCNode && kind == ethnode.Parity {
					form = "id" // parity_netPeers carries the public key as the id, there is no separate enode field
				}
				adv := ""
				if form == "enode" && rapid.IntRange(0, 2).Draw(rt, "advertisesOtherHost") == 0 {
					adv = rapid.SampledFrom([]string{"[::]", "0.0.0.0", "127.0.0.1", "10.9.8.7", "198.51.100.77", "[2001:db8::77]", "node.internal"}).Draw(rt, "advertised")
				}
				locals = append(locals, c18Local{id: hexID(i), addr: ad, port: port, form: form, adv: adv, zoned: zoned})
			}
		}
		setLocal(locals)
		localByID := map[string]c18Local{}
		for _, l := range locals {
			localByID[l.id] = l
		}
		type act struct {
			id   string
			addr c18Addr
			port string
		}
		var actives []act
		var invalid []string
		invalidIDs := map[string]bool{}
		for i := 0; i < universe; i++ {
			switch rapid.IntRange(0, 3).Draw(rt, "poolView") {
			case 0, 1: // pool lists it as active
				l, isLocal := localByID[hexID(i)]
				ad, port := genC18Addr(rt, "activeAddr")
				if isLocal && !l.zoned {
					switch rapid.IntRange(0, 3).Draw(rt, "route") {
					case 0, 1: // same host, same port
						ad, port = l.addr, l.port
					case 2: // same host, different port
						ad, port = l.addr, "31313"
					}
				}
				actives = append(actives, act{hexID(i), ad, port})
			case 2: // pool declares it invalid
				invalidIDs[hexID(i)] = true
				if rapid.Bool().Draw(rt, "invalidAsURI") {
					ad, port := genC18Addr(rt, "invalidAddr")
					invalid = append(invalid, "enode://"+hexID(i)+"@"+ad.host+":"+port)
				} else {
					invalid = append(invalid, hexID(i))
				}
			}
		}
		var activeURIs []string
		activeByID := map[string]act{}
		for _, x := range actives {
			activeURIs = append(activeURIs, "enode://"+x.id+"@"+x.addr.host+":"+x.port)
			activeByID[x.id] = x
		}
		updateErr := rapid.IntRange(0, 9).Draw(rt, "updateFails") == 0
		// the ways a keep-alive fails: transport errors and RPC error replies of every code the pool produces
		var updateFailure error
		if updateErr {
			updateFailure = rapid.SampledFrom([]error{
				errors.New("scripted update failure"),
				errors.New("connection reset"),
				context.DeadlineExceeded,
				&jsonrpc2.ErrResponse{Code: jsonrpc2.ErrCodeInternal, Message: "badger: transaction conflict"},
				&jsonrpc2.ErrResponse{Code: jsonrpc2.ErrCodeInternal, Message: "low balance error: Current balance (-5) is less than the required minimum (0)"},
				&jsonrpc2.ErrResponse{Code: jsonrpc2.ErrCodeInternal, Message: "method \"vipnode_update\" failed to verify signature: invalid nonce"},
				&jsonrpc2.ErrResponse{Code: jsonrpc2.ErrCodeInvalidParams, Message: "invalid params"},
				&jsonrpc2.ErrResponse{Code: jsonrpc2.ErrCodeMethodNotFound, Message: "method not found"},
				&jsonrpc2.ErrResponse{Code: -32000, Message: "server error"},
			}).Draw(rt, "updateFailure")
		}
		peerErr := rapid.SampledFrom([]string{"", "", "", "", "nohosts", "rpc-other", "transport"}).Draw(rt, "peerErr")
		nOffer := rapid.IntRange(0, 4).Draw(rt, "nOffer")
		var offered []string
		var offeredNodes []store.Node
		for k := 0; k < nOffer; k++ {
			ad, port := genC18Addr(rt, "offerAddr")
			uri := "enode://" + hexID(20+k) + "@" + ad.host + ":" + port
			offered = append(offered, uri)
			offeredNodes = append(offeredNodes, store.Node{ID: store.NodeID(hexID(20 + k)), URI: uri, IsHost: true})
		}
		sp.mu.Lock()
		sp.onUpdate = func(n int, req pool.UpdateRequest) (*pool.UpdateResponse, error) {
			if updateErr && !overHTTP {
				return nil, updateFailure
			}
			if updateErr {
				if _, isRPCErr := updateFailure.(*jsonrpc2.ErrResponse); isRPCErr {
					return nil, updateFailure // travels as an error reply
				}
				// otherwise the exchange itself fails: the front answers in the pool's place (set below)
			}
			return &pool.UpdateResponse{ActivePeers: append([]string{}, activeURIs...), InvalidPeers: append([]string{}, invalid...)}, nil
		}
		sp.onPeer = func(n int, req pool.PeerRequest) (*pool.PeerResponse, error) {
			switch peerErr {
			case "nohosts":
				return nil, &jsonrpc2.ErrResponse{Code: jsonrpc2.ErrCodeInternal, Message: "no available host nodes found after trying 3 nodes"}
			case "rpc-other":
				return nil, &jsonrpc2.ErrResponse{Code: jsonrpc2.ErrCodeInternal, Message: "failed to call \"vipnode_whitelist\" on 1 hosts: x"}
			case "transport":
				return nil, errors.New("connection reset")
			}
			return &pool.PeerResponse{Peers: offeredNodes}, nil
		}
		sp.mu.Unlock()
		// the node's own RPC may fail for one peer and one kind of call: the other peers, and the other call for
		// that peer, must still be made
		nodeFault := ""
		if !viaRPCNode && rapid.IntRange(0, 3).Draw(rt, "nodeFault") == 0 {
			nodeFault = rapid.SampledFrom([]string{"RemoveTrustedPeer", "DisconnectPeer"}).Draw(rt, "faultMethod") + ":" + hexID(rapid.IntRange(0, universe-1).Draw(rt, "faultPeer"))
			fm, fid := strings.SplitN(nodeFault, ":", 2)[0], strings.SplitN(nodeFault, ":", 2)[1]
			rn.mu.Lock()
			rn.failOn = func(method, arg string) bool { return method == fm && nodeArgID(arg) == fid }
			rn.mu.Unlock()
		} else if !viaRPCNode {
			rn.mu.Lock()
			rn.failOn = nil
			rn.mu.Unlock()
		}
		takeNodeCalls()
		sp.take()
		if overHTTP {
			httpMu.Lock()
			httpFault = ""
			if _, isRPCErr := updateFailure.(*jsonrpc2.ErrResponse); updateErr && !isRPCErr {
				httpFault = rapid.SampledFrom([]string{"empty200", "status204", "html"}).Draw(rt, "httpFault")
			}
			httpMu.Unlock()
		}
		// --- run the round
		var err error
		if r == 0 {
			err = a.Start(thePool)
			running = err == nil
		} else {
			err = a.UpdatePeers(context.Background(), thePool)
		}
		calls := takeNodeCalls()
		pcalls := sp.take()
		rd := c18Round{UpdateErr: updateErr, PeerErr: peerErr, Offered: offered, Active: shortURIs(activeURIs), Invalid: shortURIs(invalid)}
		for _, l := range locals {
			rd.Local = append(rd.Local, fmt.Sprintf("%s(%s)@%s:%s", shortID(l.id), l.form, l.addr.host, l.port))
		}
		untrusted, disconnected := map[string]int{}, map[string]int{}
		var connected []string
		for _, c := range calls {
			rd.NodeCalls = append(rd.NodeCalls, c.Method+"("+shortURI(c.Arg)+")")
			switch c.Method {
			case "RemoveTrustedPeer":
				untrusted[nodeArgID(c.Arg)]++
			case "DisconnectPeer":
				disconnected[nodeArgID(c.Arg)]++
			case "ConnectPeer":
				connected = append(connected, c.Arg)
			case "AddTrustedPeer":
				rt.Fatalf("agent called AddTrustedPeer(%s) on its own during a keep-alive round", c.Arg)
			}
		}
		var peerReq *pool.PeerRequest
		nPeerCalls := 0
		for _, pc := range pcalls {
			if pc.Method == "peer" {
				nPeerCalls++
				peerReq = pc.Peer
			}
		}
		if peerReq != nil {
			rd.PeerRequest = fmt.Sprintf("num=%d kind=%q", peerReq.Num, peerReq.Kind)
		}
		rounds = append(rounds, rd)
		fail := func(f string, x ...interface{}) {
			rt.Fatalf("%s\nagent: strict=%v target=%d fullNode=%v kind=%s rpcNode=%v\nround %d: %+v", fmt.Sprintf(f, x...), strict, target, full, kind, viaRPCNode, r+1, rd)
		}
		if updateErr {
			if err == nil {
				fail("a failed keep-alive call was not reported")
			}
			if len(calls) != 0 || nPeerCalls != 0 {
				fail("the keep-alive call failed, yet the agent changed its node / asked for peers")
			}
			classes["update-failed"] = true
			if r == 0 {
				// Start failed: nothing is running, later rounds call UpdatePeers directly
			}
			continue
		}
		// expected removals
		must := map[string]string{}
		may := map[string]bool{}
		for id := range invalidIDs {
			must[id] = "declared invalid by the pool"
		}
		if strict {
			for _, l := range locals {
				x, listed := activeByID[l.id]
				switch {
				case !listed:
					must[l.id] = "strict peering: local peer not listed as active by the pool"
				case l.addr.folded || x.addr.folded:
					may[l.id] = true // stated don't-care: loopback/unspecified/localhost on either side
				case l.addr.plain != x.addr.plain:
					must[l.id] = fmt.Sprintf("strict peering: local peer at host %s, pool lists it at %s", l.addr.plain, x.addr.plain)
				}
			}
		}
		for id, why := range must {
			if untrusted[id] == 0 || disconnected[id] == 0 {
				fail("peer %s must be un-trusted and disconnected (%s): un-trusted %d times, disconnected %d times", shortID(id), why, untrusted[id], disconnected[id])
			}
		}
		for id := range untrusted {
			if _, ok := must[id]; !ok && !may[id] {
				fail("peer %s was un-trusted although the pool did not declare it invalid%s", shortID(id), map[bool]string{true: " and it matches an active peer on the same host", false: ""}[strict])
			}
		}
		for id := range disconnected {
			if _, ok := must[id]; !ok && !may[id] {
				fail("peer %s was disconnected although the pool did not declare it invalid", shortID(id))
			}
			if untrusted[id] == 0 {
				fail("peer %s was disconnected but not un-trusted", shortID(id))
			}
		}
		for id := range untrusted {
			if disconnected[id] == 0 {
				fail("peer %s was un-trusted but not disconnected", shortID(id))
			}
		}
		// peer request
		shortfall := target - len(activeURIs)
		if shortfall > 0 {
			if nPeerCalls != 1 {
				fail("the node has %d active peers, target %d: exactly one peer request expected, got %d", len(activeURIs), target, nPeerCalls)
			}
			wantKind := ""
			if !full {
				wantKind = kind.String()
			}
			if peerReq.Num != shortfall || peerReq.Kind != wantKind {
				fail("peer request asks for num=%d kind=%q; the shortfall is %d and the kind must be %q", peerReq.Num, peerReq.Kind, shortfall, wantKind)
			}
			if peerErr == "" {
				var wantConn []string
				for _, u := range offered {
					wantConn = append(wantConn, connectArg(u, viaRPCNode, kind))
				}
				if strings.Join(connected, "|") != strings.Join(wantConn, "|") {
					fail("the pool offered %v; the node was told to connect to %v", shortURIs(offered), shortURIs(connected))
				}
			} else if len(connected) != 0 {
				fail("peer request failed (%s) but the node was told to connect to %v", peerErr, connected)
			}
			classes["shortfall"] = true
		} else {
			if nPeerCalls != 0 {
				fail("the node already has %d active peers (target %d) but asked the pool for more", len(activeURIs), target)
			}
			if len(connected) != 0 {
				fail("ConnectPeer without a peer request")
			}
		}
		if len(must) > 0 {
			classes["removal"] = true
		}
		if len(must) > 0 && shortfall > 0 {
			classes["removal+shortfall"] = true
		}
		for id := range invalidIDs {
			if _, isLocal := localByID[id]; !isLocal {
				classes["pool-invalid-not-local"] = true
			}
		}
		if strict {
			classes["strict"] = true
		}
	}
	var cl []string
	for c := range classes {
		cl = append(cl, c)
	}
	sort.Strings(cl)
	rec.Case(fmt.Sprintf("%v|%d|%v|%v|%v|%+v", strict, target, full, kind, viaRPCNode, rounds), classes["removal+shortfall"], append(cl, fmt.Sprintf("rpcnode:%v", viaRPCNode)), func() interface{} {
		return map[string]interface{}{"strict": strict, "target": target, "full_node": full, "kind": kind.String(), "node_via_rpc": viaRPCNode, "rounds": rounds}
	})
}

func shortID(id string) string {
	if len(id) > 8 {
		return "…" + id[len(id)-4:]
	}
	return id
}

func shortURI(u string) string {
	if i := strings.Index(u, "@"); i > 12 {
		return "enode://…" + u[i-4:]
	}
	return shortID(u)
}

func shortURIs(us []string) []string {
	r := make([]string, len(us))
	for i, u := range us {
		r[i] = shortURI(u)
	}
	return r
}

// nodeArgID extracts the node id from what the agent hands to the node.
func nodeArgID(arg string) string {
	s := strings.TrimPrefix(arg, "enode://")
	if i := strings.Index(s, "@"); i >= 0 {
		s = s[:i]
	}
	return s
}

func connectArg(uri string, viaRPC bool, kind ethnode.NodeKind) string { return uri }

func TestC18AgentRound(t *testing.T) {
	defer vt.Watch("TestC18AgentRound", 120*time.Second)()
	rec := vt.For("C18")
	rec.Rule("real agent.Agent with a recording node and a scripted pool, 1-4 keep-alive rounds (the first inside Start): generated local peer sets (id-only and enode forms; IPv4, IPv6, DNS, loopback, unspecified, localhost addresses with ports), pool replies (active list as enode URIs under the same host / another host / the same host with another port; invalid list as bare ids or enode URIs, also for peers that are not local), strict peering on/off, target 0-6, light/full node of kind geth/parity, update failure, peer-request failures (no hosts, other RPC error, transport error), offered hosts; oracle (round model): un-trusted set == disconnected set == pool-invalid ids + (strict: local peers not listed active under the same host; ports ignored; loopback/unspecified/localhost on either side is a don't-care); Peer requested iff shortfall>0 with num == shortfall and kind == own kind for light clients else \"\"; ConnectPeer exactly for the offered URIs; a failed keep-alive call touches nothing; non-trivial = a round with a required removal and a shortfall; distinct by config + rounds")
	check(t, func(rt *rapid.T) {
		rapid.SyncTest(rt, func(rt *rapid.T) { c18Case(rt, rec, false) })
	})
}

// TestC18AgentRoundRPCNode — the same rounds with the node side being the real
// ethnode.RemoteNode (geth and parity flavours) over go-ethereum's in-process
// RPC server, so that the id / enode encodings of ethnode/geth.go and
// ethnode/parity.go and the decoding of admin_peers / parity_netPeers are
// inside the loop.
func TestC18AgentRoundRPCNode(t *testing.T) {
	rec := vt.For("C18")
	rec.Rule("same round model with the node behind go-ethereum's in-process RPC server and the repository's geth / parity node adapters (admin_peers, admin_addPeer/removePeer/addTrustedPeer/removeTrustedPeer, parity_netPeers with an inactive peer to be filtered, parity_addReservedPeer/removeReservedPeer); the oracle compares the node ids extracted from the recorded RPC arguments")
	check(t, func(rt *rapid.T) { c18Case(rt, rec, true) })
}

// ScriptPoolRPC exposes a scriptPool under the pool's RPC signatures (the signature parameters are not checked).
type ScriptPoolRPC struct{ p *scriptPool }

func (s *ScriptPoolRPC) Connect(ctx context.Context, sig, id string, nonce int64, req pool.ConnectRequest) (*pool.ConnectResponse, error) {
	return s.p.Connect(ctx, req)
}
func (s *ScriptPoolRPC) Update(ctx context.Context, sig, id string, nonce int64, req pool.UpdateRequest) (*pool.UpdateResponse, error) {
	return s.p.Update(ctx, req)
}
func (s *ScriptPoolRPC) Peer(ctx context.Context, sig, id string, nonce int64, req pool.PeerRequest) (*pool.PeerResponse, error) {
	return s.p.Peer(ctx, req)
}
