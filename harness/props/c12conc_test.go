package props

// C12 under write conflicts: the persistent driver runs its read-modify-write
// operations as optimistic transactions that are re-run on conflict. What an
// operation returns, and what it leaves in the store, must be what the
// contract prescribes (and what the memory driver returns) no matter how
// often the transaction was re-run.

import (
	"fmt"
	"math/big"
	"sort"
	"strings"
	"sync"
	"testing"
	"time"

	"github.com/vipnode/vipnode/v2/pool/store"
	"github.com/vipnode/vipnode/v2/pool/store/memory"
	"pgregory.net/rapid"

	"verif/vt"
)

func TestC12Conflicts(t *testing.T) {
	rec := vt.For("C12")
	rec.Rule("conflict re-runs (free-running): 1-4 nodes each send one keep-alive (UpdateNodePeers) listing 1-6 registered peers, some of them stale (last seen 10 min ago), plus unknown and duplicate ids, while 2-6 goroutines keep re-registering those same nodes (SetNode) so that the badger transaction conflicts and is re-run; the memory driver gets the same calls; oracle: each keep-alive returns exactly its stale registered peers, each once, and afterwards NodePeers is exactly the fresh registered peers - on both drivers; non-trivial = a keep-alive with >=1 stale peer; distinct by the peer classes per node")
	defer vt.Watch("TestC12Conflicts", 120*time.Second)()
	check(t, func(rt *rapid.T) {
		nNodes := rapid.IntRange(1, 4).Draw(rt, "nodes")
		type plan struct {
			id           store.NodeID
			report       []string
			stale, fresh []string
		}
		drivers := []namedStore{{"memory", memory.New()}, {"badger", mustOpenBadger(rt, "")}}
		defer func() {
			for _, d := range drivers {
				d.s.Close()
			}
		}()
		now := time.Now()
		var plans []plan
		var sig []string
		for i := 0; i < nNodes; i++ {
			p := plan{id: store.NodeID(fmt.Sprintf("node%d", i))}
			k := rapid.IntRange(1, 6).Draw(rt, "peers")
			for j := 0; j < k; j++ {
				pid := fmt.Sprintf("peer%d_%d", i, j)
				stale := rapid.Bool().Draw(rt, "stale")
				seen := now
				if stale {
					seen = now.Add(-10 * time.Minute)
					p.stale = append(p.stale, pid)
				} else {
					p.fresh = append(p.fresh, pid)
				}
				for _, d := range drivers {
					if err := d.s.SetNode(store.Node{ID: store.NodeID(pid), LastSeen: seen, IsHost: true}); err != nil {
						rt.Fatalf("%s SetNode: %v", d.name, err)
					}
				}
				p.report = append(p.report, pid)
				if rapid.IntRange(0, 4).Draw(rt, "dup") == 0 {
					p.report = append(p.report, pid)
				}
			}
			for u := 0; u < rapid.IntRange(0, 3).Draw(rt, "unknown"); u++ {
				p.report = append(p.report, fmt.Sprintf("unknown%d_%d", i, u))
			}
			// a long report keeps the transaction open for longer
			for u := 0; u < rapid.SampledFrom([]int{0, 0, 200, 3000}).Draw(rt, "padding"); u++ {
				p.report = append(p.report, fmt.Sprintf("pad%d_%d", i, u))
			}
			for _, d := range drivers {
				if err := d.s.SetNode(store.Node{ID: p.id, LastSeen: now}); err != nil {
					rt.Fatalf("%s SetNode: %v", d.name, err)
				}
			}
			plans = append(plans, p)
			sig = append(sig, fmt.Sprintf("%d/%d", len(p.stale), len(p.fresh)))
		}
		writers := rapid.IntRange(2, 6).Draw(rt, "writers")
		for _, d := range drivers {
			stop := make(chan struct{})
			var wg sync.WaitGroup
			for w := 0; w < writers; w++ {
				wg.Add(1)
				go func() {
					defer wg.Done()
					for n := 0; n < 300; n++ { // bounded: the harness's small badger tables take a few MB at most
						select {
						case <-stop:
							return
						default:
						}
						p := plans[n%len(plans)]
						d.s.SetNode(store.Node{ID: p.id, LastSeen: now, NodeVersion: fmt.Sprint(n)})
					}
				}()
			}
			results := make([][]store.NodeID, len(plans))
			errs := make([]error, len(plans))
			var uwg sync.WaitGroup
			for i, p := range plans {
				uwg.Add(1)
				go func() {
					defer uwg.Done()
					results[i], errs[i] = d.s.UpdateNodePeers(p.id, p.report, 7)
				}()
			}
			// ... and each node is credited once meanwhile (its first credit: no balance record yet); the credit's
			// transaction reads the node record the writers keep rewriting
			credErrs := make([]error, len(plans))
			for i, p := range plans {
				uwg.Add(1)
				go func() {
					defer uwg.Done()
					credErrs[i] = d.s.AddNodeBalance(p.id, big.NewInt(int64(1000+i)))
				}()
			}
			uwg.Wait()
			close(stop)
			wg.Wait()
			for i, p := range plans {
				if credErrs[i] != nil {
					rt.Fatalf("%s: AddNodeBalance(%s): %v", d.name, p.id, credErrs[i])
				}
				b, err := d.s.GetNodeBalance(p.id)
				if err != nil || b.Credit.Cmp(big.NewInt(int64(1000+i))) != 0 {
					rt.Fatalf("%s: %s was credited %d once while %d writers rewrote its record; its balance is %s (err=%v) - a credit applied once per attempt of a re-run transaction?", d.name, p.id, 1000+i, writers, b.Credit.String(), err)
				}
			}
			vt.Tick("C12 conflicts " + d.name)
			for i, p := range plans {
				if errs[i] != nil {
					rt.Fatalf("%s: UpdateNodePeers(%s): %v", d.name, p.id, errs[i])
				}
				var got []string
				for _, id := range results[i] {
					got = append(got, string(id))
				}
				sort.Strings(got)
				want := append([]string(nil), p.stale...)
				sort.Strings(want)
				if strings.Join(got, ",") != strings.Join(want, ",") {
					rt.Fatalf("%s driver: keep-alive of %s (with %d goroutines re-registering the node meanwhile) declared invalid %v; its stale registered peers are %v (each must be declared exactly once)", d.name, p.id, writers, got, want)
				}
				peers, err := d.s.NodePeers(p.id)
				if err != nil {
					rt.Fatalf("%s: NodePeers: %v", d.name, err)
				}
				var have []string
				for _, n := range peers {
					have = append(have, string(n.ID))
				}
				sort.Strings(have)
				wantPeers := append([]string(nil), p.fresh...)
				sort.Strings(wantPeers)
				if strings.Join(have, ",") != strings.Join(wantPeers, ",") {
					rt.Fatalf("%s driver: after the keep-alive %s tracks %v, its fresh registered peers are %v", d.name, p.id, have, wantPeers)
				}
			}
		}
		anyStale := false
		for _, p := range plans {
			if len(p.stale) > 0 {
				anyStale = true
			}
		}
		rec.Case(fmt.Sprintf("conflicts|%d|%v", writers, sig), anyStale, []string{"conflicts"}, func() interface{} {
			return map[string]interface{}{"kind": "keep-alives under write conflicts", "nodes": nNodes, "writers": writers, "stale/fresh per node": sig}
		})
	})
}
