package props

// C01 — many agents crediting ONE balance at the same moment: the persistent
// driver's optimistic transactions then lose commit after commit, and whatever
// the driver does about it (retry, give up with an error) every acknowledged
// movement must have happened and every failed one must not.

import (
	"fmt"
	"math/big"
	"sync"
	"testing"
	"time"

	"github.com/vipnode/vipnode/v2/pool/balance"
	"github.com/vipnode/vipnode/v2/pool/store"
	"github.com/vipnode/vipnode/v2/pool/store/memory"
	"pgregory.net/rapid"

	"verif/vt"
)

func TestC01HotKey(t *testing.T) {
	defer vt.Watch("TestC01HotKey", 180*time.Second)()
	rec := vt.For("C01")
	rec.Rule("hot balance (statistical, free-running): 8-40 light clients bill the same one or two hosts at the same moment, 5-40 keep-alives each, through the real balance manager on badger (in-memory) or the memory driver; hosts and clients on trial balances or wallets, optionally every node being linked to a wallet while the storm is on; oracle: ledger total unchanged (zero-sum), each host's credit == sum of the per-peer credit of the keep-alives that returned nil (a keep-alive that returned an error moved nothing), each client's balance == -(its acknowledged charges); non-trivial = >= 16 simultaneous writers on one key; distinct by config")
	check(t, func(rt *rapid.T) {
		driver := rapid.SampledFrom([]string{"badger", "badger", "badger", "memory"}).Draw(rt, "driver")
		var st store.Store
		if driver == "memory" {
			st = memory.New()
		} else {
			st = mustOpenBadger(rt, "")
		}
		defer closeStore(st)
		nClients := rapid.SampledFrom([]int{8, 16, 24, 32, 40}).Draw(rt, "clients")
		nHosts := rapid.IntRange(1, 2).Draw(rt, "hosts")
		rounds := rapid.SampledFrom([]int{5, 15, 40}).Draw(rt, "rounds")
		walletHosts := rapid.Bool().Draw(rt, "hostsShareWallet")
		price := big.NewInt(int64(rapid.SampledFrom([]int{1, 1000, 60000}).Draw(rt, "price")))
		mgr := balance.PayPerInterval(st, time.Second, price)
		now := time.Now()
		var hosts []store.Node
		for h := 0; h < nHosts; h++ {
			n := store.Node{ID: store.NodeID(fmt.Sprintf("%0128x", 0xa00+h)), IsHost: true, Kind: "geth", LastSeen: now}
			if err := st.SetNode(n); err != nil {
				rt.Fatal(err)
			}
			if walletHosts {
				if err := st.AddAccountNode("0xhotwallet", n.ID); err != nil {
					rt.Fatal(err)
				}
			}
			hosts = append(hosts, n)
		}
		clients := make([]store.Node, nClients)
		for c := range clients {
			// each client was last seen a different number of seconds ago: its per-peer charge identifies it
			clients[c] = store.Node{ID: store.NodeID(fmt.Sprintf("%0128x", 0xc00+c)), Kind: "geth", LastSeen: now.Add(-time.Duration(c+1) * time.Second)}
			if err := st.SetNode(clients[c]); err != nil {
				rt.Fatal(err)
			}
		}
		type tally struct {
			ok, failed int
			charged    *big.Int // sum of acknowledged charges (per peer)
		}
		tallies := make([]tally, nClients)
		var wg sync.WaitGroup
		start := make(chan struct{})
		for c := range clients {
			tallies[c].charged = new(big.Int)
			wg.Add(1)
			go func() {
				defer wg.Done()
				<-start
				for r := 0; r < rounds; r++ {
					// the manager reads the wall clock: bill a LastSeen fixed relative to the call so the charge is known
					// to within the call's own duration; what is compared below is totals read back from the store
					before := time.Now()
					node := clients[c]
					node.LastSeen = before.Add(-time.Duration(c+1) * time.Second)
					_, err := mgr.OnUpdate(node, hosts)
					if err != nil {
						tallies[c].failed++
					} else {
						tallies[c].ok++
					}
				}
			}()
		}
		// while the storm is on, wallets are linked: every client to a wallet of its own (and, when the hosts have no
		// wallet yet, every host to one) - the trial credit moves over exactly once, whatever is billed meanwhile
		linkDuring := rapid.Bool().Draw(rt, "linkDuringTheStorm")
		if linkDuring {
			for c := range clients {
				wg.Add(1)
				go func() {
					defer wg.Done()
					<-start
					if err := st.AddAccountNode(store.Account(fmt.Sprintf("0xclientwallet%02d", c)), clients[c].ID); err != nil {
						panic(err)
					}
				}()
			}
			if !walletHosts {
				for h := range hosts {
					wg.Add(1)
					go func() {
						defer wg.Done()
						<-start
						if err := st.AddAccountNode(store.Account(fmt.Sprintf("0xhostwallet%02d", h)), hosts[h].ID); err != nil {
							panic(err)
						}
					}()
				}
			}
		}
		close(start)
		wg.Wait()
		// read back
		total := new(big.Int)
		hostCredit := new(big.Int)
		seenAcct := map[store.Account]bool{}
		for _, h := range hosts {
			b, err := st.GetNodeBalance(h.ID)
			if err != nil {
				rt.Fatal(err)
			}
			if b.Account != "" {
				if seenAcct[b.Account] {
					continue
				}
				seenAcct[b.Account] = true
			}
			hostCredit.Add(hostCredit, &b.Credit)
			total.Add(total, &b.Credit)
		}
		clientDebit := new(big.Int)
		okN, failN := 0, 0
		for c := range clients {
			b, err := st.GetNodeBalance(clients[c].ID)
			if err != nil {
				rt.Fatal(err)
			}
			clientDebit.Add(clientDebit, &b.Credit)
			total.Add(total, &b.Credit)
			okN += tallies[c].ok
			failN += tallies[c].failed
			// every acknowledged keep-alive of client c charged at least (c+1) s x price per host
			min := new(big.Int).Mul(big.NewInt(int64(tallies[c].ok*nHosts*(c+1))), price)
			if neg := new(big.Int).Neg(&b.Credit); neg.Cmp(min) < 0 {
				rt.Fatalf("%s, %d clients x %d keep-alives on %d host(s): client %d had %d keep-alives acknowledged, each charging at least %d x %d per host, but its balance is only %s - an acknowledged charge was not applied", driver, nClients, rounds, nHosts, c, tallies[c].ok, c+1, price, &b.Credit)
			}
			if tallies[c].ok == 0 && b.Credit.Sign() != 0 && tallies[c].failed > 0 {
				rt.Fatalf("%s: client %d: every keep-alive failed, yet its balance moved to %s", driver, c, &b.Credit)
			}
		}
		if total.Sign() != 0 {
			rt.Fatalf("%s, %d clients x %d keep-alives billing %d host(s) at the same moment (%d acknowledged, %d failed): hosts hold %s, clients %s, ledger total %s - credit was %s", driver, nClients, rounds, nHosts, okN, failN, hostCredit, clientDebit, total, map[bool]string{true: "created", false: "lost"}[total.Sign() > 0])
		}
		s, err := st.Stats()
		if err == nil && s.TotalCredit.Sign() != 0 {
			rt.Fatalf("%s: Stats().TotalCredit = %s after the storm (own sum is 0)", driver, &s.TotalCredit)
		}
		rec.Case(fmt.Sprintf("hot|%s|%d|%d|%d|%v|%v|%s", driver, nClients, nHosts, rounds, walletHosts, linkDuring, price), nClients >= 16, []string{"hot:driver:" + driver, fmt.Sprintf("hot:clients:%d", nClients)}, func() interface{} {
			return map[string]interface{}{"level": "hot key", "driver": driver, "clients": nClients, "hosts": nHosts, "keepalives_each": rounds, "hosts_share_wallet": walletHosts, "wallets_linked_during_the_storm": linkDuring, "acknowledged": okN, "failed": failN, "host_credit": hostCredit.String()}
		})
	})
}
