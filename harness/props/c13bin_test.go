package props

// C13 through the shipped binary: `vipnode pool --store=persist` is killed (or
// stopped) and started again on the same data directory; what it acknowledged
// over RPC before must be there afterwards - including the used-up nonces of
// nodes AND wallets, whichever component of package main keeps them.

import (
	"context"
	"encoding/json"
	"fmt"
	"os"
	"path/filepath"
	"sort"
	"strings"
	"syscall"
	"testing"
	"time"

	"github.com/vipnode/vipnode/v2/ethnode"
	"github.com/vipnode/vipnode/v2/pool"
	"pgregory.net/rapid"

	"verif/vt"
)

func TestC13Binary(t *testing.T) {
	rec := vt.For("C13")
	rec.Rule("binary level: `vipnode pool --store=persist --datadir D` receives over HTTP a generated series of acknowledged requests (light clients connect and send keep-alives, a wallet links nodes with pool_addNode), is ended by SIGKILL (sometimes leaving the beginning of an unfinished write at the end of the value log) or SIGTERM and started again on D, 1-2 times; oracle after each restart: pool_account reports the same linked nodes and balance as before, every request acknowledged before the restart is refused as a replay when sent again verbatim (node-signed and wallet-signed alike), and the next fresh request of each identity is accepted; non-trivial = a wallet-signed request before a restart; distinct by (request series, signals)")
	idBase := 0
	check(t, func(rt *rapid.T) {
		dir := tempDir("c13-bin-")
		defer removeAll(dir)
		idBase++
		w := mkIdent(fmt.Sprintf("c13w%d", idBase))
		nClients := rapid.IntRange(1, 3).Draw(rt, "clients")
		var clients []ident
		for i := 0; i < nClients; i++ {
			clients = append(clients, mkIdent(fmt.Sprintf("c13c%d-%d", idBase, i)))
		}
		type sent struct {
			what   string
			method string
			params []interface{}
		}
		var acked []sent
		var hist []string
		p := startPool(rt, "--store=persist", "--datadir="+dir)
		defer func() { p.stop() }()
		fail := func(f string, a ...interface{}) {
			rt.Fatalf("%s\nhistory:\n  %s\npool log tail:\n%s", fmt.Sprintf(f, a...), strings.Join(hist, "\n  "), tailLines(p.log(), 12))
		}
		call := func(method string, params ...interface{}) error {
			ctx, cancel := context.WithTimeout(context.Background(), 20*time.Second)
			defer cancel()
			var out json.RawMessage
			return httpClient(p.addr).Call(ctx, &out, method, params...)
		}
		nonce := time.Now().UnixNano()
		signedNode := func(id ident, method string, arg interface{}) sent {
			nonce++
			return sent{id.name + " " + method, method, []interface{}{mustSign(id.key, method, id.nodeID, nonce, arg), id.nodeID, nonce, arg}}
		}
		signedWallet := func(method string, args ...interface{}) sent {
			nonce++
			ps := []interface{}{mustSign(w.key, method, w.addr, nonce, args...), w.addr, nonce}
			return sent{"wallet " + method, method, append(ps, args...)}
		}
		do := func(s sent) {
			if err := call(s.method, s.params...); err != nil {
				fail("%s refused: %v", s.what, err)
			}
			acked = append(acked, s)
			hist = append(hist, s.what+" acknowledged")
		}
		account := func() string {
			ctx, cancel := context.WithTimeout(context.Background(), 20*time.Second)
			defer cancel()
			var out json.RawMessage
			if err := httpClient(p.addr).Call(ctx, &out, "pool_account", w.addr); err != nil {
				fail("pool_account: %v", err)
			}
			return string(out)
		}
		walletSigned := false
		rounds := rapid.IntRange(1, 2).Draw(rt, "restarts")
		for r := 0; r < rounds; r++ {
			for _, c := range clients {
				if r == 0 || rapid.Bool().Draw(rt, "reconnect") {
					do(signedNode(c, "vipnode_connect", pool.ConnectRequest{VipnodeVersion: "verif", NodeInfo: ethnode.UserAgent{Kind: ethnode.Geth, Network: 1}}))
				}
				if rapid.Bool().Draw(rt, "keepalive") {
					do(signedNode(c, "vipnode_update", pool.UpdateRequest{PeerInfo: peerInfos(nil, false), BlockNumber: uint64(10 + r)}))
				}
				if rapid.IntRange(0, 2).Draw(rt, "link") > 0 {
					do(signedWallet("pool_addNode", c.nodeID))
					walletSigned = true
				}
			}
			before := account()
			sig := rapid.SampledFrom([]string{"SIGKILL", "SIGTERM"}).Draw(rt, "signal")
			if sig == "SIGTERM" {
				p.cmd.Process.Signal(syscall.SIGTERM)
				select {
				case <-p.exited:
				case <-time.After(10 * time.Second):
				}
			}
			p.stop()
			torn := ""
			if sig == "SIGKILL" && rapid.IntRange(0, 2).Draw(rt, "tornWrite") == 0 {
				// the kill came in the middle of a write: the newest value-log file ends in the beginning of an entry
				// that was never completed (and never acknowledged)
				vlogs, _ := filepath.Glob(filepath.Join(dir, "*.vlog"))
				sort.Strings(vlogs)
				if len(vlogs) > 0 {
					f := vlogs[len(vlogs)-1]
					b, _ := os.ReadFile(f)
					if len(b) > 4 {
						k := rapid.IntRange(1, min(len(b)-1, 300)).Draw(rt, "tornBytes")
						tail := append([]byte(nil), b[:k]...)
						if rapid.Bool().Draw(rt, "tornZeros") {
							for i := range tail {
								tail[i] = 0
							}
						}
						fh, err := os.OpenFile(f, os.O_APPEND|os.O_WRONLY, 0)
						if err == nil {
							fh.Write(tail)
							fh.Close()
							torn = fmt.Sprintf(" (the value log ends in %d bytes of an unfinished write)", k)
						}
					}
				}
			}
			hist = append(hist, "pool ended by "+sig+torn+" and started again on the same data directory")
			np, serr := tryStartPool("127.0.0.1", "--store=persist", "--datadir="+dir)
			if serr != nil {
				if strings.Contains(serr.Error(), "start pool:") || !strings.Contains(serr.Error(), "stderr:") {
					rt.Fatalf("[setup failed] %v", serr)
				}
				fail("after %s the pool does not come up again on its data directory: %v", sig+torn, serr)
			}
			p = np
			if after := account(); after != before {
				fail("after the restart pool_account reports %s, before it %s", after, before)
			}
			for _, s := range acked {
				err := call(s.method, s.params...)
				if err == nil || !strings.Contains(err.Error(), "invalid nonce") {
					fail("%s, acknowledged before the restart, was sent again verbatim after it and not refused as a replay: err=%v", s.what, err)
				}
			}
			// fresh requests still work
			do(signedNode(clients[0], "vipnode_update", pool.UpdateRequest{PeerInfo: peerInfos(nil, false), BlockNumber: 99}))
			if walletSigned {
				do(signedWallet("pool_addNode", clients[0].nodeID))
			}
		}
		rec.Case(fmt.Sprintf("bin|%d|%d|%v|%v", nClients, rounds, walletSigned, len(acked)), walletSigned, []string{"binary", fmt.Sprintf("binary:wallet-signed:%v", walletSigned)}, func() interface{} {
			return map[string]interface{}{"kind": "pool binary with the persistent store, restarted", "history": hist}
		})
	})
}
