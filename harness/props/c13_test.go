package props

// C13 — the persistent store keeps every acknowledged change across restarts and crashes.

import (
	"bufio"
	"bytes"
	"encoding/json"
	"fmt"
	"math/big"
	"os"
	"os/exec"
	"path/filepath"
	"sort"
	"strings"
	"sync"
	"syscall"
	"testing"
	"time"

	"github.com/dgraph-io/badger/v2"
	"github.com/vipnode/vipnode/v2/pool/store"
	badgerstore "github.com/vipnode/vipnode/v2/pool/store/badger"
	"pgregory.net/rapid"

	so "verif/storeops"
	"verif/vt"
)

// ---------------------------------------------------------------------------
// 1. close / reopen: the C12 machine on an on-disk store with a reopen rule

func TestC13Reopen(t *testing.T) {
	defer vt.Watch("TestC13Reopen", 120*time.Second)()
	rec := vt.For("C13")
	rec.Rule("reopen: the C12 operation machine (all store methods, virtual time) on an ON-DISK badger store with a close+reopen rule at generated points; after every reopen and at the end the full observation (all getters, Stats, nonce decisions through later submissions) equals the contract model; non-trivial = >=1 reopen after >=3 mutations; distinct by op sequence")
	check(t, func(rt *rapid.T) {
		rapid.SyncTest(rt, func(rt *rapid.T) {
			dir := tempDir("c13-reopen-")
			defer removeAll(dir)
			bdg := mustOpenBadger(rt, dir)
			l := newLockstep(namedStore{"badger-ondisk", bdg})
			defer func() { closeStore(l.drivers[0].s) }()
			kinds := append(append([]string{}, allStoreOpKinds...), "Reopen", "Reopen", "Reopen")
			n := rapid.IntRange(5, 40).Draw(rt, "steps")
			reopens, mutations, nontrivial := 0, 0, false
			for i := 0; i < n; i++ {
				o := genStoreOp(rt, kinds)
				if o.K == "Reopen" {
					if err := closeStore(l.drivers[0].s); err != nil {
						rt.Fatalf("close: %v", err)
					}
					l.drivers[0].s = mustOpenBadger(rt, dir)
					l.ops = append(l.ops, "close + reopen")
					l.kinds = append(l.kinds, "Reopen")
					reopens++
					if mutations >= 3 {
						nontrivial = true
					}
					l.observeAll(rt)
					continue
				}
				switch o.K {
				case "SetNode", "UpdateNodePeers", "AddNodeBalance", "AddAccountBalance", "AddAccountNode", "Nonce":
					mutations++
				}
				l.step(rt, o)
			}
			l.observeAll(rt)
			rec.Case("reopen|"+strings.Join(l.kinds, ","), nontrivial, []string{"reopen", fmt.Sprintf("reopen:count>=2:%v", reopens >= 2)}, func() interface{} {
				return map[string]interface{}{"kind": "close/reopen", "ops": l.ops}
			})
		})
	})
}

// ---------------------------------------------------------------------------
// 2. SIGKILL at generated points

var (
	childOnce sync.Once
	childPath string
	childErr  error
)

func crashChildBinary() (string, error) {
	childOnce.Do(func() {
		dir := os.Getenv("VERIF_WORKDIR")
		if dir == "" {
			dir = os.TempDir()
		}
		childPath = filepath.Join(dir, fmt.Sprintf("crashchild-%d", os.Getpid()))
		args := []string{"build", "-tags", "verif", "-o", childPath}
		if mf := os.Getenv("VERIF_MODFILE"); mf != "" {
			args = append(args, "-modfile="+mf)
		}
		cmd := exec.Command("go1.26.8", append(args, "./cmd/crashchild")...)
		cmd.Dir = harnessDir()
		cmd.Env = append(os.Environ(), "GOFLAGS=-mod=mod", "GOPROXY=off", "GOSUMDB=off", "GOTOOLCHAIN=local")
		if out, err := cmd.CombinedOutput(); err != nil {
			childErr = fmt.Errorf("building crashchild: %v\n%s", err, out)
		}
	})
	return childPath, childErr
}

var crashOpKinds = []string{"SetNode", "SetNode", "UpdateNodePeers", "UpdateNodePeers", "AddNodeBalance", "AddNodeBalance", "AddAccountBalance", "AddAccountNode", "AddAccountNode", "Nonce"}

// genCrashOp: operations whose outcome does not depend on the exact wall-clock instant.
func genCrashOp(rt *rapid.T, nonceStep *int64) so.Op {
	o := genStoreOp(rt, crashOpKinds)
	switch o.K {
	case "SetNode":
		o.AgeNs = rapid.SampledFrom([]int64{0, int64(10 * 365 * 24 * time.Hour)}).Draw(rt, "ageClass")
	case "Nonce":
		if rapid.IntRange(0, 4).Draw(rt, "staleNonce") == 0 {
			o.DeltaNs = -int64(time.Hour)
		} else {
			*nonceStep += int64(rapid.IntRange(-1, 2).Draw(rt, "nonceDir")) * int64(time.Minute)
			o.DeltaNs = *nonceStep
		}
	}
	return o
}

func parseAck(line string) (int, int64, string) {
	p := strings.SplitN(line, " ", 4)
	var idx int
	var nonce int64
	fmt.Sscanf(p[1], "%d", &idx)
	if len(p) > 2 {
		fmt.Sscanf(p[2], "%d", &nonce)
	}
	e := ""
	if len(p) > 3 {
		e = p[3]
	}
	return idx, nonce, e
}

func observeCoarse(s store.Store) []string {
	nodes := append(append([]string{}, storeNodes...), "")
	accts := append(append([]string{}, storeAccts...), "")
	return so.Observe(s, nodes, accts, so.CoarseTime, true)
}

func TestC13Crash(t *testing.T) {
	rec := vt.For("C13")
	rec.Level("fault_enumeration")
	rec.Rule("crash (fault enumeration over kill points): a child process (the repository's badger driver with the pool binary's options, synchronous writes) executes a generated sequence of mutating store operations incl. link/trial migration and nonces, acknowledging each; the parent sends SIGKILL after a generated acknowledgement index i plus a generated delay (0-3ms) into operation i+1, reopens the directory and requires the full observation to equal the contract model after exactly i or i+1 operations (prefix consistency => multi-key atomicity: a half-migrated trial matches neither); non-trivial = the kill landed before the child finished (i < n); distinct by op sequence + kill index")
	rec.Assume("process kill only (SIGKILL): the page cache survives, so power-loss/torn-page behaviour is not exercised; kill points are timed, not enumerated at instruction level; timestamps compared as recent/old classes")
	child, err := crashChildBinary()
	if err != nil {
		t.Fatal(err)
	}
	check(t, func(rt *rapid.T) {
		dir := tempDir("c13-crash-")
		defer removeAll(dir)
		n := rapid.IntRange(3, 25).Draw(rt, "nOps")
		var ops []so.Op
		var step int64
		for i := 0; i < n; i++ {
			ops = append(ops, genCrashOp(rt, &step))
		}
		caseStart := time.Now()
		killAfter := rapid.IntRange(0, n).Draw(rt, "killAfterAck")
		delay := time.Duration(rapid.IntRange(0, 3000).Draw(rt, "delayMicros")) * time.Microsecond
		opsFile := filepath.Join(dir, "ops.json")
		b, _ := json.Marshal(ops)
		if err := os.WriteFile(opsFile, b, 0o644); err != nil {
			rt.Fatal(err)
		}
		dbDir := filepath.Join(dir, "db")
		os.MkdirAll(dbDir, 0o755)
		cmd := exec.Command(child, dbDir, opsFile)
		stdout, _ := cmd.StdoutPipe()
		var stderr bytes.Buffer
		cmd.Stderr = &stderr
		if err := cmd.Start(); err != nil {
			rt.Fatalf("start child: %v", err)
		}
		acked := 0
		done := false
		sc := bufio.NewScanner(stdout)
		var childErrs []string
		var childNonces []int64
		killed := false
		for sc.Scan() {
			line := sc.Text()
			switch {
			case strings.HasPrefix(line, "ACK "):
				idx, nonce, errText := parseAck(line)
				acked = idx
				childErrs = append(childErrs, errText)
				childNonces = append(childNonces, nonce)
			case line == "DONE":
				done = true
			case strings.HasPrefix(line, "OPENFAIL"), strings.HasPrefix(line, "OPSFAIL"):
				cmd.Process.Kill()
				cmd.Wait()
				rt.Fatalf("child: %s", line)
			}
			if !killed && ((line == "READY" && killAfter == 0) || (acked == killAfter && acked > 0 && strings.HasPrefix(line, "ACK "))) {
				if killAfter < n {
					time.Sleep(delay)
					cmd.Process.Signal(syscall.SIGKILL)
					killed = true
					break
				}
			}
		}
		// drain to learn what was acknowledged before the kill took effect
		if killed {
			for sc.Scan() {
				line := sc.Text()
				if strings.HasPrefix(line, "ACK ") {
					idx, nonce, e := parseAck(line)
					acked = idx
					childErrs = append(childErrs, e)
					childNonces = append(childNonces, nonce)
				}
				if line == "DONE" {
					done = true
				}
			}
		}
		cmd.Wait()
		// reopen what the dead process left behind
		st, err := badgerstore.Open(badger.DefaultOptions(dbDir).WithTruncate(true).WithMaxCacheSize(1 << 20).WithMaxTableSize(1 << 20).WithLogger(nil))
		if err != nil {
			rt.Fatalf("reopen after kill (acked %d of %d): %v", acked, n, err)
		}
		got := observeCoarse(st)
		if slow := time.Since(caseStart); slow > 60*time.Second {
			// "active within the last two minutes" is part of what is compared, and the model's clock starts only now:
			// a case that a stalled machine stretched over a minute cannot be judged (seen once under extreme load)
			closeStore(st)
			rec.Count("crash:discarded-stalled-machine", 1)
			return
		}
		// model after exactly `acked` operations, and after acked+1
		model := so.NewModel()
		var hist []string
		for i := 0; i < acked; i++ {
			r := so.Apply(model, ops[i], so.CoarseTime)
			hist = append(hist, fmt.Sprintf("%s -> child: %q model: %q", ops[i], childErrs[i], r.Err))
			if r.Err != childErrs[i] {
				closeStore(st)
				rt.Fatalf("operation %d %s: child got %q, contract model %q", i+1, ops[i], childErrs[i], r.Err)
			}
		}
		wantA := observeCoarse(model)
		match := diffObservations("reopened store", got, wantA) == nil
		inflightApplied := false
		var wantB []string
		if !match && acked < n && !done {
			so.Apply(model, ops[acked], so.CoarseTime)
			wantB = observeCoarse(model)
			if diffObservations("reopened store", got, wantB) == nil {
				match = true
				inflightApplied = true
			}
		}
		// nonce durability: the last accepted nonce of every id must still be refused after the restart
		var nonceErr string
		if match {
			lastAccepted := map[string]int64{}
			for i := 0; i < acked; i++ {
				if ops[i].K == "Nonce" && childErrs[i] == "" && childNonces[i] > lastAccepted[ops[i].Node] {
					lastAccepted[ops[i].Node] = childNonces[i]
				}
			}
			for id, last := range lastAccepted {
				if err := st.CheckAndSaveNonce(id, last); err == nil {
					nonceErr = fmt.Sprintf("nonce %d of %q was accepted and acknowledged before the kill and is accepted again after the restart", last, id)
				}
			}
		}
		closeStore(st)
		if !match {
			msg := fmt.Sprintf("after SIGKILL (acknowledged %d of %d operations, delay %s) the reopened store matches neither the state after %d operations nor after %d:\nvs %d ops: %v", acked, n, delay, acked, acked+1, acked, diffObservations("reopened store", got, wantA))
			if wantB != nil {
				msg += fmt.Sprintf("\nvs %d ops: %v\nin-flight operation: %s", acked+1, diffObservations("reopened store", got, wantB), ops[acked])
			}
			rt.Fatalf("%s\nhistory:\n  %s", msg, strings.Join(hist, "\n  "))
		}
		if nonceErr != "" {
			rt.Fatalf("%s\nhistory:\n  %s", nonceErr, strings.Join(hist, "\n  "))
		}
		var kinds []string
		for _, o := range ops {
			kinds = append(kinds, o.K)
		}
		rec.Case(fmt.Sprintf("crash|%s|%d", strings.Join(kinds, ","), killAfter), acked < n, []string{"crash", fmt.Sprintf("crash:inflight-applied:%v", inflightApplied), fmt.Sprintf("crash:killed-before-done:%v", !done)}, func() interface{} {
			var os_ []string
			for _, o := range ops {
				os_ = append(os_, o.String())
			}
			return map[string]interface{}{"kind": "SIGKILL", "ops": os_, "kill_after_ack": killAfter, "delay": delay.String(), "acknowledged": acked, "inflight_op_was_durable": inflightApplied}
		})
	})
}

// ---------------------------------------------------------------------------
// 3. concurrent readers observe multi-key operations atomically

func TestC13ConcurrentReaders(t *testing.T) {
	rec := vt.For("C13")
	rec.Rule("concurrent readers: a writer links k nodes with trial credit to wallets (each link migrates a trial balance: multi-key transaction) and moves credit, while reader goroutines take Stats() (one read transaction) in a loop on an on-disk badger store; every Stats must show the constant ledger total and a trial count between the adjacent model states, never a half-migrated state; non-trivial = every case with >=2 links; distinct by amounts + k")
	check(t, func(rt *rapid.T) {
		dir := tempDir("c13-readers-")
		defer removeAll(dir)
		st := mustOpenBadger(rt, dir)
		defer st.Close()
		k := rapid.IntRange(2, 8).Draw(rt, "k")
		total := new(big.Int)
		var amounts []string
		for i := 0; i < k; i++ {
			id := store.NodeID(fmt.Sprintf("n%d", i))
			st.SetNode(store.Node{ID: id, LastSeen: time.Now()})
			amt, _ := new(big.Int).SetString(rapid.SampledFrom([]string{"1", "1000", "18446744073709551616", "-77", "340282366920938463463374607431768211456"}).Draw(rt, "amount"), 10)
			st.AddNodeBalance(id, amt)
			total.Add(total, amt)
			amounts = append(amounts, amt.String())
		}
		stop := make(chan struct{})
		var wg sync.WaitGroup
		var mu sync.Mutex
		var bad []string
		reads := 0
		for r := 0; r < 3; r++ {
			wg.Add(1)
			go func() {
				defer wg.Done()
				lastTrials := k
				for {
					select {
					case <-stop:
						return
					default:
					}
					s, err := st.Stats()
					mu.Lock()
					reads++
					if err != nil {
						bad = append(bad, "Stats error: "+err.Error())
					} else {
						if s.TotalCredit.Cmp(total) != 0 {
							bad = append(bad, fmt.Sprintf("Stats saw ledger total %s, must always be %s (a trial balance was both migrated and kept, or lost)", s.TotalCredit.String(), total))
						}
						if s.NumTrialBalances > lastTrials || s.NumTrialBalances < 0 {
							bad = append(bad, fmt.Sprintf("trial count went %d -> %d", lastTrials, s.NumTrialBalances))
						}
						lastTrials = s.NumTrialBalances
					}
					mu.Unlock()
				}
			}()
		}
		// ... and readers of single nodes: a node's balance is its trial credit until it is linked and its wallet's
		// balance from then on - never "nothing" in between
		amts := make([]*big.Int, k)
		for i := range amts {
			amts[i], _ = new(big.Int).SetString(amounts[i], 10)
		}
		for r := 0; r < 2; r++ {
			wg.Add(1)
			go func() {
				defer wg.Done()
				for i := 0; ; i = (i + 1) % k {
					select {
					case <-stop:
						return
					default:
					}
					b, err := st.GetNodeBalance(store.NodeID(fmt.Sprintf("n%d", i)))
					mu.Lock()
					reads++
					if err != nil {
						bad = append(bad, fmt.Sprintf("GetNodeBalance(n%d) error: %v", i, err))
					} else if b.Account == "" && b.Credit.Cmp(amts[i]) != 0 {
						bad = append(bad, fmt.Sprintf("GetNodeBalance(n%d) saw an unlinked node with credit %s; its trial credit is %s until the link (which moves it to the wallet in one transaction)", i, b.Credit.String(), amts[i]))
					}
					mu.Unlock()
				}
			}()
		}
		for i := 0; i < k; i++ {
			acct := store.Account(rapid.SampledFrom([]string{"W1", "W2"}).Draw(rt, "wallet"))
			if err := st.AddAccountNode(acct, store.NodeID(fmt.Sprintf("n%d", i))); err != nil {
				rt.Fatalf("link: %v", err)
			}
		}
		close(stop)
		wg.Wait()
		if len(bad) > 0 {
			rt.Fatalf("concurrent reader: %s", strings.Join(bad, "; "))
		}
		s, _ := st.Stats()
		if s.NumTrialBalances != 0 || s.TotalCredit.Cmp(total) != 0 {
			rt.Fatalf("after linking: trials=%d total=%s want 0 / %s", s.NumTrialBalances, s.TotalCredit.String(), total)
		}
		rec.Case(fmt.Sprintf("readers|%d|%v", k, amounts), true, []string{"readers"}, func() interface{} {
			return map[string]interface{}{"kind": "concurrent readers", "links": k, "trial_amounts": amounts, "stats_reads": reads}
		})
	})
}

// ---------------------------------------------------------------------------
// 3b. concurrent writers on hot keys: every acknowledged write is in the store, also after a reopen

func TestC13ConcurrentWriters(t *testing.T) {
	rec := vt.For("C13")
	rec.Rule("concurrent writers: 2-16 goroutines each apply a drawn list of credit movements (AddNodeBalance / AddAccountBalance, amounts up to 2^128, both signs) to 1-3 hot keys of an on-disk badger store at the same time (optimistic transactions conflict and are re-run); an operation that returned nil is acknowledged; oracle: every balance equals the sum of the acknowledged amounts (additions commute, so the sum is schedule-independent), immediately and after close + reopen; non-trivial = >=2 writers on one key; distinct by writers + op lists")
	defer vt.Watch("TestC13ConcurrentWriters", 120*time.Second)()
	check(t, func(rt *rapid.T) {
		dir := tempDir("c13-writers-")
		defer removeAll(dir)
		st := mustOpenBadger(rt, dir)
		closed := false
		defer func() {
			if !closed {
				st.Close()
			}
		}()
		nKeys := rapid.IntRange(1, 3).Draw(rt, "keys")
		nodes := []store.NodeID{}
		for i := 0; i < nKeys; i++ {
			id := store.NodeID(fmt.Sprintf("n%d", i))
			st.SetNode(store.Node{ID: id, LastSeen: time.Now()})
			nodes = append(nodes, id)
		}
		// one of the nodes belongs to a wallet: its credit lands on the account
		if rapid.Bool().Draw(rt, "linked") {
			if err := st.AddAccountNode("W0", nodes[0]); err != nil {
				rt.Fatalf("link: %v", err)
			}
		}
		type wop struct {
			acct bool
			key  int
			amt  *big.Int
		}
		writers := rapid.IntRange(2, 16).Draw(rt, "writers")
		plans := make([][]wop, writers)
		var sig []string
		for w := range plans {
			n := rapid.IntRange(1, 12).Draw(rt, "ops")
			for j := 0; j < n; j++ {
				amt, _ := new(big.Int).SetString(rapid.SampledFrom([]string{"1", "-1", "1000", "-999", "18446744073709551616", "340282366920938463463374607431768211456", "-340282366920938463463374607431768211455"}).Draw(rt, "amount"), 10)
				plans[w] = append(plans[w], wop{acct: rapid.IntRange(0, 3).Draw(rt, "onAccount") == 0, key: rapid.IntRange(0, nKeys-1).Draw(rt, "key"), amt: amt})
			}
			sig = append(sig, fmt.Sprint(len(plans[w])))
		}
		var mu sync.Mutex
		wantNode := map[store.NodeID]*big.Int{}
		wantAcct := map[store.Account]*big.Int{}
		acked, refused := 0, 0
		var refusedText string
		var wg sync.WaitGroup
		start := make(chan struct{})
		for w := range plans {
			wg.Add(1)
			go func(plan []wop) {
				defer wg.Done()
				<-start
				for _, o := range plan {
					var err error
					acct := store.Account(fmt.Sprintf("W%d", o.key))
					if o.acct {
						err = st.AddAccountBalance(acct, o.amt)
					} else {
						err = st.AddNodeBalance(nodes[o.key], o.amt)
					}
					mu.Lock()
					if err != nil {
						refused++
						refusedText = err.Error()
					} else {
						acked++
						if o.acct {
							if wantAcct[acct] == nil {
								wantAcct[acct] = new(big.Int)
							}
							wantAcct[acct].Add(wantAcct[acct], o.amt)
						} else {
							if wantNode[nodes[o.key]] == nil {
								wantNode[nodes[o.key]] = new(big.Int)
							}
							wantNode[nodes[o.key]].Add(wantNode[nodes[o.key]], o.amt)
						}
					}
					mu.Unlock()
				}
			}(plans[w])
		}
		close(start)
		wg.Wait()
		vt.Tick("C13 writers done")
		total := new(big.Int)
		for _, v := range wantNode {
			total.Add(total, v)
		}
		for _, v := range wantAcct {
			total.Add(total, v)
		}
		verify := func(when string) {
			s, err := st.Stats()
			if err != nil {
				rt.Fatalf("%s: Stats: %v", when, err)
			}
			if s.TotalCredit.Cmp(total) != 0 {
				rt.Fatalf("%s: the ledger holds %s in total, the %d acknowledged movements of %d concurrent writers sum to %s (%d were refused: %q): an acknowledged write is missing or a refused one was applied", when, s.TotalCredit.String(), acked, writers, total, refused, refusedText)
			}
			// per key: a node's credit is on its account when it is linked
			for i, id := range nodes {
				b, err := st.GetNodeBalance(id)
				if err != nil {
					rt.Fatalf("%s: GetNodeBalance: %v", when, err)
				}
				want := new(big.Int)
				if v := wantNode[id]; v != nil {
					want.Add(want, v)
				}
				acct := store.Account(fmt.Sprintf("W%d", i))
				if b.Account == acct {
					if v := wantAcct[acct]; v != nil {
						want.Add(want, v)
					}
				}
				if b.Credit.Cmp(want) != 0 {
					rt.Fatalf("%s: balance of %s (account %q) is %s, the acknowledged movements sum to %s", when, id, b.Account, b.Credit.String(), want)
				}
			}
		}
		verify("after the writers finished")
		if err := st.Close(); err != nil {
			rt.Fatalf("close: %v", err)
		}
		closed = true
		st = mustOpenBadger(rt, dir)
		closed = false
		verify("after close and reopen")
		rec.Case(fmt.Sprintf("writers|%d|%d|%v", writers, nKeys, sig), true, []string{"writers", fmt.Sprintf("writers:refused=%v", refused > 0)}, func() interface{} {
			return map[string]interface{}{"kind": "concurrent writers on hot keys", "writers": writers, "hot_keys": nKeys, "acknowledged": acked, "refused": refused, "ledger_total": total.String()}
		})
	})
}

// ---------------------------------------------------------------------------
// 4. migrations

func dumpKeys(rt *rapid.T, dir string) map[string]string {
	db, err := badger.Open(smallBadgerOpts(dir))
	if err != nil {
		rt.Fatalf("raw open: %v", err)
	}
	defer db.Close()
	out := map[string]string{}
	err = db.View(func(txn *badger.Txn) error {
		it := txn.NewIterator(badger.DefaultIteratorOptions)
		defer it.Close()
		for it.Rewind(); it.Valid(); it.Next() {
			k := string(it.Item().KeyCopy(nil))
			v, err := it.Item().ValueCopy(nil)
			if err != nil {
				return err
			}
			out[k] = string(v)
		}
		return nil
	})
	if err != nil {
		rt.Fatalf("dump: %v", err)
	}
	return out
}

func setRawVersion(rt *rapid.T, dir string, version int) {
	db, err := badger.Open(smallBadgerOpts(dir))
	if err != nil {
		rt.Fatalf("raw open: %v", err)
	}
	defer db.Close()
	err = db.Update(func(txn *badger.Txn) error {
		if version == 0 {
			return txn.Delete([]byte("vip:version"))
		}
		var buf bytes.Buffer
		if err := gobEncode(&buf, version); err != nil {
			return err
		}
		return txn.Set([]byte("vip:version"), buf.Bytes())
	})
	if err != nil {
		rt.Fatalf("set version: %v", err)
	}
}

// realistic identifiers: node ids are 128 hex digits (nonces are kept per node id or per 0x wallet address)
func migNodeID(i int) string { return fmt.Sprintf("%0128x", 0xabc000+i) }

func migNonceID(i int) string {
	if i%4 == 3 {
		return fmt.Sprintf("0x%040x", 0xfee000+i)
	}
	return migNodeID(i)
}

func TestC13Migration(t *testing.T) {
	rec := vt.For("C13")
	rec.Rule("migrations: a database is populated through the real driver with generated numbers (0..400, crossing the iterator prefetch window of 100) of nodes, peer sets, trial balances, wallet balances, links and nonces, its format version is rewritten to 0, 1 or left current with the raw badger API, then the driver opens it (twice); oracle: version is current afterwards, every key outside vip:nonce:* and vip:version is byte-identical before/after the first and the second open, and the store then works (a fresh nonce is accepted); non-trivial = an older version with >=1 nonce and >=1 other key; distinct by (version, counts)")
	check(t, func(rt *rapid.T) {
		dir := tempDir("c13-mig-")
		defer removeAll(dir)
		gen := func(label string) int {
			return rapid.SampledFrom([]int{0, 1, 3, 99, 100, 101, 150, 300, 400}).Draw(rt, label)
		}
		nNodes, nNonces, nPeers, nTrials := gen("nodes"), gen("nonces"), gen("peerSets"), gen("trials")
		if nPeers > nNodes {
			nPeers = nNodes
		}
		if nTrials > nNodes {
			nTrials = nNodes
		}
		version := rapid.SampledFrom([]int{0, 1, 1, 1, 2}).Draw(rt, "version")
		st := mustOpenBadger(rt, dir)
		for i := 0; i < nNodes; i++ {
			st.SetNode(store.Node{ID: store.NodeID(migNodeID(i)), LastSeen: time.Now(), IsHost: i%2 == 0, Kind: "geth"})
		}
		for i := 0; i < nPeers; i++ {
			st.UpdateNodePeers(store.NodeID(migNodeID(i)), []string{migNodeID((i + 1) % nNodes)}, uint64(i))
		}
		for i := 0; i < nTrials; i++ {
			st.AddNodeBalance(store.NodeID(migNodeID(i)), big.NewInt(int64(i+1)))
		}
		for i := 0; i < nTrials/3; i++ {
			st.AddAccountNode(store.Account(fmt.Sprintf("wallet%d", i%5)), store.NodeID(migNodeID(i)))
		}
		for i := 0; i < nNonces; i++ {
			if err := st.CheckAndSaveNonce(migNonceID(i), time.Now().UnixNano()); err != nil {
				rt.Fatalf("nonce: %v", err)
			}
		}
		st.Close()
		if version != 2 {
			setRawVersion(rt, dir, version)
		}
		before := dumpKeys(rt, dir)
		filter := func(m map[string]string) map[string]string {
			r := map[string]string{}
			for k, v := range m {
				if strings.HasPrefix(k, "vip:nonce:") || k == "vip:version" {
					continue
				}
				r[k] = v
			}
			return r
		}
		cmp := func(label string, a, b map[string]string) {
			var lost, changed, added []string
			for k, v := range a {
				if w, ok := b[k]; !ok {
					lost = append(lost, k)
				} else if w != v {
					changed = append(changed, k)
				}
			}
			for k := range b {
				if _, ok := a[k]; !ok {
					added = append(added, k)
				}
			}
			if len(lost)+len(changed)+len(added) > 0 {
				sort.Strings(lost)
				if len(lost) > 8 {
					lost = append(lost[:8], fmt.Sprintf("... %d more", len(lost)-8))
				}
				rt.Fatalf("%s (version %d, %d nodes, %d peer sets, %d trials, %d nonces): %d keys lost %v, %d changed %v, %d added %v", label, version, nNodes, nPeers, nTrials, nNonces, len(lost), lost, len(changed), changed, len(added), added)
			}
		}
		for pass := 1; pass <= 2; pass++ {
			st, err := openBadger(dir)
			if err != nil {
				rt.Fatalf("open #%d of a version-%d database: %v", pass, version, err)
			}
			st.Close()
			after := dumpKeys(rt, dir)
			cmp(fmt.Sprintf("open #%d changed data it must not touch", pass), filter(before), filter(after))
			var v int
			if raw, ok := after["vip:version"]; ok {
				gobDecode([]byte(raw), &v)
			}
			if v != 2 {
				rt.Fatalf("after open #%d the format version is %d, want 2", pass, v)
			}
			if pass == 2 || version == 2 {
				// reopening a current database changes nothing at all
				if pass == 2 {
					// (first open already migrated; compare nonce table as well)
				}
			}
			before = after
		}
		st2 := mustOpenBadger(rt, dir)
		if err := st2.CheckAndSaveNonce("fresh", time.Now().UnixNano()); err != nil {
			rt.Fatalf("migrated store refuses a fresh nonce: %v", err)
		}
		st2.Close()
		rec.Case(fmt.Sprintf("mig|v%d|%d|%d|%d|%d", version, nNodes, nPeers, nTrials, nNonces), version < 2 && nNonces > 0 && nNodes > 0, []string{"migration", fmt.Sprintf("migration:from:%d", version), fmt.Sprintf("migration:nonces>100:%v", nNonces > 100)}, func() interface{} {
			return map[string]interface{}{"kind": "migration", "from_version": version, "nodes": nNodes, "peer_sets": nPeers, "trials": nTrials, "nonces": nNonces}
		})
	})
}

// harnessDir is the module directory of this test binary's sources (the
// driver runs the binary from a scratch directory).
func harnessDir() string {
	if d := os.Getenv("VERIF_HARNESS"); d != "" {
		return d
	}
	return "/verif/harness"
}

// TestC13MigrationCrash — a kill during the migrating Open leaves the old or the new format, never a mix.
func TestC13MigrationCrash(t *testing.T) {
	rec := vt.For("C13")
	rec.Rule("migration under SIGKILL: a version-0/1 database (realistic ids, 0-300 nonces, nodes with trial balances and peer sets) is opened by a child process that is killed after a generated delay (0-150 ms) - before, during or after the migrating transaction; the parent then inspects the raw keys: either the old version with EVERY key unchanged, or the current version with every non-nonce key unchanged and no nonce key left; then a normal Open must succeed and preserve the non-nonce keys; non-trivial = kill landed before the child reported READY; distinct by (version, counts, delay)")
	child, err := crashChildBinary()
	if err != nil {
		t.Fatal(err)
	}
	check(t, func(rt *rapid.T) {
		dir := tempDir("c13-migcrash-")
		defer removeAll(dir)
		db := filepath.Join(dir, "db")
		os.MkdirAll(db, 0o755)
		nNodes := rapid.SampledFrom([]int{1, 5, 120}).Draw(rt, "nodes")
		nNonces := rapid.SampledFrom([]int{0, 3, 150, 300}).Draw(rt, "nonces")
		version := rapid.SampledFrom([]int{0, 1, 1}).Draw(rt, "version")
		// the child uses badger.DefaultOptions; populate with the same options so that table formats agree
		st, err := badgerstore.Open(badger.DefaultOptions(db).WithTruncate(true).WithMaxCacheSize(1 << 20).WithMaxTableSize(1 << 20).WithLogger(nil).WithSyncWrites(false))
		if err != nil {
			rt.Fatalf("open: %v", err)
		}
		for i := 0; i < nNodes; i++ {
			st.SetNode(store.Node{ID: store.NodeID(migNodeID(i)), LastSeen: time.Now(), IsHost: i%2 == 0})
			st.AddNodeBalance(store.NodeID(migNodeID(i)), big.NewInt(int64(100+i)))
			st.UpdateNodePeers(store.NodeID(migNodeID(i)), []string{migNodeID((i + 1) % nNodes)}, 1)
		}
		for i := 0; i < nNonces; i++ {
			st.CheckAndSaveNonce(migNonceID(i), time.Now().UnixNano())
		}
		st.Close()
		setRawVersionDefault(rt, db, version)
		before := dumpKeysDefault(rt, db)
		delay := time.Duration(rapid.IntRange(0, 150000).Draw(rt, "delayMicros")) * time.Microsecond
		cmd := exec.Command(child, db, "-", "migrate-only")
		stdout, _ := cmd.StdoutPipe()
		if err := cmd.Start(); err != nil {
			rt.Fatalf("start child: %v", err)
		}
		ready := make(chan bool, 1)
		go func() {
			sc := bufio.NewScanner(stdout)
			r := false
			for sc.Scan() {
				if sc.Text() == "READY" {
					r = true
				}
			}
			ready <- r
		}()
		time.Sleep(delay)
		cmd.Process.Signal(syscall.SIGKILL)
		cmd.Wait()
		wasReady := <-ready
		after := dumpKeysDefault(rt, db)
		var v int
		if raw, ok := after["vip:version"]; ok {
			gobDecode([]byte(raw), &v)
		}
		nonceLeft, diffs := 0, []string{}
		for k, val := range before {
			if k == "vip:version" {
				continue
			}
			w, ok := after[k]
			if strings.HasPrefix(k, "vip:nonce:") {
				if ok {
					nonceLeft++
				}
				continue
			}
			if !ok {
				diffs = append(diffs, "lost "+k)
			} else if w != val {
				diffs = append(diffs, "changed "+k)
			}
		}
		if len(diffs) > 0 {
			rt.Fatalf("kill after %s during Open of a version-%d database: %d non-nonce keys damaged: %.300v", delay, version, len(diffs), diffs)
		}
		switch v {
		case version:
			if nonceLeft != nNoncesIn(before) {
				rt.Fatalf("database still at version %d but %d of %d nonce keys are gone (half-applied migration)", v, nNoncesIn(before)-nonceLeft, nNoncesIn(before))
			}
		case 2:
			if nonceLeft != 0 {
				rt.Fatalf("database at version 2 but %d nonce keys of the old format are left (half-applied migration)", nonceLeft)
			}
		default:
			rt.Fatalf("database version is %d after a kill during the migration from %d", v, version)
		}
		st2, err := badgerstore.Open(badger.DefaultOptions(db).WithTruncate(true).WithMaxCacheSize(1 << 20).WithMaxTableSize(1 << 20).WithLogger(nil))
		if err != nil {
			rt.Fatalf("Open after the kill: %v", err)
		}
		if b, err := st2.GetNodeBalance(store.NodeID(migNodeID(0))); err != nil || b.Credit.Int64() != 100 {
			rt.Fatalf("after kill + reopen the balance of node 0 is %v (err %v), want 100", b.Credit.String(), err)
		}
		st2.Close()
		rec.Case(fmt.Sprintf("migcrash|v%d|%d|%d|%s", version, nNodes, nNonces, delay), !wasReady, []string{"migration-crash", fmt.Sprintf("migration-crash:killed-before-ready:%v", !wasReady), fmt.Sprintf("migration-crash:found-version:%d", v)}, func() interface{} {
			return map[string]interface{}{"kind": "SIGKILL during migrating Open", "from_version": version, "nodes": nNodes, "nonces": nNonces, "kill_delay": delay.String(), "child_finished_open": wasReady, "version_found": v}
		})
	})
}

func nNoncesIn(m map[string]string) int {
	n := 0
	for k := range m {
		if strings.HasPrefix(k, "vip:nonce:") {
			n++
		}
	}
	return n
}

func dumpKeysDefault(rt *rapid.T, dir string) map[string]string {
	db, err := badger.Open(badger.DefaultOptions(dir).WithTruncate(true).WithMaxCacheSize(1 << 20).WithMaxTableSize(1 << 20).WithLogger(nil))
	if err != nil {
		rt.Fatalf("raw open: %v", err)
	}
	defer db.Close()
	out := map[string]string{}
	db.View(func(txn *badger.Txn) error {
		it := txn.NewIterator(badger.DefaultIteratorOptions)
		defer it.Close()
		for it.Rewind(); it.Valid(); it.Next() {
			v, _ := it.Item().ValueCopy(nil)
			out[string(it.Item().KeyCopy(nil))] = string(v)
		}
		return nil
	})
	return out
}

func setRawVersionDefault(rt *rapid.T, dir string, version int) {
	db, err := badger.Open(badger.DefaultOptions(dir).WithTruncate(true).WithMaxCacheSize(1 << 20).WithMaxTableSize(1 << 20).WithLogger(nil))
	if err != nil {
		rt.Fatalf("raw open: %v", err)
	}
	defer db.Close()
	err = db.Update(func(txn *badger.Txn) error {
		if version == 0 {
			return txn.Delete([]byte("vip:version"))
		}
		var buf bytes.Buffer
		gobEncode(&buf, version)
		return txn.Set([]byte("vip:version"), buf.Bytes())
	})
	if err != nil {
		rt.Fatalf("set version: %v", err)
	}
}
