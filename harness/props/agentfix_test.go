package props

// Fixtures for the agent checks (C18, C20): a recording fake Ethereum node and
// a scripted pool.Pool.

import (
	"context"
	"encoding/json"
	"errors"
	"fmt"
	"sync"
	"time"

	"github.com/ethereum/go-ethereum/accounts/abi/bind"
	"github.com/ethereum/go-ethereum/rpc"
	"github.com/vipnode/vipnode/v2/ethnode"
	"github.com/vipnode/vipnode/v2/pool"
)

type nodeCall struct {
	Method string
	Arg    string
	At     time.Time
}

// recNode implements ethnode.EthNode and records every call.
type recNode struct {
	mu      sync.Mutex
	enode   string
	ua      ethnode.UserAgent
	peers   []ethnode.PeerInfo
	block   uint64
	calls   []nodeCall
	failAll error
	failOn  func(method, arg string) bool
}

var _ ethnode.EthNode = &recNode{}

func (n *recNode) rec(m, a string) error {
	n.mu.Lock()
	defer n.mu.Unlock()
	n.calls = append(n.calls, nodeCall{m, a, time.Now()})
	if n.failOn != nil && n.failOn(m, a) {
		return errors.New("scripted node RPC failure")
	}
	return n.failAll
}

func (n *recNode) NodeRPC() *rpc.Client                  { return nil }
func (n *recNode) ContractBackend() bind.ContractBackend { return nil }
func (n *recNode) Kind() ethnode.NodeKind                { return n.ua.Kind }
func (n *recNode) UserAgent() ethnode.UserAgent          { return n.ua }
func (n *recNode) Enode(ctx context.Context) (string, error) {
	return n.enode, nil
}
func (n *recNode) AddTrustedPeer(ctx context.Context, id string) error {
	return n.rec("AddTrustedPeer", id)
}
func (n *recNode) RemoveTrustedPeer(ctx context.Context, id string) error {
	return n.rec("RemoveTrustedPeer", id)
}
func (n *recNode) ConnectPeer(ctx context.Context, uri string) error {
	return n.rec("ConnectPeer", uri)
}
func (n *recNode) DisconnectPeer(ctx context.Context, id string) error {
	return n.rec("DisconnectPeer", id)
}
func (n *recNode) Peers(ctx context.Context) ([]ethnode.PeerInfo, error) {
	n.mu.Lock()
	defer n.mu.Unlock()
	return append([]ethnode.PeerInfo(nil), n.peers...), nil
}
func (n *recNode) BlockNumber(ctx context.Context) (uint64, error) {
	n.mu.Lock()
	defer n.mu.Unlock()
	return n.block, nil
}
func (n *recNode) take() []nodeCall {
	n.mu.Lock()
	defer n.mu.Unlock()
	c := n.calls
	n.calls = nil
	return c
}
func (n *recNode) setPeers(p []ethnode.PeerInfo) {
	n.mu.Lock()
	n.peers = p
	n.mu.Unlock()
}

type poolCall struct {
	Method string
	At     time.Time
	Update *pool.UpdateRequest
	Peer   *pool.PeerRequest
}

// scriptPool implements pool.Pool with scripted replies.
type scriptPool struct {
	mu        sync.Mutex
	calls     []poolCall
	onConnect func(n int) error
	onUpdate  func(n int, req pool.UpdateRequest) (*pool.UpdateResponse, error)
	onPeer    func(n int, req pool.PeerRequest) (*pool.PeerResponse, error)
	nConnect  int
	nUpdate   int
	nPeer     int
}

var _ pool.Pool = &scriptPool{}

func (p *scriptPool) log(c poolCall) {
	c.At = time.Now()
	p.calls = append(p.calls, c)
}

func (p *scriptPool) Host(ctx context.Context, req pool.HostRequest) (*pool.HostResponse, error) {
	return nil, errors.New("not used")
}
func (p *scriptPool) Client(ctx context.Context, req pool.ClientRequest) (*pool.ClientResponse, error) {
	return nil, errors.New("not used")
}
func (p *scriptPool) Withdraw(ctx context.Context) error { return errors.New("not used") }

func (p *scriptPool) Connect(ctx context.Context, req pool.ConnectRequest) (*pool.ConnectResponse, error) {
	p.mu.Lock()
	p.nConnect++
	n := p.nConnect
	p.log(poolCall{Method: "connect"})
	f := p.onConnect
	p.mu.Unlock()
	if f != nil {
		if err := f(n); err != nil {
			return nil, err
		}
	}
	return &pool.ConnectResponse{PoolVersion: "script"}, nil
}

func (p *scriptPool) Update(ctx context.Context, req pool.UpdateRequest) (*pool.UpdateResponse, error) {
	p.mu.Lock()
	p.nUpdate++
	n := p.nUpdate
	r := req
	p.log(poolCall{Method: "update", Update: &r})
	f := p.onUpdate
	p.mu.Unlock()
	if f != nil {
		return f(n, req)
	}
	return &pool.UpdateResponse{}, nil
}

func (p *scriptPool) Peer(ctx context.Context, req pool.PeerRequest) (*pool.PeerResponse, error) {
	p.mu.Lock()
	p.nPeer++
	n := p.nPeer
	r := req
	p.log(poolCall{Method: "peer", Peer: &r})
	f := p.onPeer
	p.mu.Unlock()
	if f != nil {
		return f(n, req)
	}
	return &pool.PeerResponse{}, nil
}

func (p *scriptPool) take() []poolCall {
	p.mu.Lock()
	defer p.mu.Unlock()
	c := p.calls
	p.calls = nil
	return c
}

func (p *scriptPool) count(method string) int {
	p.mu.Lock()
	defer p.mu.Unlock()
	n := 0
	for _, c := range p.calls {
		if c.Method == method {
			n++
		}
	}
	return n
}

func hexID(i int) string { return fmt.Sprintf("%0128x", 0x1000+i) }

// ---------------------------------------------------------------------------
// A fake Ethereum node behind go-ethereum's in-process RPC server, so that the
// real ethnode.RemoteNode flavours (geth, parity) and their id/enode encodings
// are inside the loop.

type rpcFakeNode struct {
	mu     sync.Mutex
	kind   ethnode.NodeKind
	light  bool
	peers  []ethnode.PeerInfo
	calls  []nodeCall
	server *rpc.Server
	client *rpc.Client
	node   ethnode.EthNode
}

type Web3Svc struct{ n *rpcFakeNode }

func (s *Web3Svc) ClientVersion() string {
	if s.n.kind == ethnode.Parity {
		return "Parity-Ethereum//v2.5.13-stable/x86_64-linux-gnu/rustc1.40.0"
	}
	return "Geth/v1.9.15-stable/linux-amd64/go1.14"
}

type EthSvc struct{ n *rpcFakeNode }

func (s *EthSvc) ProtocolVersion() string {
	if s.n.light {
		if s.n.kind == ethnode.Parity {
			return "1"
		}
		return "10002"
	}
	return "63"
}
func (s *EthSvc) BlockNumber() string { return "0x2a" }

type NetSvc struct{ n *rpcFakeNode }

func (s *NetSvc) Version() string { return "1" }

type AdminSvc struct{ n *rpcFakeNode }

func (s *AdminSvc) Peers() []ethnode.PeerInfo {
	s.n.mu.Lock()
	defer s.n.mu.Unlock()
	return append([]ethnode.PeerInfo{}, s.n.peers...)
}
func (s *AdminSvc) NodeInfo() map[string]string {
	return map[string]string{"enode": "enode://" + hexID(99) + "@[::]:30303"}
}
func (s *AdminSvc) AddPeer(u string) (bool, error)    { s.n.rec("ConnectPeer", u); return true, nil }
func (s *AdminSvc) RemovePeer(u string) (bool, error) { s.n.rec("DisconnectPeer", u); return true, nil }
func (s *AdminSvc) AddTrustedPeer(u string) (bool, error) {
	s.n.rec("AddTrustedPeer", u)
	return true, nil
}
func (s *AdminSvc) RemoveTrustedPeer(u string) (bool, error) {
	s.n.rec("RemoveTrustedPeer", u)
	return true, nil
}

type ParitySvc struct{ n *rpcFakeNode }

type parityPeerJSON struct {
	ID        string                     `json:"id"`
	Name      string                     `json:"name"`
	Caps      []string                   `json:"caps"`
	Protocols map[string]json.RawMessage `json:"protocols"`
	Network   struct {
		LocalAddress  string `json:"localAddress"`
		RemoteAddress string `json:"remoteAddress"`
	} `json:"network"`
}

func (s *ParitySvc) NetPeers() map[string]interface{} {
	s.n.mu.Lock()
	defer s.n.mu.Unlock()
	out := []parityPeerJSON{}
	for _, p := range s.n.peers {
		pp := parityPeerJSON{ID: p.ID, Name: p.Name, Caps: p.Caps, Protocols: map[string]json.RawMessage{"eth": json.RawMessage(`{"version":63}`)}}
		pp.Network.RemoteAddress = p.Network.RemoteAddress
		out = append(out, pp)
	}
	// an inactive (handshaking) peer that must be filtered out
	out = append(out, parityPeerJSON{ID: hexID(77), Name: "pending"})
	return map[string]interface{}{"active": len(out) - 1, "connected": len(out), "max": 50, "peers": out}
}
func (s *ParitySvc) Enode() string { return "enode://" + hexID(99) + "@[::]:30303" }
func (s *ParitySvc) AddReservedPeer(u string) (bool, error) {
	s.n.rec("ConnectPeer", u)
	return true, nil
}
func (s *ParitySvc) RemoveReservedPeer(u string) (bool, error) {
	// on parity un-trusting and disconnecting are the same call
	s.n.rec("RemoveTrustedPeer", u)
	s.n.rec("DisconnectPeer", u)
	return true, nil
}

func (n *rpcFakeNode) rec(m, a string) {
	n.mu.Lock()
	n.calls = append(n.calls, nodeCall{m, a, time.Now()})
	n.mu.Unlock()
}

func (n *rpcFakeNode) take() []nodeCall {
	n.mu.Lock()
	defer n.mu.Unlock()
	c := n.calls
	n.calls = nil
	return c
}

func (n *rpcFakeNode) setPeers(p []ethnode.PeerInfo) {
	n.mu.Lock()
	n.peers = p
	n.mu.Unlock()
}

func (n *rpcFakeNode) close() {
	n.client.Close()
	n.server.Stop()
}

func newRPCFakeNode(t interface{ Fatalf(string, ...interface{}) }, kind ethnode.NodeKind) *rpcFakeNode {
	n := &rpcFakeNode{kind: kind}
	n.server = rpc.NewServer()
	must := func(err error) {
		if err != nil {
			t.Fatalf("rpc register: %v", err)
		}
	}
	must(n.server.RegisterName("web3", &Web3Svc{n}))
	must(n.server.RegisterName("eth", &EthSvc{n}))
	must(n.server.RegisterName("net", &NetSvc{n}))
	must(n.server.RegisterName("admin", &AdminSvc{n}))
	must(n.server.RegisterName("parity", &ParitySvc{n}))
	n.client = rpc.DialInProc(n.server)
	node, err := ethnode.RemoteNode(n.client)
	if err != nil {
		t.Fatalf("ethnode.RemoteNode: %v", err)
	}
	n.node = node
	n.take()
	return n
}
