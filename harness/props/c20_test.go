package props

// C20 — an agent runs one keep-alive loop that can always be stopped and restarted.

import (
	"bufio"
	"context"
	"errors"
	"fmt"
	"os"
	"os/exec"
	"path/filepath"
	"strings"
	"sync"
	"testing"
	"testing/synctest"
	"time"

	"github.com/ethereum/go-ethereum/crypto"
	"github.com/vipnode/vipnode/v2/agent"
	"github.com/vipnode/vipnode/v2/ethnode"
	"github.com/vipnode/vipnode/v2/jsonrpc2"
	"github.com/vipnode/vipnode/v2/pool"
	"github.com/vipnode/vipnode/v2/pool/store"
	"pgregory.net/rapid"

	"verif/vt"
)

func c20Case(rt *rapid.T, rec *vt.Rec) {
	interval := time.Duration(0)
	effective := 60 * time.Second
	if rapid.IntRange(0, 4).Draw(rt, "intervalSet") > 0 {
		interval = time.Duration(rapid.Int64Range(int64(time.Second), int64(119*time.Second)).Draw(rt, "interval"))
		if rapid.Bool().Draw(rt, "roundInterval") {
			interval = interval.Truncate(time.Second)
		}
		effective = interval
	}
	node := &recNode{enode: "enode://" + hexID(99) + "@[::]:30303", ua: ethnode.UserAgent{Version: "v", Kind: ethnode.Geth, IsFullNode: true, Network: 1}}
	sp := &scriptPool{}
	a := &agent.Agent{EthNode: node, UpdateInterval: interval, NumHosts: 0}
	// scripted failures
	var mu sync.Mutex
	failConnect := false
	failUpdateAt := -1 // absolute update call number that fails (scriptPool counts from 1)
	failKind := rapid.IntRange(0, 3).Draw(rt, "keepAliveFailureKind")
	sp.onConnect = func(n int) error {
		mu.Lock()
		defer mu.Unlock()
		if failConnect {
			return errors.New("scripted connect failure")
		}
		return nil
	}
	// the pool may take a while to answer a keep-alive (a fraction of the interval): the period must not stretch
	latencyDiv := rapid.SampledFrom([]int{0, 0, 0, 4, 2}).Draw(rt, "poolLatencyDivisor")
	inFlight := 0
	sp.onUpdate = func(n int, req pool.UpdateRequest) (*pool.UpdateResponse, error) {
		mu.Lock()
		failNow := n == failUpdateAt
		lat := time.Duration(0)
		if latencyDiv > 0 {
			lat = effective/time.Duration(latencyDiv) - time.Millisecond
		}
		inFlight++
		mu.Unlock()
		if lat > 0 {
			time.Sleep(lat)
		}
		mu.Lock()
		inFlight--
		mu.Unlock()
		if failNow {
			// whatever the pool's reason - also "unregistered node" (a pool restarted on an empty store), in the form an
			// in-process pool returns it and in the form it has after crossing the RPC boundary - the loop ends with it
			mu.Lock()
			kind := failKind
			mu.Unlock()
			switch kind {
			case 1:
				return nil, fmt.Errorf("scripted keep-alive failure: %w", store.ErrUnregisteredNode)
			case 2:
				return nil, &jsonrpc2.ErrResponse{Code: jsonrpc2.ErrCodeInternal, Message: "scripted keep-alive failure: " + store.ErrUnregisteredNode.Error()}
			case 3:
				return nil, store.ErrUnregisteredNode
			}
			return nil, errors.New("scripted keep-alive failure")
		}
		return &pool.UpdateResponse{}, nil
	}
	// model
	running := false
	var loopStart time.Time
	loopUpdates := 0     // loop keep-alives seen since loopStart
	pendingWait := false // a value sits in the wait channel
	uncollected := 0     // runs that were stopped and whose outcome nobody has waited for yet
	var hist, kinds []string
	classes := map[string]bool{}
	logf := func(f string, x ...interface{}) {
		hist = append(hist, fmt.Sprintf("[t+%s] ", time.Since(bubbleEpoch()))+fmt.Sprintf(f, x...))
	}
	var early chan error // a Wait that was entered before the run it observes was started
	cleanup := func() {
		if early != nil {
			if !running {
				if err := a.Start(sp); err != nil {
					fmt.Printf("C20: cleanup start failed: %v\n", err)
				} else {
					running = true
				}
			}
			if running {
				a.Stop()
				running = false
				synctest.Wait()
				select {
				case <-early:
				default:
					// leave it to the leftover check below to report
				}
			}
			early = nil
			sp.take() // (the calls of this clean-up run are not part of the history)
		}
		for ; uncollected > 0; uncollected-- {
			a.Wait()
		}
		if running {
			a.Stop()
			running = false
			pendingWait = true
		}
		if pendingWait {
			a.Wait()
			pendingWait = false
		}
	}
	var fail func(f string, x ...interface{})
	// collect waits for the outcome of every run that ended by Stop and has not been waited for: each Wait returns nil
	collect := func(label string) {
		for uncollected > 0 {
			done := make(chan error, 1)
			go func() { done <- a.Wait() }()
			synctest.Wait()
			select {
			case err := <-done:
				if err != nil {
					fail("%s: Wait for a run that was stopped returned %v, want nil", label, err)
				}
			default:
				n := uncollected
				uncollected = 0
				fail("%s: %d run(s) were started and stopped and not yet waited for; Wait does not return for one of them", label, n)
			}
			uncollected--
		}
	}
	fail = func(f string, x ...interface{}) {
		msg := fmt.Sprintf(f, x...)
		full := fmt.Sprintf("%s\ninterval=%s (effective %s)\nhistory:\n  %s", msg, interval, effective, strings.Join(hist, "\n  "))
		// The message must survive even if loops are left behind (a bubble that cannot end reports a deadlock instead).
		fmt.Printf("C20 FAILURE DETAIL: %s\n", full)
		// stop every keep-alive loop that is still alive (there may be more than one when the property is broken)
		for i := 0; i < 8; i++ {
			synctest.Wait()
			loops := 0
			for _, st := range bubbleLeftovers() {
				if strings.Contains(st, "serveUpdates") {
					loops++
				}
			}
			if loops == 0 {
				break
			}
			a.Stop()
			go a.Wait()
		}
		rt.Fatalf("%s", full)
	}
	forced := map[time.Time]int{} // instants at which the harness itself sent keep-alives
	// account checks that the pool saw exactly the calls the model expects since the last accounting
	account := func(label string, wantConnects int, wantImmediate int) {
		calls := sp.take()
		connects, updates := 0, 0
		var loopTimes []time.Time
		for _, c := range calls {
			switch c.Method {
			case "connect":
				connects++
			case "update":
				updates++
				if forced[c.At] > 0 {
					forced[c.At]--
					continue
				}
				loopTimes = append(loopTimes, c.At)
			}
		}
		if connects != wantConnects {
			fail("%s: the pool saw %d connect requests, expected %d", label, connects, wantConnects)
		}
		// immediate updates (part of Start) come first
		if len(loopTimes) < wantImmediate {
			fail("%s: expected %d immediate keep-alive(s) from Start, saw %d", label, wantImmediate, len(loopTimes))
		}
		loopTimes = loopTimes[wantImmediate:]
		if !running && len(loopTimes) > 0 && !pendingWait {
			fail("%s: %d keep-alives were sent although no loop is running (at %v)", label, len(loopTimes), relTimes(loopTimes))
		}
		for _, at := range loopTimes {
			loopUpdates++
			want := loopStart.Add(time.Duration(loopUpdates) * effective)
			if !at.Equal(want) {
				fail("%s: loop keep-alive #%d was sent at t+%s, expected exactly t+%s (one every %s, one loop only)", label, loopUpdates, at.Sub(bubbleEpoch()), want.Sub(bubbleEpoch()), effective)
			}
		}
	}
	expectTicks := func(label string) {
		if !running {
			return
		}
		want := int(time.Since(loopStart) / effective)
		if loopUpdates != want {
			fail("%s: the loop has been running for %s with interval %s: %d keep-alives expected, %d sent", label, time.Since(loopStart), effective, want, loopUpdates)
		}
	}
	n := rapid.IntRange(3, 14).Draw(rt, "steps")
	for k := 0; k < n; k++ {
		op := rapid.SampledFrom([]string{"start", "start", "doubleStart", "stop", "advance", "advance", "advance", "force", "startFailConnect", "startFailUpdate", "failNextKeepalive", "reconfigure", "earlyWait", "stopLater", "collect", "stopDuringKeepalive"}).Draw(rt, "op")
		switch op {
		case "stopLater":
			// the owner stops the agent and looks at the outcome only later (possibly after starting it again)
			if !running || early != nil || uncollected >= 2 {
				continue
			}
			a.Stop()
			synctest.Wait()
			account("stop (outcome not collected yet)", 0, 0)
			expectTicks("stop (outcome not collected yet)")
			running = false
			uncollected++
			mu.Lock()
			failUpdateAt = -1
			mu.Unlock()
			logf("stop; nobody waits yet (%d outcome(s) uncollected)", uncollected)
			classes["stop-collect-later"] = true
			if uncollected == 2 {
				classes["two-outcomes-uncollected"] = true
			}
		case "collect":
			if uncollected == 0 {
				continue
			}
			n := uncollected
			collect("collect")
			logf("Wait x%d -> nil", n)
		case "stopDuringKeepalive":
			// Stop arrives while the loop is inside a keep-alive that the pool is slow to answer
			mu.Lock()
			scripted := failUpdateAt > 0
			mu.Unlock()
			if !running || latencyDiv == 0 || early != nil || scripted {
				continue
			}
			lat := effective/time.Duration(latencyDiv) - time.Millisecond
			next := loopStart.Add(time.Duration(loopUpdates+1) * effective)
			if d := time.Until(next); d > 0 {
				time.Sleep(d)
			}
			synctest.Wait()
			mu.Lock()
			busy := inFlight > 0
			mu.Unlock()
			if !busy {
				account("tick", 0, 0)
				continue
			}
			collect("before stop")
			stopDone := make(chan struct{})
			go func() { a.Stop(); close(stopDone) }()
			done := make(chan error, 1)
			go func() { done <- a.Wait() }()
			time.Sleep(lat + time.Millisecond)
			synctest.Wait()
			select {
			case <-stopDone:
			default:
				fail("Stop was called while a keep-alive was in flight (pool latency %s); the pool has answered, Stop still has not returned", lat)
			}
			select {
			case err := <-done:
				if err != nil {
					fail("Wait returned %v after Stop, want nil", err)
				}
			default:
				fail("Stop (called while a keep-alive was in flight, pool latency %s) has returned, but Wait does not: the loop was not stopped", lat)
			}
			account("stop during a keep-alive", 0, 0)
			expectTicks("stop during a keep-alive")
			running = false
			logf("stop while a keep-alive was in flight (pool latency %s); Wait returned nil", lat)
			classes["stop-during-keepalive"] = true
			if lat > 10*time.Second {
				classes["stop-during-keepalive:slower-than-10s"] = true
			}
		case "earlyWait":
			// somebody waits for the agent before it is (re)started: that Wait returns when the next run ends
			if running || pendingWait || early != nil || uncollected > 0 {
				continue
			}
			early = make(chan error, 1)
			ch := early
			go func() { ch <- a.Wait() }()
			synctest.Wait()
			select {
			case err := <-early:
				fail("Wait returned %v although no run has ended since the last Wait", err)
			default:
			}
			logf("a Wait is entered while the agent is not running")
			classes["early-wait"] = true
		case "reconfigure":
			// the owner changes the configured interval while the agent is not running (also before its first start): the next run uses the new value
			if running || pendingWait {
				continue
			}
			interval = 0
			effective = 60 * time.Second
			if rapid.IntRange(0, 4).Draw(rt, "newIntervalSet") > 0 {
				interval = time.Duration(rapid.Int64Range(int64(time.Second), int64(119*time.Second)).Draw(rt, "newInterval"))
				effective = interval
			}
			a.UpdateInterval = interval
			logf("the update interval is set to %s (effective %s) while the agent is not running", interval, effective)
			classes["reconfigure"] = true
		case "start", "startFailConnect", "startFailUpdate":
			if pendingWait {
				a.Wait()
				pendingWait = false
			}
			mu.Lock()
			failConnect = op == "startFailConnect"
			if op == "startFailUpdate" {
				failUpdateAt = sp.nUpdate + 1
			}
			mu.Unlock()
			wasRunning := running
			err := a.Start(sp)
			mu.Lock()
			failConnect = false
			if op == "startFailUpdate" {
				failUpdateAt = -1
			}
			mu.Unlock()
			logf("%s -> %v", op, err)
			switch {
			case wasRunning:
				if !errors.Is(err, agent.ErrAlreadyStarted) {
					fail("Start while the agent is running returned %v, want ErrAlreadyStarted", err)
				}
				account("start while running", 0, 0)
				classes["double-start"] = true
			case op == "startFailConnect":
				if err == nil {
					fail("Start succeeded although the pool refused the connect request")
				}
				account("failed start", 1, 0)
				classes["failed-start"] = true
			case op == "startFailUpdate":
				if err == nil {
					fail("Start succeeded although the first keep-alive failed")
				}
				// the failing update is not counted as a loop keep-alive
				calls := sp.take()
				c, u := 0, 0
				for _, x := range calls {
					if x.Method == "connect" {
						c++
					} else if x.Method == "update" {
						u++
					}
				}
				if c != 1 || u != 1 {
					fail("failed start: pool saw %d connects and %d keep-alives, want 1 and 1", c, u)
				}
				classes["failed-start"] = true
			default:
				if err != nil {
					fail("Start failed: %v", err)
				}
				if loopStart.IsZero() == false {
					classes["restart"] = true
				}
				running = true
				loopStart = time.Now()
				loopUpdates = 0
				account("start", 1, 1)
			}
		case "doubleStart":
			if running {
				continue
			}
			if pendingWait {
				a.Wait()
				pendingWait = false
			}
			var wg sync.WaitGroup
			errs := make([]error, 2)
			for i := 0; i < 2; i++ {
				wg.Add(1)
				go func() { defer wg.Done(); errs[i] = a.Start(sp) }()
			}
			wg.Wait()
			logf("two concurrent Starts -> %v / %v", errs[0], errs[1])
			okN, alreadyN := 0, 0
			for _, e := range errs {
				if e == nil {
					okN++
				} else if errors.Is(e, agent.ErrAlreadyStarted) {
					alreadyN++
				}
			}
			if okN != 1 || alreadyN != 1 {
				fail("two concurrent Starts: %d succeeded, %d were refused with ErrAlreadyStarted (want exactly one each)", okN, alreadyN)
			}
			if !loopStart.IsZero() {
				classes["restart"] = true
			}
			running = true
			loopStart = time.Now()
			loopUpdates = 0
			account("concurrent starts", 1, 1)
			classes["double-start"] = true
		case "stop":
			if !running {
				continue
			}
			done := make(chan error, 1)
			if early != nil {
				done, early = early, nil // the Wait entered before this run was started observes its end
			} else {
				go func() { done <- a.Wait() }()
			}
			a.Stop()
			synctest.Wait()
			select {
			case err := <-done:
				if err != nil {
					fail("Wait returned %v after Stop, want nil", err)
				}
			default:
				fail("Wait did not return after Stop")
			}
			account("stop", 0, 0)
			expectTicks("stop")
			running = false
			mu.Lock()
			failUpdateAt = -1 // a scripted failure that never happened does not carry over to the next run
			mu.Unlock()
			logf("stop; Wait returned nil")
			classes["stop"] = true
		case "advance":
			d := time.Duration(rapid.Int64Range(1, int64(5*time.Minute)).Draw(rt, "advance"))
			if rapid.IntRange(0, 2).Draw(rt, "advanceExact") == 0 {
				d = effective * time.Duration(rapid.IntRange(1, 3).Draw(rt, "multiples"))
			}
			time.Sleep(d)
			synctest.Wait()
			// let a keep-alive that the pool is still answering finish before looking at the result
			for i := 0; i < 100000; i++ {
				mu.Lock()
				busy := inFlight > 0
				mu.Unlock()
				if !busy {
					break
				}
				time.Sleep(time.Millisecond)
				synctest.Wait()
				d += time.Millisecond
			}
			logf("advance %s", d)
			account("advance", 0, 0)
			if running {
				mu.Lock()
				failedNow := failUpdateAt > 0 && sp.nUpdate >= failUpdateAt
				mu.Unlock()
				if failedNow {
					// the scripted keep-alive failure happened: the loop must have ended with that error
					collect("before the failed run's outcome")
					done := make(chan error, 1)
					go func() { done <- a.Wait() }()
					synctest.Wait()
					select {
					case err := <-done:
						if err == nil || !(strings.Contains(err.Error(), "scripted keep-alive failure") || strings.Contains(err.Error(), store.ErrUnregisteredNode.Error())) {
							fail("a keep-alive failed; Wait returned %v, want that error", err)
						}
					default:
						fail("a keep-alive failed but Wait does not return")
					}
					running = false
					mu.Lock()
					failUpdateAt = -1
					mu.Unlock()
					logf("keep-alive failed: loop ended, Wait returned the error")
					classes["keepalive-failed"] = true
				} else {
					expectTicks("advance")
				}
			}
		case "failNextKeepalive":
			if !running || early != nil {
				continue
			}
			mu.Lock()
			failUpdateAt = sp.nUpdate + 1
			mu.Unlock()
			logf("the next keep-alive will fail")
		case "force":
			at := time.Now()
			mu.Lock()
			willFail := failUpdateAt == sp.nUpdate+1
			mu.Unlock()
			if willFail {
				continue
			}
			forced[at]++
			if err := a.UpdatePeers(context.Background(), sp); err != nil {
				fail("forced update failed: %v", err)
			}
			logf("forced update")
			account("forced update", 0, 0)
			expectTicks("forced update")
		}
		kinds = append(kinds, op)
	}
	cleanup()
	time.Sleep(10 * time.Minute)
	synctest.Wait()
	account("after the end", 0, 0)
	if left := bubbleLeftovers(); len(left) > 0 {
		fail("goroutines are still alive after the agent was stopped:\n%s", strings.Join(left, "\n\n"))
	}
	nontrivial := classes["double-start"] || classes["failed-start"] || classes["restart"]
	var cl []string
	for c := range classes {
		cl = append(cl, c)
	}
	cl = sortedCopy(cl)
	rec.Case(fmt.Sprintf("%s|%s", effective, strings.Join(kinds, ",")), nontrivial, cl, func() interface{} {
		return map[string]interface{}{"update_interval": interval.String(), "effective_interval": effective.String(), "history": hist, "classes": cl}
	})
}

func relTimes(ts []time.Time) []string {
	r := make([]string, len(ts))
	for i, t := range ts {
		r[i] = "t+" + t.Sub(bubbleEpoch()).String()
	}
	return r
}

func TestC20AgentLifecycle(t *testing.T) {
	defer vt.Watch("TestC20AgentLifecycle", 120*time.Second)()
	rec := vt.For("C20")
	rec.Rule("real agent.Agent with a recording node and a scripted pool in virtual time; rules: start, two concurrent starts, start with failing connect, start with failing first keep-alive, stop (while running) with a concurrent Wait, advance (random and exact multiples of the interval), forced update, make the next loop keep-alive fail, change the configured interval while not running, enter Wait before the run it observes is started, keep-alives that take the pool up to half an interval to answer; interval in [1s,119s] or unset (60s); oracle (model): first start => one Connect + one immediate keep-alive; start while running => ErrAlreadyStarted and no pool call; of two concurrent starts exactly one succeeds; loop keep-alives arrive at exactly loopStart+k*interval and floor(T/interval) of them in any window (a second loop would double them); stop => Wait returns nil at the next quiescent point and nothing is sent afterwards; a failed start leaves nothing running; a failed keep-alive ends the loop and Wait returns that error; restart works; at the end no goroutine is alive; non-trivial = history with a double start, a failed start or a restart; distinct by interval + op sequence")
	check(t, func(rt *rapid.T) {
		rapid.SyncTest(rt, func(rt *rapid.T) { c20Case(rt, rec) })
	})
}

// TestC20CLI — the command line only accepts update intervals shorter than the pool's expiry window.
func TestC20CLI(t *testing.T) {
	rec := vt.For("C20")
	rec.Rule("CLI: the `vipnode agent` binary built from the working tree is started with generated --update-interval values around the 120s expiry window (and around 5s), a fake node and the in-memory pool; positive signals both ways: 'update interval too large' vs. reaching pool setup ('Using an in-memory vipnode pool'); oracle: d >= 120s refused, 5s < d < 120s accepted; distinct by value")
	bin, err := vipnodeBinary()
	if err != nil {
		t.Fatal(err)
	}
	defer os.Remove(bin)
	dir := tempDir("c20-cli-")
	defer removeAll(dir)
	id := nodeIdent(0)
	keyFile := filepath.Join(dir, "nodekey")
	if err := os.WriteFile(keyFile, []byte(fmt.Sprintf("%x", crypto.FromECDSA(id.key))), 0o600); err != nil {
		t.Fatal(err)
	}
	check(t, func(rt *rapid.T) {
		var d time.Duration
		switch rapid.IntRange(0, 3).Draw(rt, "class") {
		case 0:
			d = 120*time.Second + time.Duration(rapid.Int64Range(-2000, 2000).Draw(rt, "aroundMs"))*time.Millisecond
		case 1:
			d = time.Duration(rapid.Int64Range(int64(5*time.Second)+1, int64(120*time.Second)-1).Draw(rt, "inside"))
		case 2:
			d = time.Duration(rapid.Int64Range(int64(120*time.Second), int64(48*time.Hour)).Draw(rt, "above"))
		default:
			d = rapid.SampledFrom([]time.Duration{120 * time.Second, 120*time.Second - 1, 120*time.Second + 1, 2 * time.Minute, 119 * time.Second, 121 * time.Second, 10 * time.Minute, 6 * time.Second}).Draw(rt, "boundary")
		}
		arg := d.String()
		if rapid.Bool().Draw(rt, "asSeconds") && d%time.Millisecond == 0 {
			arg = fmt.Sprintf("%gs", d.Seconds())
		}
		cmd := exec.Command(bin, "agent", "-vv", "--rpc", "fakenode://"+id.nodeID, "--nodekey", keyFile, "--update-interval", arg, ":memory:")
		cmd.Env = append(os.Environ(), "HOME="+dir)
		pr, pw, _ := os.Pipe()
		cmd.Stdout, cmd.Stderr = pw, pw
		if err := cmd.Start(); err != nil {
			rt.Fatalf("start: %v", err)
		}
		pw.Close()
		verdict := ""
		var lines []string
		sc := bufio.NewScanner(pr)
		timer := time.AfterFunc(30*time.Second, func() { cmd.Process.Kill() })
		for sc.Scan() {
			l := sc.Text()
			lines = append(lines, l)
			if strings.Contains(l, "update interval too large") {
				verdict = "refused-too-large"
				break
			}
			if strings.Contains(l, "update interval too small") {
				verdict = "refused-too-small"
				break
			}
			if strings.Contains(l, "Using an in-memory vipnode pool") {
				verdict = "accepted"
				break
			}
		}
		timer.Stop()
		cmd.Process.Kill()
		cmd.Wait()
		pr.Close()
		if verdict == "" {
			rt.Fatalf("--update-interval %s: no verdict from the binary; output:\n%s", arg, strings.Join(lines, "\n"))
		}
		switch {
		case d >= 120*time.Second && verdict != "refused-too-large":
			rt.Fatalf("--update-interval %s (>= the 120s expiry window) was %s", arg, verdict)
		case d > 5*time.Second && d < 120*time.Second && verdict != "accepted":
			rt.Fatalf("--update-interval %s (shorter than the expiry window) was %s", arg, verdict)
		}
		rec.Case("cli|"+arg, true, []string{"cli", "cli:" + verdict}, func() interface{} {
			return map[string]interface{}{"kind": "CLI", "update_interval": arg, "verdict": verdict}
		})
	})
}
