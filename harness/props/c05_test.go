package props

// C05 — a signed request is honoured at most once; nonces only move forward.

import (
	"errors"
	"fmt"
	"math"
	"math/big"
	"strings"
	"sync"
	"testing"
	"time"

	"github.com/vipnode/vipnode/v2/pool"
	"github.com/vipnode/vipnode/v2/pool/store"
	"github.com/vipnode/vipnode/v2/pool/store/memory"
	"pgregory.net/rapid"

	so "verif/storeops"
	"verif/vt"
)

var c05Advances = []time.Duration{1, time.Second, time.Minute, 14 * time.Minute, 15*time.Minute - 1, 15 * time.Minute, 15*time.Minute + 1, 15*time.Minute + time.Second, 16 * time.Minute, 31 * time.Minute, 40 * time.Minute}

func TestC05NonceStore(t *testing.T) {
	defer vt.Watch("TestC05NonceStore", 120*time.Second)()
	rec := vt.For("C05")
	rec.Rule("store level, virtual time, drivers memory / badger in-memory / badger on disk with close+reopen: rules submit(id in {a,b,c}, now+delta) with delta from {-15min-1ns,-15min,-15min+1ns,-1s,0,+1ns,+1s,+20min,+2h} or a range, advance(d<=40min incl. the 15-minute boundary +-1ns/1s), reopen, race(id,nonce,k copies in parallel goroutines); model: accept <=> nonce > last accepted for that id and nonce > now-15min (equality don't-care); racing duplicates: at most one accepted, exactly one when the model accepts; non-trivial = a replay/stale rejection after >=1 acceptance; distinct by driver + (op, delta class, verdict) sequence")
	check(t, func(rt *rapid.T) {
		rapid.SyncTest(rt, func(rt *rapid.T) {
			driver := rapid.SampledFrom([]string{"memory", "badger", "badger", "badgerdisk"}).Draw(rt, "driver")
			if driver == "badgerdisk" && !vt.Thorough() && rapid.IntRange(0, 3).Draw(rt, "diskQuick") > 0 {
				driver = "badger"
			}
			var st store.Store
			dir := ""
			switch driver {
			case "memory":
				st = memory.New()
			case "badger":
				st = mustOpenBadger(rt, "")
			case "badgerdisk":
				dir = tempDir("c05-")
				defer removeAll(dir)
				st = mustOpenBadger(rt, dir)
			}
			defer func() { closeStore(st) }()
			model := so.NewModel()
			var hist, sigParts []string
			accepted, rejectedAfterAccept, boundary, reopened, raced := 0, 0, 0, 0, 0
			fail := func(f string, a ...interface{}) {
				rt.Fatalf("%s\ndriver=%s\nhistory:\n  %s", fmt.Sprintf(f, a...), driver, strings.Join(hist, "\n  "))
			}
			burstSeq := 0
			n := rapid.IntRange(4, 30).Draw(rt, "steps")
			for i := 0; i < n; i++ {
				switch op := rapid.SampledFrom([]string{"submit", "submit", "submit", "submit", "advance", "advance", "reopen", "race", "burst", "crowd"}).Draw(rt, "op"); op {
				case "burst":
					// a busy pool: many accepted requests of OTHER identities must not make the store forget anybody's nonce
					k := rapid.SampledFrom([]int{10, 70, 130, 300, 700}).Draw(rt, "burst")
					if driver == "badgerdisk" && k > 70 {
						k = 70
					}
					// by a handful of identities, or by as many identities as requests (a store that tidies up when it
					// holds many identities must not lose anybody's record); some of them with clocks far ahead
					manyIDs := rapid.Bool().Draw(rt, "burstManyIdentities")
					ahead := int64(rapid.SampledFrom([]time.Duration{0, 0, 20 * time.Minute, 2 * time.Hour}).Draw(rt, "burstClockAhead"))
					burstSeq++
					for j := 0; j < k; j++ {
						id := fmt.Sprintf("noise%d", j%7)
						if manyIDs {
							id = fmt.Sprintf("noise-%d-%d", burstSeq, j)
						}
						nonce := time.Now().UnixNano() + int64(j)
						if j%3 == 2 {
							nonce += ahead
						}
						verdict := model.NonceVerdict(id, nonce)
						err := st.CheckAndSaveNonce(id, nonce)
						if (err == nil) != (verdict == "accept") && verdict != "either" {
							fail("burst: CheckAndSaveNonce(%s, now+%d) -> %v, rule says %s", id, j, err, verdict)
						}
						if err == nil {
							model.CommitNonce(id, nonce)
						}
					}
					hist = append(hist, fmt.Sprintf("burst of %d accepted nonces by other identities (one identity per request: %v, every third clock ahead by %s)", k, manyIDs, time.Duration(ahead)))
					sigParts = append(sigParts, fmt.Sprintf("burst%d", k))
				case "submit":
					id := rapid.SampledFrom([]string{"a", "b", "c"}).Draw(rt, "id")
					var delta int64
					switch rapid.IntRange(0, 4).Draw(rt, "deltaClass") {
					case 4:
						// absolute values at the ends of the number range (the arithmetic around "too old" must not wrap)
						abs := rapid.SampledFrom([]int64{math.MinInt64, math.MinInt64 + 1, -8e18, -7.5e18, -4e18, -1, 0, 1, math.MaxInt64 - 1, math.MaxInt64}).Draw(rt, "absoluteNonce")
						delta = abs - time.Now().UnixNano() // (wraps; now+delta is abs again)
					case 0, 1:
						delta = int64(rapid.SampledFrom(nonceDeltas).Draw(rt, "delta"))
					case 2:
						delta = rapid.Int64Range(int64(-16*time.Minute), int64(3*time.Hour)).Draw(rt, "deltaRange")
					default:
						// relative to the last accepted nonce of this id: equal, just below, just above
						delta = rapid.SampledFrom([]int64{-1, 0, 1}).Draw(rt, "nearLast")
						if last, ok := modelLast(model, id); ok {
							delta = last + delta - time.Now().UnixNano()
						}
					}
					nonce := time.Now().UnixNano() + delta
					verdict := model.NonceVerdict(id, nonce)
					err := st.CheckAndSaveNonce(id, nonce)
					got := "accept"
					if err != nil {
						if err != store.ErrInvalidNonce {
							fail("CheckAndSaveNonce(%s, now%+d): unexpected error %v", id, delta, err)
						}
						got = "reject"
					}
					hist = append(hist, fmt.Sprintf("[t+%s] submit %s now%+dns -> %s (model: %s)", time.Since(bubbleEpoch()), id, delta, got, verdict))
					if verdict != "either" && got != verdict {
						fail("CheckAndSaveNonce(%s, now%+dns) -> %s, the nonce rule says %s", id, delta, got, verdict)
					}
					if verdict == "either" {
						boundary++
					}
					if got == "accept" {
						model.CommitNonce(id, nonce)
						accepted++
					} else if accepted > 0 {
						rejectedAfterAccept++
					}
					sigParts = append(sigParts, fmt.Sprintf("s%s%s%s", id, deltaClass(delta), got[:1]))
				case "advance":
					d := rapid.SampledFrom(c05Advances).Draw(rt, "advance")
					time.Sleep(d)
					hist = append(hist, fmt.Sprintf("advance %s", d))
					sigParts = append(sigParts, "adv"+d.String())
				case "reopen":
					if driver != "badgerdisk" {
						continue
					}
					if err := closeStore(st); err != nil {
						fail("close: %v", err)
					}
					st = mustOpenBadger(rt, dir)
					reopened++
					hist = append(hist, "close + reopen")
					sigParts = append(sigParts, "reopen")
				case "crowd":
					// many DIFFERENT identities submit at the same moment (free-running goroutines): each one's record
					// holds its own nonce afterwards - a replay of it, and anything lower, is refused - whoever else was
					// writing at the time ("nonces of one identity never affect another")
					k := rapid.SampledFrom([]int{2, 8, 24, 48}).Draw(rt, "crowd")
					burstSeq++
					base := time.Now().UnixNano()
					type sub struct {
						id    string
						nonce int64
						err   error
					}
					subs := make([]*sub, k)
					for j := range subs {
						// well separated values, neither ascending nor descending in j
						subs[j] = &sub{id: fmt.Sprintf("crowd%d-%d", burstSeq, j), nonce: base + int64((j*7919)%k)*int64(time.Second) + int64(j)}
					}
					var wg sync.WaitGroup
					start := make(chan struct{})
					for _, x := range subs {
						wg.Add(1)
						go func() {
							defer wg.Done()
							<-start
							x.err = st.CheckAndSaveNonce(x.id, x.nonce)
						}()
					}
					close(start)
					wg.Wait()
					for _, x := range subs {
						if x.err != nil {
							fail("crowd of %d identities: fresh first nonce of %s refused: %v", k, x.id, x.err)
						}
						model.CommitNonce(x.id, x.nonce)
						accepted++
					}
					for _, x := range subs {
						if err := st.CheckAndSaveNonce(x.id, x.nonce); err != store.ErrInvalidNonce {
							fail("crowd of %d identities submitting together: the replay of %s's accepted nonce got %v, want ErrInvalidNonce", k, x.id, err)
						}
						if err := st.CheckAndSaveNonce(x.id, x.nonce-int64(time.Millisecond)); err != store.ErrInvalidNonce {
							fail("crowd of %d identities submitting together: a nonce below %s's accepted one got %v, want ErrInvalidNonce", k, x.id, err)
						}
						rejectedAfterAccept++
					}
					hist = append(hist, fmt.Sprintf("crowd: %d identities submit together, then each replays", k))
					raced++
					sigParts = append(sigParts, fmt.Sprintf("crowd%d", k))
				case "race":
					id := rapid.SampledFrom([]string{"a", "b", "c"}).Draw(rt, "id")
					delta := int64(rapid.SampledFrom([]time.Duration{-time.Second, 0, 1, time.Second, time.Minute}).Draw(rt, "delta"))
					k := rapid.IntRange(2, 6).Draw(rt, "copies")
					nonce := time.Now().UnixNano() + delta
					verdict := model.NonceVerdict(id, nonce)
					var wg sync.WaitGroup
					var mu sync.Mutex
					ok := 0
					start := make(chan struct{})
					for j := 0; j < k; j++ {
						wg.Add(1)
						go func() {
							defer wg.Done()
							<-start
							err := st.CheckAndSaveNonce(id, nonce)
							mu.Lock()
							defer mu.Unlock()
							if err == nil {
								ok++
							} else if err != store.ErrInvalidNonce {
								ok = 1000 // reported below
								hist = append(hist, fmt.Sprintf("race error: %v", err))
							}
						}()
					}
					close(start)
					wg.Wait()
					hist = append(hist, fmt.Sprintf("race %d copies of (%s, now%+dns): %d accepted (model: %s)", k, id, delta, ok, verdict))
					if ok > 1 {
						fail("%d concurrent copies of the same (id, nonce): %d were accepted", k, ok)
					}
					if verdict == "accept" && ok != 1 {
						fail("%d concurrent copies of a fresh (id, nonce): %d accepted, want exactly 1", k, ok)
					}
					if verdict == "reject" && ok != 0 {
						fail("racing copies of a stale/used nonce: %d accepted", ok)
					}
					if ok == 1 {
						model.CommitNonce(id, nonce)
						accepted++
					}
					raced++
					sigParts = append(sigParts, fmt.Sprintf("race%d%s", k, verdict[:1]))
				}
			}
			rec.Case(driver+"|"+strings.Join(sigParts, ","), rejectedAfterAccept > 0, []string{"store:driver:" + driver, fmt.Sprintf("store:boundary:%v", boundary > 0), fmt.Sprintf("store:reopened:%v", reopened > 0), fmt.Sprintf("store:raced:%v", raced > 0)}, func() interface{} {
				return map[string]interface{}{"level": "store", "driver": driver, "history": hist}
			})
		})
	})
}

func modelLast(m *so.Model, id string) (int64, bool) {
	// probe: the largest nonce is not exported; find it through verdicts is overkill,
	// so the model exposes it.
	return m.LastNonce(id)
}

func deltaClass(d int64) string {
	switch {
	case d < int64(-15*time.Minute):
		return "stale"
	case d == int64(-15*time.Minute):
		return "edge"
	case d < 0:
		return "past"
	case d == 0:
		return "now"
	case d <= int64(time.Minute):
		return "soon"
	default:
		return "future"
	}
}

// ---------------------------------------------------------------------------
// pool level: captured requests replayed verbatim

func TestC05Replay(t *testing.T) {
	defer vt.Watch("TestC05Replay", 120*time.Second)()
	rec := vt.For("C05")
	rec.Rule("pool level, virtual time: a correctly signed vipnode_update / vipnode_peer / pool_withdraw / pool_addNode / vipnode_connect is captured (signature, id, nonce, params) and submitted again verbatim - immediately, after advance(d up to 40min), after close+reopen of the on-disk store, or as two copies racing - while the owner keeps sending newer requests; oracle: every copy after the first is refused with an invalid-nonce verification error and the full-state digest is unchanged (one charge, one payout); racing copies: exactly one honoured; non-trivial = every case (a replay after an acceptance); distinct by (driver, endpoint, replay mode, delay class)")
	check(t, func(rt *rapid.T) {
		rapid.SyncTest(rt, func(rt *rapid.T) {
			driver := rapid.SampledFrom([]string{"memory", "badger", "badgerdisk"}).Draw(rt, "driver")
			if driver == "badgerdisk" && !vt.Thorough() && rapid.IntRange(0, 2).Draw(rt, "diskQuick") > 0 {
				driver = "badger"
			}
			cfg := sessCfg{Driver: driver, Price: big.NewInt(1000), Interval: time.Minute, Deposits: true}
			// sometimes the nonce store fails while the first copy is being checked (fault injection through the store wrapper)
			storeFault := rapid.IntRange(0, 5).Draw(rt, "storeFault") == 0
			cfg.Yield = storeFault
			s := newSession(rt, cfg, 4)
			defer func() { s.close() }()
			host, client := 0, 1
			hc := s.openConn(host, "")
			if err := s.connect(host, hc, true, "geth", ""); err != nil {
				rt.Fatal(err)
			}
			cc := s.openConn(client, "")
			if err := s.connect(client, cc, false, "geth", ""); err != nil {
				rt.Fatal(err)
			}
			hostID := s.agents[host].id.nodeID
			w := walletIdent(0)
			if err := s.addNode(w, hostID); err != nil {
				rt.Fatal(err)
			}
			if _, err := s.update(client, []string{hostID}, 1, false, false); err != nil {
				rt.Fatal(err)
			}
			time.Sleep(time.Duration(rapid.Int64Range(int64(time.Second), int64(50*time.Second)).Draw(rt, "warmup")))
			if _, err := s.update(host, nil, 1, false, false); err != nil {
				rt.Fatal(err)
			}

			endpoint := rapid.SampledFrom([]string{"update", "updateLegacy", "peer", "withdraw", "addNode", "connect", "client"}).Draw(rt, "endpoint")
			mode := rapid.SampledFrom([]string{"immediately", "later", "later", "race", "reopen"}).Draw(rt, "mode")
			if mode == "reopen" && driver != "badgerdisk" {
				mode = "later"
			}
			if storeFault {
				mode = "storefault"
			}
			if endpoint == "withdraw" && !storeFault && rapid.IntRange(0, 2).Draw(rt, "settleFault") == 0 {
				mode = "settlefault"
			}
			who := s.agents[client].id
			var submit func() error
			var submitRespelled func(how string) error
			switch endpoint {
			case "update":
				req := pool.UpdateRequest{PeerInfo: peerInfos([]string{hostID}, false), BlockNumber: 7}
				n := s.nonce(who.nodeID)
				sig := mustSign(who.key, "vipnode_update", who.nodeID, n, req)
				submit = func() error { _, err := s.pool.Update(rpcCtx(), sig, who.nodeID, n, req); return err }
				submitRespelled = func(how string) error {
					_, err := s.pool.Update(rpcCtx(), sig, respell(who.nodeID, how), n, req)
					return err
				}
			case "updateLegacy":
				// an old agent signs only {peers, block_number}
				req := pool.UpdateRequest{Peers: []string{hostID}, BlockNumber: 7}
				n := s.nonce(who.nodeID)
				sig := mustSign(who.key, "vipnode_update", who.nodeID, n, legacyUpdate{req.Peers, req.BlockNumber})
				submit = func() error { _, err := s.pool.Update(rpcCtx(), sig, who.nodeID, n, req); return err }
			case "client":
				req := pool.ClientRequest{Kind: "geth", NumHosts: 1}
				n := s.nonce(who.nodeID)
				sig := mustSign(who.key, "vipnode_client", who.nodeID, n, req)
				submit = func() error {
					_, err := s.pool.Client(rpcCtx(), sig, who.nodeID, n, req)
					if err != nil && classifyErr(err).Kind == "nohosts" {
						return nil
					}
					return err
				}
			case "peer":
				req := pool.PeerRequest{Num: 1}
				n := s.nonce(who.nodeID)
				sig := mustSign(who.key, "vipnode_peer", who.nodeID, n, req)
				submit = func() error {
					_, err := s.pool.Peer(rpcCtx(), sig, who.nodeID, n, req)
					if err != nil && classifyErr(err).Kind == "nohosts" {
						return nil
					}
					return err
				}
			case "connect":
				req := s.connectReq(false, "geth", "")
				n := s.nonce(who.nodeID)
				sig := mustSign(who.key, "vipnode_connect", who.nodeID, n, req)
				submit = func() error { _, err := s.pool.Connect(rpcCtx(), sig, who.nodeID, n, req); return err }
				submitRespelled = func(how string) error {
					_, err := s.pool.Connect(rpcCtx(), sig, respell(who.nodeID, how), n, req)
					return err
				}
			case "withdraw":
				n := s.nonce(w.addr)
				sig := mustSign(w.key, "pool_withdraw", w.addr, n)
				submit = func() error { return s.pay.Withdraw(rpcCtx(), sig, w.addr, n) }
				submitRespelled = func(how string) error { return s.pay.Withdraw(rpcCtx(), sig, respell(w.addr, how), n) }
			case "addNode":
				n := s.nonce(w.addr)
				target := s.agents[client].id.nodeID
				sig := mustSign(w.key, "pool_addNode", w.addr, n, target)
				submit = func() error { return s.pay.AddNode(rpcCtx(), sig, w.addr, n, target) }
				submitRespelled = func(how string) error { return s.pay.AddNode(rpcCtx(), sig, respell(w.addr, how), n, target) }
			}
			delayClass := "0"
			if mode == "storefault" {
				// the store cannot record the nonce while the first copy is checked; afterwards it works again and the
				// same captured request arrives twice more: whatever the pool does with a copy it cannot check, the
				// request must not be carried out more than once in total
				s.ys.setHook(func(method string) error {
					if method == "CheckAndSaveNonce" {
						return errors.New("injected nonce store fault")
					}
					return nil
				})
				e1 := submit()
				s.ys.setHook(nil)
				e2 := submit()
				before := s.digest()
				e3 := submit()
				after := s.digest()
				honoured := 0
				for _, e := range []error{e1, e2, e3} {
					if e == nil {
						honoured++
					}
				}
				if honoured > 1 {
					rt.Fatalf("one signed %s submitted three times (the nonce store failing during the first) was honoured %d times: during the fault err=%v, afterwards err=%v, again err=%v", endpoint, honoured, e1, e2, e3)
				}
				if classifyErr(e3).Kind != "verify" {
					rt.Fatalf("third copy of %s after a store fault during the first was not refused as a replay: %v (first: %v, second: %v)", endpoint, e3, e1, e2)
				}
				if before != after {
					rt.Fatalf("replayed %s after a store fault changed the pool state:\n%s", endpoint, diffDigest(before, after))
				}
				rec.Case(fmt.Sprintf("replay|%s|%s|storefault|%v", driver, endpoint, e1 == nil), true, []string{"replay:" + endpoint, "replay:mode:storefault", "replay:driver:" + driver}, func() interface{} {
					return map[string]interface{}{"level": "pool", "driver": driver, "endpoint": endpoint, "mode": "storefault", "during_fault": fmt.Sprint(e1), "after_fault": fmt.Sprint(e2), "again": fmt.Sprint(e3)}
				})
				return
			}
			if mode == "settlefault" {
				// The settlement fails while the first copy is carried out (nothing is paid). The very same signed
				// request then arrives up to four more times, the wallet earning new credit in between: whatever the
				// pool makes of a request whose settlement failed, ONE signed request pays at most once.
				s.mu.Lock()
				s.settleHook = func(account store.Account, amount *big.Int) error { return errors.New("injected settlement failure") }
				s.mu.Unlock()
				e1 := submit()
				s.mu.Lock()
				s.settleHook = nil
				s.mu.Unlock()
				paid := func() int {
					s.mu.Lock()
					defer s.mu.Unlock()
					n := 0
					for _, c := range s.settleLog {
						if c.OK {
							n++
						}
					}
					return n
				}
				if paid() != 0 {
					rt.Fatalf("a withdrawal whose settlement failed is logged as paid (err=%v)", e1)
				}
				var errsAfter []string
				copies := rapid.IntRange(2, 4).Draw(rt, "copiesAfterSettleFault")
				for k := 0; k < copies; k++ {
					if rapid.Bool().Draw(rt, "accrueBetweenCopies") {
						s.raw.AddAccountBalance(store.Account(w.addr), big.NewInt(int64(7000+k)))
						time.Sleep(time.Second)
					}
					errsAfter = append(errsAfter, fmt.Sprint(submit()))
					if n := paid(); n > 1 {
						rt.Fatalf("one signed pool_withdraw (its first settlement failed: %v) was paid %d times; errors of the later copies: %v", e1, n, errsAfter)
					}
				}
				// and the owner's NEXT withdrawal (a new nonce) is not affected by what happened to the old one
				if err := s.withdraw(w); classifyErr(err).Kind == "verify" {
					rt.Fatalf("the owner's next withdrawal after a failed settlement is refused by verification: %v", err)
				}
				rec.Case(fmt.Sprintf("replay|%s|withdraw|settlefault|%d|%v", driver, copies, e1 == nil), true, []string{"replay:withdraw", "replay:mode:settlefault", "replay:driver:" + driver}, func() interface{} {
					return map[string]interface{}{"level": "pool", "driver": driver, "endpoint": "withdraw", "mode": "settlefault", "first": fmt.Sprint(e1), "later_copies": errsAfter}
				})
				return
			}
			if mode == "race" {
				var wg sync.WaitGroup
				errs := make([]error, 2)
				start := make(chan struct{})
				for k := 0; k < 2; k++ {
					wg.Add(1)
					go func() {
						defer wg.Done()
						<-start
						errs[k] = submit()
					}()
				}
				close(start)
				wg.Wait()
				okN, verifyN := 0, 0
				for _, e := range errs {
					switch classifyErr(e).Kind {
					case "":
						okN++
					case "verify":
						verifyN++
					default:
						rt.Fatalf("racing %s: unexpected error %v", endpoint, e)
					}
				}
				if okN != 1 || verifyN != 1 {
					rt.Fatalf("two racing copies of one signed %s: %d honoured, %d refused (want exactly one each): %v", endpoint, okN, verifyN, errs)
				}
			} else {
				if err := submit(); err != nil {
					rt.Fatalf("original %s refused: %v", endpoint, err)
				}
			}
			// the owner keeps going with newer requests (sometimes)
			if rapid.Bool().Draw(rt, "ownerContinues") {
				time.Sleep(time.Second)
				if _, err := s.update(client, []string{hostID}, 8, false, false); err != nil {
					rt.Fatalf("owner's next keep-alive: %v", err)
				}
			}
			switch mode {
			case "later", "reopen":
				d := rapid.SampledFrom(c05Advances).Draw(rt, "delay")
				time.Sleep(d)
				delayClass = d.String()
			}
			if mode == "reopen" {
				s.reopen(rt)
			}
			before := s.digest()
			err := submit()
			after := s.digest()
			// the same captured request with the identity spelled in another hex case is a replay too
			if submitRespelled != nil && before == after && classifyErr(err).Kind == "verify" {
				for _, how := range []string{"lower", "upper", "mixed", "prefix"} {
					if (how == "lower" || how == "upper" || how == "mixed") && respell(who.nodeID, how) == who.nodeID && respell(w.addr, how) == w.addr {
						continue
					}
					if e2 := submitRespelled(how); classifyErr(e2).Kind != "verify" {
						rt.Fatalf("captured %s re-submitted with the identity in %s-case hex was honoured again: err=%v", endpoint, how, e2)
					}
				}
				if after2 := s.digest(); after2 != before {
					rt.Fatalf("re-spelled replay of %s changed the pool state:\n%s", endpoint, diffDigest(before, after2))
				}
			}
			// (a replayed legacy-form update is reported with the error of the first, new-form attempt: "bad signature")
			if classifyErr(err).Kind != "verify" || (endpoint != "updateLegacy" && !strings.Contains(err.Error(), "invalid nonce")) {
				rt.Fatalf("replayed %s (%s, delay %s) was not refused as a replay: err=%v", endpoint, mode, delayClass, err)
			}
			if before != after {
				rt.Fatalf("replayed %s (%s, delay %s) changed the pool state:\n%s", endpoint, mode, delayClass, diffDigest(before, after))
			}
			rec.Case(fmt.Sprintf("replay|%s|%s|%s|%s", driver, endpoint, mode, delayClass), true, []string{"replay:" + endpoint, "replay:mode:" + mode, "replay:driver:" + driver}, func() interface{} {
				return map[string]interface{}{"level": "pool", "driver": driver, "endpoint": endpoint, "mode": mode, "delay": delayClass, "refusal": err.Error()}
			})
		})
	})
}
