package props

// C10 — concurrent requests are race-free, serialisable, and see immutable snapshots.

import (
	"context"
	"encoding/json"
	"fmt"
	"math/big"
	"os"
	"sort"
	"strings"
	"sync"
	"sync/atomic"
	"testing"
	"time"

	"github.com/vipnode/vipnode/v2/ethnode"
	"github.com/vipnode/vipnode/v2/pool"
	"github.com/vipnode/vipnode/v2/pool/store"
	"github.com/vipnode/vipnode/v2/pool/store/memory"
	"pgregory.net/rapid"

	so "verif/storeops"
	"verif/vt"
)

func TestC10Concurrent(t *testing.T) {
	defer vt.Watch("TestC10Concurrent", 120*time.Second)()
	rec := vt.For("C10")
	rec.Rule("race detector + lost-update check (statistical): 1-3 hosts and 2-6 clients on badger/memory, requests sent over in-process connections and as direct calls; every round all agents send keep-alives, clients also send peer requests and wallets link nodes, all at the same virtual instant from separate goroutines under -race; any race report fails; at quiescence all balances must equal the one-at-a-time model; non-trivial = >=2 concurrent clients; distinct by config")
	check(t, func(rt *rapid.T) {
		rapid.SyncTest(rt, func(rt *rapid.T) { concCase(rt, "C10", rec) })
	})
}

// ---------------------------------------------------------------------------
// serialisability under the owned scheduler

type serOp struct {
	Kind  string // update, hostUpdate, link, withdraw, peer, connect, reconnectHost
	Agent int
	Name  string
}

type serWorld struct {
	s      *session
	t0     time.Time
	rel    so.TimeCanon
	hostID string
}

// buildSerWorld prepares the same starting state every time (relative to its own t0).
func buildSerWorld(rt *rapid.T, cfg sessCfg, pre []string) *serWorld {
	s := newSession(rt, cfg, 5)
	w := &serWorld{s: s, t0: time.Now()}
	w.rel = func(t time.Time) string {
		if t.IsZero() {
			return "zero"
		}
		return t.Sub(w.t0).String()
	}
	// agents: 0,1 hosts; 2,3 clients; 4 late client
	for i := 0; i < 4; i++ {
		if err := s.connect(i, s.openConn(i, ""), i < 2, "geth", ""); err != nil {
			rt.Fatalf("setup connect: %v", err)
		}
	}
	h0, h1 := s.agents[0].id.nodeID, s.agents[1].id.nodeID
	for _, c := range []int{2, 3} {
		if _, err := s.update(c, []string{h0, h1}, 1, false, false); err != nil && !(cfg.Min != nil && classifyErr(err).Kind == "lowbalance") {
			rt.Fatalf("setup update: %v", err)
		}
		// the clients' billing periods differ, so their per-peer charges differ
		time.Sleep(7 * time.Second)
	}
	for _, p := range pre {
		switch p {
		case "linkH0":
			if err := s.addNode(walletIdent(0), h0); err != nil {
				rt.Fatal(err)
			}
		case "linkC2":
			if err := s.addNode(walletIdent(0), s.agents[2].id.nodeID); err != nil {
				rt.Fatal(err)
			}
		case "credit":
			s.raw.AddNodeBalance(store.NodeID(h0), big.NewInt(5000))
		case "deposit":
			if s.proxy != nil {
				s.proxy.setDeposit(store.Account(walletIdent(0).addr), big.NewInt(700))
			}
		}
	}
	time.Sleep(45 * time.Second)
	return w
}

func (w *serWorld) digestRel() string {
	s := w.s
	var nodes []string
	for _, a := range s.agents {
		nodes = append(nodes, a.id.nodeID)
	}
	accts := []string{walletIdent(0).addr, walletIdent(1).addr}
	lines := so.Observe(s.raw, nodes, accts, w.rel, true)
	lines = append(lines, fmt.Sprintf("NumRemotes=%d", s.pool.NumRemotes()))
	var calls []string
	for _, a := range s.agents {
		for _, ac := range a.conns {
			for _, c := range ac.svc.Calls() {
				calls = append(calls, fmt.Sprintf("hostcall %s %s(%s)", a.id.name, c.Method, nodeName(c.Arg)))
			}
		}
	}
	sort.Strings(calls)
	lines = append(lines, calls...)
	s.mu.Lock()
	var st []string
	for _, sc := range s.settleLog {
		st = append(st, fmt.Sprintf("settle %s %s ok=%v", nodeName(sc.Account), sc.Amount, sc.OK))
	}
	s.mu.Unlock()
	sort.Strings(st)
	lines = append(lines, st...)
	if s.proxy != nil {
		for _, a := range accts {
			lines = append(lines, fmt.Sprintf("deposit %s=%s", nodeName(a), s.proxy.deposit(store.Account(a))))
		}
	}
	return strings.Join(lines, "\n")
}

// prepared request: signed up-front so that nonces do not depend on the schedule.
type serPrepared struct {
	op  serOp
	run func() string // executes and returns the canonical reply
}

func (w *serWorld) prepare(op serOp) serPrepared {
	s := w.s
	h0, h1 := s.agents[0].id.nodeID, s.agents[1].id.nodeID
	canonUpdate := func(resp *pool.UpdateResponse, err error) string {
		if err != nil {
			return "err:" + classifyErr(err).Kind + ":" + err.Error()
		}
		return fmt.Sprintf("ok invalid=%v active=%d", namesSorted(resp.InvalidPeers), len(resp.ActivePeers))
	}
	a := s.agents[op.Agent].id
	switch op.Kind {
	case "update":
		req := pool.UpdateRequest{PeerInfo: peerInfos([]string{h0, h1}, false), BlockNumber: 9}
		n := s.nonce(a.nodeID)
		sig := mustSign(a.key, "vipnode_update", a.nodeID, n, req)
		return serPrepared{op, func() string { return canonUpdate(s.pool.Update(rpcCtx(), sig, a.nodeID, n, req)) }}
	case "hostUpdate":
		req := pool.UpdateRequest{PeerInfo: peerInfos([]string{s.agents[2].id.nodeID}, false), BlockNumber: 11}
		n := s.nonce(a.nodeID)
		sig := mustSign(a.key, "vipnode_update", a.nodeID, n, req)
		return serPrepared{op, func() string { return canonUpdate(s.pool.Update(rpcCtx(), sig, a.nodeID, n, req)) }}
	case "peer":
		req := pool.PeerRequest{Num: 2}
		n := s.nonce(a.nodeID)
		sig := mustSign(a.key, "vipnode_peer", a.nodeID, n, req)
		return serPrepared{op, func() string {
			resp, err := s.pool.Peer(rpcCtx(), sig, a.nodeID, n, req)
			if err != nil {
				return "err:" + classifyErr(err).Kind
			}
			var ids []string
			for _, p := range resp.Peers {
				ids = append(ids, string(p.ID))
			}
			return fmt.Sprintf("ok %v", namesSorted(ids))
		}}
	case "connect":
		req := s.connectReq(false, "geth", "")
		n := s.nonce(a.nodeID)
		sig := mustSign(a.key, "vipnode_connect", a.nodeID, n, req)
		return serPrepared{op, func() string {
			_, err := s.pool.Connect(rpcCtx(), sig, a.nodeID, n, req)
			return fmt.Sprint("connect:", err)
		}}
	case "link":
		w0 := walletIdent(0)
		n := s.nonce(w0.addr)
		target := a.nodeID
		sig := mustSign(w0.key, "pool_addNode", w0.addr, n, target)
		return serPrepared{op, func() string { return fmt.Sprint("addNode:", s.pay.AddNode(rpcCtx(), sig, w0.addr, n, target)) }}
	case "withdraw":
		w0 := walletIdent(0)
		n := s.nonce(w0.addr)
		sig := mustSign(w0.key, "pool_withdraw", w0.addr, n)
		return serPrepared{op, func() string { return fmt.Sprint("withdraw:", s.pay.Withdraw(rpcCtx(), sig, w0.addr, n)) }}
	}
	panic("unknown op " + op.Kind)
}

func namesSorted(ids []string) []string {
	r := names(ids)
	sort.Strings(r)
	return r
}

func permutations(n int) [][]int {
	if n == 1 {
		return [][]int{{0}}
	}
	var out [][]int
	for _, p := range permutations(n - 1) {
		for pos := 0; pos <= len(p); pos++ {
			q := append(append(append([]int{}, p[:pos]...), n-1), p[pos:]...)
			out = append(out, q)
		}
	}
	return out
}

func c10SerCase(rt *rapid.T, rec *vt.Rec) {
	cfg := sessCfg{Driver: rapid.SampledFrom([]string{"memory", "memory", "badger"}).Draw(rt, "driver"), Price: big.NewInt(int64(rapid.SampledFrom([]int{1, 1000, 777777}).Draw(rt, "price"))), Interval: time.Minute, Yield: true}
	cfg.Deposits = rapid.Bool().Draw(rt, "deposits")
	// No minimum balance here: a keep-alive's billing is several store operations, so a second client of
	// the SAME wallet can read (and be cut off on) a balance between them. C10 speaks of resulting balances,
	// peer sets and nonce decisions; transient balances shown in replies are outside it (DESIGN.md §7).
	var pre []string
	for _, p := range []string{"linkH0", "linkC2", "credit", "deposit"} {
		if rapid.Bool().Draw(rt, "pre:"+p) {
			pre = append(pre, p)
		}
	}
	// operations of DIFFERENT identities (an agent or a wallet is sequential by construction)
	pool_ := []serOp{
		{"update", 2, "keepalive(c2)"}, {"update", 3, "keepalive(c3)"}, {"hostUpdate", 0, "keepalive(h0)"}, {"hostUpdate", 1, "keepalive(h1)"},
		{"peer", 3, "peer(c3)"}, {"connect", 4, "connect(c4)"},
	}
	walletOp := rapid.SampledFrom([]serOp{{"link", 0, "link(h0->w0)"}, {"link", 2, "link(c2->w0)"}, {"link", 3, "link(c3->w0)"}, {"withdraw", 0, "withdraw(w0)"}, {}}).Draw(rt, "walletOp")
	k := rapid.IntRange(2, 3).Draw(rt, "k")
	var ops []serOp
	used := map[int]bool{}
	if walletOp.Kind == "withdraw" && rapid.IntRange(0, 3).Draw(rt, "orderMatters") > 0 {
		// make the order matter: the wallet earns through h0 while it is being withdrawn
		has := func(x string) bool {
			for _, p := range pre {
				if p == x {
					return true
				}
			}
			return false
		}
		if !has("linkH0") {
			pre = append(pre, "linkH0")
		}
		if !has("credit") {
			pre = append(pre, "credit")
		}
		c := rapid.SampledFrom([]serOp{{"update", 2, "keepalive(c2)"}, {"update", 3, "keepalive(c3)"}}).Draw(rt, "billingOp")
		used[c.Agent] = true
		defer func() {}()
		ops = append(ops, c)
	}
	if walletOp.Kind != "" {
		ops = append(ops, walletOp)
		// the same wallet may also send a second request at the same time (two sessions of one owner);
		// nonces are drawn in this order, so "second before first" legitimately refuses the first
		// (only withdraw+withdraw: a signed request's nonce check and its execution are separate steps, so two
		// DIFFERENT requests of one identity in flight together - link racing withdraw - can both be accepted in an
		// order no serial execution produces; one identity is sequential by construction, as every real agent is.
		// Racing withdrawals are the exception C07 names explicitly.)
		if walletOp.Kind == "withdraw" && rapid.IntRange(0, 1).Draw(rt, "secondWithdraw") == 0 {
			ops = append(ops, serOp{"withdraw", 0, "withdraw#2(w0)"})
		}
	}
	for len(ops) < k {
		o := rapid.SampledFrom(pool_).Draw(rt, "op")
		if used[o.Agent] {
			continue
		}
		used[o.Agent] = true
		ops = append(ops, o)
	}
	// the known finding's input class is excluded by construction (and counted) while it is listed
	if serKnownClass(pre, ops) && vt.Known("C10", "billing-not-atomic-shared-wallet") && c10KnownStillPresent(rt) {
		rec.Excluded("billing-not-atomic-shared-wallet", 1)
		return
	}
	var opNames []string
	for _, o := range ops {
		opNames = append(opNames, o.Name)
	}
	res := runSer(rt, cfg, pre, ops, nil)
	if res.matched == "" {
		rt.Fatalf("%s", res.report)
	}
	trace, got, serialN := res.trace, res.got, res.distinctSerial
	matched := res.matched
	interleaved := false
	for i := 1; i < len(trace); i++ {
		if strings.Split(trace[i], "@")[0] != strings.Split(trace[i-1], "@")[0] && i < len(trace)-1 {
			interleaved = true
		}
	}
	rec.Case(fmt.Sprintf("ser|%s|%v|%v|%v", cfg.String(), pre, opNames, trace), interleaved, []string{"ser", fmt.Sprintf("ser:order-matters:%v", serialN > 1), "ser:driver:" + cfg.Driver}, func() interface{} {
		return map[string]interface{}{"kind": "serialisability under owned scheduler", "config": cfg.String(), "pre": pre, "ops": opNames, "schedule": trace, "replies": got.replies, "equivalent_serial_order": matched, "distinct_serial_outcomes": serialN}
	})
}

type serOutcome struct {
	replies []string
	digest  string
}

type serResult struct {
	matched        string
	report         string
	trace          []string
	got            serOutcome
	distinctSerial int
}

// runSer runs ops once under the scheduler (rapid-drawn schedule, or the given
// policy) and once per permutation serially, and looks for an equivalent serial order.
func runSer(rt *rapid.T, cfg sessCfg, pre []string, ops []serOp, policy func(parked []*parkedTask) int) serResult {
	var opNames []string
	for _, o := range ops {
		opNames = append(opNames, o.Name)
	}
	serial := map[string]serOutcome{}
	for _, perm := range permutations(len(ops)) {
		w := buildSerWorld(rt, cfg, pre)
		var prep []serPrepared
		for _, o := range ops {
			prep = append(prep, w.prepare(o))
		}
		replies := make([]string, len(ops))
		for _, idx := range perm {
			replies[idx] = prep[idx].run()
		}
		serial[fmt.Sprint(perm)] = serOutcome{replies, w.digestRel()}
		w.s.close()
	}
	w := buildSerWorld(rt, cfg, pre)
	defer w.s.close()
	var prep []serPrepared
	for _, o := range ops {
		prep = append(prep, w.prepare(o))
	}
	replies := make([]string, len(ops))
	var fns []func()
	for i := range prep {
		i := i
		fns = append(fns, func() { replies[i] = prep[i].run() })
	}
	sc := newSched()
	w.s.ys.sc = sc
	var trace []string
	if policy != nil {
		trace = sc.runWith(policy, opNames, fns)
	} else {
		trace = sc.run(rt, opNames, fns)
	}
	w.s.ys.sc = nil
	got := serOutcome{replies, w.digestRel()}
	res := serResult{trace: trace, got: got}
	distinct := map[string]bool{}
	for perm, o := range serial {
		distinct[o.digest+strings.Join(o.replies, "|")] = true
		if res.matched == "" && o.digest == got.digest && strings.Join(o.replies, "\x00") == strings.Join(got.replies, "\x00") {
			res.matched = perm
		}
	}
	res.distinctSerial = len(distinct)
	if res.matched == "" {
		var sb strings.Builder
		for perm, o := range serial {
			fmt.Fprintf(&sb, "\n--- serial order %s: replies %q\n    state differences to the concurrent run:\n%s", perm, o.replies, indent(diffDigest(o.digest, got.digest)))
		}
		res.report = fmt.Sprintf("concurrent execution of %v is not equivalent to any one-at-a-time order\nconfig: %s pre=%v\nschedule: %v\nconcurrent replies: %q%s", opNames, cfg, pre, trace, got.replies, sb.String())
	}
	return res
}

// serKnownClass: a withdrawal of wallet w0 racing a keep-alive whose client AND one of its billed peers are both
// on w0 (billing = debit client + credit peers as separate store calls; the withdrawal can read in between).
func serKnownClass(pre []string, ops []serOp) bool {
	has := func(xs []string, x string) bool {
		for _, y := range xs {
			if y == x {
				return true
			}
		}
		return false
	}
	withdraw, keepC2 := false, false
	for _, o := range ops {
		if o.Kind == "withdraw" {
			withdraw = true
		}
		if o.Kind == "update" && o.Agent == 2 {
			keepC2 = true
		}
	}
	return withdraw && keepC2 && has(pre, "linkH0") && has(pre, "linkC2")
}

var c10KnownChecked, c10KnownPresent bool

// c10KnownStillPresent replays the fixed regression schedule of the known finding once per process.
func c10KnownStillPresent(rt *rapid.T) bool {
	if c10KnownChecked {
		return c10KnownPresent
	}
	c10KnownChecked = true
	cfg := sessCfg{Driver: "memory", Price: big.NewInt(1000), Interval: time.Minute, Yield: true}
	ops := []serOp{{"withdraw", 0, "withdraw(w0)"}, {"update", 2, "keepalive(c2)"}}
	// schedule: keep-alive runs until it has debited the client (parked at its 2nd AddNodeBalance), then the withdrawal runs to the end
	policy := func(parked []*parkedTask) int {
		var wi, ki = -1, -1
		for i, p := range parked {
			if p.task == 0 {
				wi = i
			} else {
				ki = i
			}
		}
		if ki >= 0 && wi >= 0 {
			if c10KnownDebited {
				return wi
			}
			if parked[ki].label == "AddNodeBalance" {
				c10KnownAdds++
				if c10KnownAdds == 2 {
					c10KnownDebited = true
					return wi
				}
			}
			return ki
		}
		return 0
	}
	c10KnownAdds, c10KnownDebited = 0, false
	res := runSer(rt, cfg, []string{"linkH0", "linkC2", "credit"}, ops, policy)
	c10KnownPresent = res.matched == ""
	if c10KnownPresent {
		vt.ReportKnown("C10", "billing-not-atomic-shared-wallet")
	}
	return c10KnownPresent
}

var c10KnownAdds int
var c10KnownDebited bool

func indent(s string) string {
	if s == "" {
		return "      (none)"
	}
	return "      " + strings.ReplaceAll(s, "\n", "\n      ")
}

func TestC10Serialisable(t *testing.T) {
	defer vt.Watch("TestC10Serialisable", 120*time.Second)()
	rec := vt.For("C10")
	rec.Rule("serialisability (harness-owned scheduler, store-call granularity): 2-3 operations of different identities drawn from {keep-alive of a client, keep-alive of its host, peer request, connect of a new client, link a node to a wallet, withdrawal} start from an identical prepared pool (hosts, billed clients, optional wallet link/credit/deposit/minimum) and are interleaved at every store call and settle call by rapid draws; oracle: replies (nonce decisions, errors, invalid/active peer sets, returned hosts; the balance figure printed in a keep-alive reply is not compared) + full final state incl. every balance (relative timestamps) must equal those of SOME permutation executed one at a time on a fresh identical pool (all <=3! permutations run); non-trivial = the schedule actually interleaves two operations; distinct by config + ops + schedule")
	check(t, func(rt *rapid.T) {
		rapid.SyncTest(rt, func(rt *rapid.T) { c10SerCase(rt, rec) })
	})
}

// ---------------------------------------------------------------------------
// snapshots

type heldValue struct {
	what   string
	digest func() string
	at     string
}

func TestC10Snapshots(t *testing.T) {
	defer vt.Watch("TestC10Snapshots", 120*time.Second)()
	rec := vt.For("C10")
	rec.Rule("snapshots: every Balance / Node / Stats value handed out by a store (memory, badger) or by the pool (update replies) during a generated history of credits, links, keep-alives and node updates is retained with a deep digest taken at receipt; after every later operation all retained values are re-digested and must be unchanged; non-trivial = >=3 credits to one balance after a snapshot of it was taken; distinct by driver + op sequence")
	check(t, func(rt *rapid.T) {
		rapid.SyncTest(rt, func(rt *rapid.T) {
			driver := rapid.SampledFrom([]string{"memory", "memory", "badger"}).Draw(rt, "driver")
			var st store.Store
			if driver == "memory" {
				st = memory.New()
			} else {
				st = mustOpenBadger(rt, "")
			}
			defer st.Close()
			var held []heldValue
			var hist []string
			creditsAfterSnap := map[string]int{}
			snapped := map[string]bool{}
			maxCredits := 0
			hold := func(what string, d func() string) {
				held = append(held, heldValue{what, d, d()})
			}
			check := func(after string) {
				for _, h := range held {
					if now := h.digest(); now != h.at {
						rt.Fatalf("a value handed out earlier changed after %s:\n  %s\n  was: %s\n  now: %s\nhistory:\n  %s", after, h.what, h.at, now, strings.Join(hist, "\n  "))
					}
				}
			}
			for _, id := range storeNodes {
				st.SetNode(store.Node{ID: store.NodeID(id), LastSeen: time.Now(), IsHost: id < "c"})
			}
			n := rapid.IntRange(5, 40).Draw(rt, "steps")
			for i := 0; i < n; i++ {
				o := genStoreOp(rt, []string{"AddNodeBalance", "AddNodeBalance", "AddNodeBalance", "AddAccountBalance", "AddAccountBalance", "AddAccountNode", "GetNodeBalance", "GetNodeBalance", "GetAccountBalance", "GetNode", "UpdateNodePeers", "SetNode", "Stats", "NodePeers", "Advance"})
				if o.K == "AddNodeBalance" || o.K == "AddAccountBalance" {
					// growing magnitudes force big.Int to reuse and to reallocate digit arrays
					o.Amount = rapid.SampledFrom([]string{"1", "7", "4294967296", "18446744073709551616", "340282366920938463463374607431768211456", "-5"}).Draw(rt, "amt")
				}
				hist = append(hist, o.String())
				switch o.K {
				case "Advance":
					time.Sleep(time.Duration(o.DeltaNs))
				case "GetNodeBalance":
					b, err := st.GetNodeBalance(store.NodeID(o.Node))
					if err == nil {
						bb := b
						hold("GetNodeBalance("+o.Node+")", func() string { return so.CanonBalance(bb) })
						snapped["n:"+o.Node] = true
					}
				case "GetAccountBalance":
					b, err := st.GetAccountBalance(store.Account(o.Acct))
					if err == nil {
						bb := b
						hold("GetAccountBalance("+o.Acct+")", func() string { return so.CanonBalance(bb) })
						snapped["a:"+o.Acct] = true
					}
				case "GetNode":
					nd, err := st.GetNode(store.NodeID(o.Node))
					if err == nil {
						hold("GetNode("+o.Node+")", func() string { return so.CanonNode(*nd, so.ExactTime) })
					}
				case "NodePeers":
					ns, err := st.NodePeers(store.NodeID(o.Node))
					if err == nil {
						hold("NodePeers("+o.Node+")", func() string {
							var p []string
							for _, x := range ns {
								p = append(p, so.CanonNode(x, so.ExactTime))
							}
							return strings.Join(p, ";")
						})
					}
				case "Stats":
					s, err := st.Stats()
					if err == nil {
						hold("Stats()", func() string { return so.CanonStats(s) })
					}
				default:
					so.Apply(st, o, so.ExactTime)
					if o.K == "AddNodeBalance" && snapped["n:"+o.Node] {
						creditsAfterSnap["n:"+o.Node]++
					}
					if o.K == "AddAccountBalance" && snapped["a:"+o.Acct] {
						creditsAfterSnap["a:"+o.Acct]++
					}
				}
				check(o.String())
			}
			for _, c := range creditsAfterSnap {
				if c > maxCredits {
					maxCredits = c
				}
			}
			rec.Case("snap|"+driver+"|"+strings.Join(hist, ","), maxCredits >= 3, []string{"snap", "snap:driver:" + driver}, func() interface{} {
				return map[string]interface{}{"kind": "snapshots", "driver": driver, "history": hist, "values_held": len(held)}
			})
		})
	})
}

// ---------------------------------------------------------------------------
// the pool binary built with the race detector, driven over real sockets

func TestC10BinaryRace(t *testing.T) {
	rec := vt.For("C10")
	rec.Rule("socket transports (statistical): the `vipnode pool` binary is built from the working tree WITH the race detector and driven concurrently over real WebSockets (hosts with the reverse whitelist service) and HTTP (clients): connect, keep-alives reporting each other, peer requests, wallet links, pool_account / pool_status reads, reconnects and abrupt closes, all at once from separate goroutines for a generated number of rounds; oracle: the binary's stderr never contains 'DATA RACE' or 'panic', the process stays alive and pool_status still answers; distinct by workload shape")
	os.Setenv("VERIF_BINARY_RACE", "1")
	p := startPool(t)
	defer p.stop()
	check(t, func(rt *rapid.T) {
		nHosts := rapid.IntRange(1, 3).Draw(rt, "hosts")
		nClients := rapid.IntRange(2, 5).Draw(rt, "clients")
		rounds := rapid.IntRange(1, 4).Draw(rt, "rounds")
		ctx, cancel := context.WithTimeout(context.Background(), 60*time.Second)
		defer cancel()
		var wg sync.WaitGroup
		var emu sync.Mutex
		var errs []string
		note := func(f string, a ...interface{}) {
			emu.Lock()
			errs = append(errs, fmt.Sprintf(f, a...))
			emu.Unlock()
		}
		hostIDs := []string{}
		for h := 0; h < nHosts; h++ {
			hostIDs = append(hostIDs, nodeIdent(h).nodeID)
		}
		var connSeq int32 = 1000
		for h := 0; h < nHosts; h++ {
			h := h
			reconnect := rapid.Bool().Draw(rt, "reconnect")
			wg.Add(1)
			go func() {
				defer wg.Done()
				id := nodeIdent(h)
				a, err := dialWS(p.addr, id, int(atomic.AddInt32(&connSeq, 1)))
				if err != nil {
					note("host dial: %v", err)
					return
				}
				if err := a.connectHost(ctx); err != nil {
					note("host connect: %v", err)
				}
				rp := pool.Remote(a.remote, id.key)
				for r := 0; r < rounds; r++ {
					if _, err := rp.Update(ctx, pool.UpdateRequest{PeerInfo: peerInfos([]string{nodeIdent(5).nodeID}, false), BlockNumber: uint64(r)}); err != nil {
						note("host update: %v", err)
					}
					if reconnect && r == 0 {
						b, err := dialWS(p.addr, id, int(atomic.AddInt32(&connSeq, 1)))
						if err == nil {
							b.connectHost(ctx)
							a.end("tcp-drop")
							a = b
							rp = pool.Remote(a.remote, id.key)
						}
					}
				}
				a.end("close-1000")
			}()
		}
		for c := 0; c < nClients; c++ {
			c := c
			link := rapid.Bool().Draw(rt, "link")
			wg.Add(1)
			go func() {
				defer wg.Done()
				id := nodeIdent(4 + c)
				hs := httpClient(p.addr)
				rp := pool.Remote(hs, id.key)
				if _, err := rp.Connect(ctx, pool.ConnectRequest{VipnodeVersion: "verif", NodeInfo: ethnode.UserAgent{Kind: ethnode.Geth, Network: 1}}); err != nil {
					note("client connect: %v", err)
					return
				}
				for r := 0; r < rounds; r++ {
					if _, err := rp.Update(ctx, pool.UpdateRequest{PeerInfo: peerInfos(hostIDs, r%2 == 0), BlockNumber: uint64(r)}); err != nil {
						note("client update: %v", err)
					}
					rp.Peer(ctx, pool.PeerRequest{Num: 2})
					var out json.RawMessage
					hs.Call(ctx, &out, "pool_status")
					hs.Call(ctx, &out, "pool_account", walletIdent(0).addr)
					if link && r == 0 {
						w := walletIdent(c % 2)
						n := time.Now().UnixNano()
						hs.Call(ctx, &out, "pool_addNode", mustSign(w.key, "pool_addNode", w.addr, n, id.nodeID), w.addr, n, id.nodeID)
					}
				}
			}()
		}
		wg.Wait()
		log := p.log()
		if strings.Contains(log, "DATA RACE") {
			i := strings.Index(log, "WARNING: DATA RACE")
			rt.Fatalf("the pool binary reported a data race:\n%.6000s", log[i:])
		}
		if strings.Contains(log, "panic:") || strings.Contains(log, "fatal error:") {
			rt.Fatalf("the pool binary crashed:\n%s", tailLines(log, 80))
		}
		var out json.RawMessage
		if err := httpClient(p.addr).Call(context.Background(), &out, "pool_status"); err != nil {
			rt.Fatalf("pool_status after the workload: %v\n%s", err, tailLines(log, 30))
		}
		for _, e := range errs {
			if strings.Contains(e, "failed to verify") {
				rt.Fatalf("correctly signed request refused under load: %s", e)
			}
		}
		rec.Case(fmt.Sprintf("binrace|%d|%d|%d", nHosts, nClients, rounds), nClients >= 2, []string{"binary-race"}, func() interface{} {
			return map[string]interface{}{"kind": "pool binary (-race) over WebSocket + HTTP", "hosts": nHosts, "clients": nClients, "rounds": rounds, "request_errors": len(errs)}
		})
	})
}

// TestC10BinaryBurst — many clients ask the real pool binary for a peer at the same moment; the one host answers
// their whitelist calls only once they have all arrived, so that many reverse calls are outstanding on the host's
// WebSocket at once. Every serial order hands the host to every client.
func TestC10BinaryBurst(t *testing.T) {
	rec := vt.For("C10")
	rec.Rule("socket transports, burst: the `vipnode pool` binary serves one host over WebSocket and 2-40 light clients over HTTP; all clients send vipnode_peer at the same moment and the host acknowledges the resulting whitelist calls only when all have arrived (or after 1.5 s), so up to 40 reverse calls are outstanding on one connection; oracle: every one-at-a-time order hands the host to every client, so a client that is not given the host although the host acknowledged its whitelist call within 4 s of the request is a violation (one-sided timing: a late acknowledgement proves nothing); distinct by the number of clients")
	p := startPool(t)
	defer p.stop()
	idBase := 100
	check(t, func(rt *rapid.T) {
		k := rapid.IntRange(2, 40).Draw(rt, "clients")
		ctx, cancel := context.WithTimeout(context.Background(), 60*time.Second)
		defer cancel()
		host, err := dialWS(p.addr, nodeIdent(0), 1)
		if err != nil {
			rt.Fatalf("%s", p.dialFailure(err))
		}
		defer host.end("close")
		var gmu sync.Mutex
		arrived := 0
		var first time.Time
		host.svc.Behave = func(method, arg string) (time.Duration, error) {
			if method != "whitelist" {
				return 0, nil
			}
			gmu.Lock()
			arrived++
			if first.IsZero() {
				first = time.Now()
			}
			f := first
			gmu.Unlock()
			for {
				gmu.Lock()
				n := arrived
				gmu.Unlock()
				if n >= k || time.Since(f) > 1500*time.Millisecond {
					return 0, nil
				}
				time.Sleep(5 * time.Millisecond)
			}
		}
		if err := host.connectHost(ctx); err != nil {
			rt.Fatalf("host connect: %v\n%s", err, tailLines(p.log(), 20))
		}
		// fresh client identities per case (their peer sets start empty)
		ids := make([]ident, k)
		rps := make([]*pool.RemotePool, k)
		for i := range ids {
			ids[i] = mkIdent(fmt.Sprintf("burst%d", idBase))
			idBase++
			rps[i] = pool.Remote(httpClient(p.addr), ids[i].key)
			if _, err := rps[i].Connect(ctx, pool.ConnectRequest{VipnodeVersion: "verif", NodeInfo: ethnode.UserAgent{Kind: ethnode.Geth, Network: 1}}); err != nil {
				rt.Fatalf("client connect: %v", err)
			}
		}
		type res struct {
			start time.Time
			got   bool
			err   error
		}
		results := make([]res, k)
		var wg sync.WaitGroup
		startCh := make(chan struct{})
		for i := 0; i < k; i++ {
			wg.Add(1)
			go func() {
				defer wg.Done()
				<-startCh
				results[i].start = time.Now()
				resp, err := rps[i].Peer(ctx, pool.PeerRequest{Num: 1})
				results[i].err = err
				if resp != nil {
					for _, pn := range resp.Peers {
						if string(pn.ID) == host.id.nodeID {
							results[i].got = true
						}
					}
				}
			}()
		}
		close(startCh)
		wg.Wait()
		acks := map[string]time.Time{}
		for _, c := range host.svc.Calls() {
			if c.Method == "whitelist" {
				acks[c.Arg] = c.At
			}
		}
		failed := 0
		for i, r := range results {
			if r.got {
				continue
			}
			failed++
			if at, ok := acks[ids[i].nodeID]; ok && at.Sub(r.start) < 4*time.Second {
				rt.Fatalf("%d clients asked for a peer at once; client %d was not given the host (err=%v) although the host acknowledged its whitelist call %s after the request: the acknowledgement was lost on the pool's side of the connection (every one-at-a-time order hands the host to every client)\npool log tail:\n%s", k, i, r.err, at.Sub(r.start).Round(time.Millisecond), tailLines(p.log(), 12))
			}
		}
		if strings.Contains(p.log(), "panic:") || strings.Contains(p.log(), "fatal error:") {
			rt.Fatalf("the pool binary crashed:\n%s", tailLines(p.log(), 80))
		}
		rec.Case(fmt.Sprintf("burst|%d|%d", k, failed), k >= 10, []string{"binary-burst", fmt.Sprintf("binary-burst:clients>=10:%v", k >= 10)}, func() interface{} {
			return map[string]interface{}{"kind": "pool binary, burst of peer requests", "clients": k, "not_served_for_timing": failed}
		})
	})
}
