package props

// C02 when store operations take time: "no stretch of time is ever charged twice".
// In virtual time store calls take no time at all, so the other C02 checks
// cannot see how the pool lines up the end of one billed stretch with the
// start of the next. Here the store is slow (a generated latency inside the
// keep-alive, between the check-in stamp and the billing).

import (
	"fmt"
	"math/big"
	"testing"
	"time"

	"github.com/vipnode/vipnode/v2/pool/store"
	"pgregory.net/rapid"

	"verif/vt"
)

const c02LatencyKey = "keepalive-bills-store-latency-twice"

func TestC02StoreLatency(t *testing.T) {
	defer vt.Watch("TestC02StoreLatency", 120*time.Second)()
	rec := vt.For("C02")
	rec.Rule("slow store (virtual time): a client with one host peer sends 2-6 keep-alives with generated gaps while every NodePeers call of the store (made by the pool between stamping the check-in and billing) takes a generated latency L; oracle: the client's total charge never exceeds price x (time from its connect to the end of its last keep-alive) / interval - no stretch is charged twice; the known finding (each keep-alive bills up to a clock reading taken after the stamp that the next one starts from, i.e. L is charged twice per keep-alive) is recognised by its exact amount, confirmed and reported as KNOWN-FINDING while listed; any other excess is a violation; non-trivial = L > 0 and >= 2 keep-alives")
	known := vt.Known("C02", c02LatencyKey)
	confirmed := false
	check(t, func(rt *rapid.T) {
		rapid.SyncTest(rt, func(rt *rapid.T) {
			price := int64(rapid.SampledFrom([]int{1000, 60000, 777777}).Draw(rt, "price"))
			cfg := sessCfg{Driver: rapid.SampledFrom([]string{"memory", "badger"}).Draw(rt, "driver"), Price: big.NewInt(price), Interval: time.Minute, Yield: true}
			s := newSession(rt, cfg, 2)
			defer s.close()
			lat := rapid.SampledFrom([]time.Duration{0, time.Millisecond, time.Second, 5 * time.Second}).Draw(rt, "storeLatency")
			hc := s.openConn(0, "")
			if err := s.connect(0, hc, true, "geth", ""); err != nil {
				rt.Fatal(err)
			}
			cc := s.openConn(1, "")
			if err := s.connect(1, cc, false, "geth", ""); err != nil {
				rt.Fatal(err)
			}
			tConnect := time.Now()
			hostID := s.agents[0].id.nodeID
			clientID := s.agents[1].id.nodeID
			slow := false
			s.ys.setHook(func(method string) error {
				if method == "NodePeers" && slow && lat > 0 {
					time.Sleep(lat)
				}
				return nil
			})
			k := rapid.IntRange(2, 6).Draw(rt, "keepalives")
			var gaps []string
			for i := 0; i < k; i++ {
				gap := time.Duration(rapid.IntRange(1, 90).Draw(rt, "gapSeconds")) * time.Second
				gaps = append(gaps, gap.String())
				time.Sleep(gap)
				// the host keeps checking in so that it stays an active peer
				if _, err := s.update(0, []string{clientID}, uint64(i), false, false); err != nil {
					rt.Fatalf("host keep-alive: %v", err)
				}
				slow = true
				_, err := s.update(1, []string{hostID}, uint64(i), false, false)
				slow = false
				if err != nil {
					rt.Fatalf("client keep-alive: %v", err)
				}
			}
			tEnd := time.Now()
			bal, err := s.st.GetNodeBalance(store.NodeID(clientID))
			if err != nil {
				rt.Fatal(err)
			}
			charged := new(big.Int).Neg(&bal.Credit)
			span := tEnd.Sub(tConnect)
			limit := new(big.Int).Mul(big.NewInt(price), big.NewInt(int64(span)))
			limit.Div(limit, big.NewInt(int64(time.Minute)))
			excess := new(big.Int).Sub(charged, limit)
			desc := fmt.Sprintf("driver=%s price=%d/min, %d keep-alives with gaps %v, the store takes %s inside each: the client was charged %s for the %s between its connect and the end of its last keep-alive (at most %s is due)", cfg.Driver, price, k, gaps, lat, charged, span, limit)
			if excess.Sign() > 0 {
				// the known shape: every keep-alive but the last has its latency billed a second time by the next one
				knownExcess := new(big.Int).Mul(big.NewInt(price), big.NewInt(int64(lat)*int64(k-1)))
				knownExcess.Div(knownExcess, big.NewInt(int64(time.Minute)))
				diff := new(big.Int).Sub(excess, knownExcess)
				if known && diff.CmpAbs(big.NewInt(int64(k))) <= 0 {
					confirmed = true
					rec.Excluded(c02LatencyKey, 1)
				} else {
					rt.Fatalf("a stretch of time was charged twice: %s", desc)
				}
			}
			rec.Case(fmt.Sprintf("latency|%s|%d|%s|%d|%v", cfg.Driver, price, lat, k, gaps), lat > 0, []string{"store-latency", fmt.Sprintf("store-latency:%s", lat)}, func() interface{} {
				return map[string]interface{}{"kind": "keep-alives over a slow store", "driver": cfg.Driver, "price_per_min": price, "store_latency": lat.String(), "gaps": gaps, "charged": charged.String(), "due_at_most": limit.String()}
			})
		})
	})
	if confirmed {
		vt.ReportKnown("C02", c02LatencyKey)
	}
}
