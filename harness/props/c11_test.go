package props

// C11 — peers that stop checking in are declared invalid and dropped; live ones never.

import (
	"fmt"
	"math/big"
	"sort"
	"strings"
	"testing"
	"time"

	"github.com/vipnode/vipnode/v2/pool/store"
	"github.com/vipnode/vipnode/v2/pool/store/memory"
	"pgregory.net/rapid"

	"verif/vt"
)

var c11Advances = []time.Duration{1, time.Second, 30 * time.Second, 59 * time.Second, 60 * time.Second, 61 * time.Second, 119 * time.Second, 120*time.Second - 1, 120 * time.Second, 120*time.Second + 1, 121 * time.Second, 180 * time.Second, 240 * time.Second, 10 * time.Minute}

// expirySubject abstracts "store level" and "pool level".
type expirySubject interface {
	register(i int) error                                               // peer i (or X = 0) registers / re-registers
	checkin(i int) error                                                // peer i's own keep-alive (reports nothing)
	report(ids []string) (invalid []string, active []string, err error) // X's keep-alive
	idOf(i int) string
	unknownID(k int) string
	manyUnknown(k int) string // any number of distinct ids the pool does not know
	close()
}

type storeSubject struct {
	st  store.Store
	ids []string
	blk func() uint64 // the block number of the next keep-alive (a chain head may also go backwards)
}

func (s *storeSubject) idOf(i int) string        { return s.ids[i] }
func (s *storeSubject) unknownID(k int) string   { return fmt.Sprintf("unknown%d", k) }
func (s *storeSubject) manyUnknown(k int) string { return fmt.Sprintf("stranger%d", k) }
func (s *storeSubject) close()                   { s.st.Close() }
func (s *storeSubject) register(i int) error {
	return s.st.SetNode(store.Node{ID: store.NodeID(s.ids[i]), LastSeen: time.Now(), IsHost: i != 0, Kind: "geth", URI: "enode://" + s.ids[i] + "@192.0.2.1:30303"})
}
func (s *storeSubject) checkin(i int) error {
	_, err := s.st.UpdateNodePeers(store.NodeID(s.ids[i]), nil, s.blk())
	return err
}
func (s *storeSubject) report(ids []string) ([]string, []string, error) {
	inv, err := s.st.UpdateNodePeers(store.NodeID(s.ids[0]), ids, s.blk())
	if err != nil {
		return nil, nil, err
	}
	act, err := s.st.NodePeers(store.NodeID(s.ids[0]))
	if err != nil {
		return nil, nil, err
	}
	var a, b []string
	for _, x := range inv {
		a = append(a, string(x))
	}
	for _, x := range act {
		b = append(b, string(x.ID))
	}
	return a, b, nil
}

type poolSubject struct {
	s   *session
	blk func() uint64
}

func (p *poolSubject) idOf(i int) string        { return p.s.agents[i].id.nodeID }
func (p *poolSubject) unknownID(k int) string   { return nodeIdent(8 + k%2).nodeID }
func (p *poolSubject) manyUnknown(k int) string { return hexID(5000 + k) }
func (p *poolSubject) close()                   { p.s.close() }
func (p *poolSubject) register(i int) error {
	return p.s.connect(i, p.s.openConn(i, ""), i != 0, "geth", "")
}
func (p *poolSubject) checkin(i int) error {
	_, err := p.s.update(i, nil, p.blk(), false, false)
	return err
}
func (p *poolSubject) report(ids []string) ([]string, []string, error) {
	resp, err := p.s.update(0, ids, p.blk(), len(ids)%2 == 0, len(ids)%3 == 0)
	if err != nil {
		return nil, nil, err
	}
	// active peers come back as URIs; read the ids from the store (same set the pool bills)
	act, err := p.s.st.NodePeers(store.NodeID(p.idOf(0)))
	if err != nil {
		return nil, nil, err
	}
	var b []string
	for _, x := range act {
		b = append(b, string(x.ID))
	}
	if len(resp.ActivePeers) != len(b) {
		return nil, nil, fmt.Errorf("response lists %d active peers, store tracks %d", len(resp.ActivePeers), len(b))
	}
	return resp.InvalidPeers, b, nil
}

func c11Case(rt *rapid.T, rec *vt.Rec) {
	level := rapid.SampledFrom([]string{"store", "store", "pool"}).Draw(rt, "level")
	driver := rapid.SampledFrom([]string{"memory", "badger"}).Draw(rt, "driver")
	const nPeers = 4 // X is index 0, peers 1..4
	var sub expirySubject
	blk := func() uint64 { return uint64(rapid.IntRange(0, 3).Draw(rt, "block")) }
	if level == "store" {
		var st store.Store
		if driver == "memory" {
			st = memory.New()
		} else {
			st = mustOpenBadger(rt, "")
		}
		sub = &storeSubject{st: st, ids: []string{"X", "P1", "P2", "P3", "P4"}, blk: blk}
	} else {
		sub = &poolSubject{s: newSession(rt, sessCfg{Driver: driver, Price: big.NewInt(10), Interval: time.Minute}, nPeers+1), blk: blk}
	}
	defer sub.close()
	name := func(id string) string {
		for i := 0; i <= nPeers; i++ {
			if sub.idOf(i) == id {
				if i == 0 {
					return "X"
				}
				return fmt.Sprintf("P%d", i)
			}
		}
		return "U:" + nodeName(id)
	}
	namesOf := func(ids []string) []string {
		r := make([]string, len(ids))
		for i, id := range ids {
			r[i] = name(id)
		}
		sort.Strings(r)
		return r
	}
	// model
	lastSeen := map[string]time.Time{}
	tracked := map[string]time.Time{}
	everEvicted := map[string]bool{}
	// corollary bookkeeping: peers that never let more than 60s pass between check-ins and were reported in every round since first reported
	lastCheckin := map[string]time.Time{}
	diligent := map[string]bool{}
	firstReported := map[string]bool{}
	var hist, kinds []string
	classes := map[string]bool{}
	logf := func(f string, a ...interface{}) {
		hist = append(hist, fmt.Sprintf("[t+%s] ", time.Since(bubbleEpoch()))+fmt.Sprintf(f, a...))
	}
	fail := func(f string, a ...interface{}) {
		rt.Fatalf("%s\nlevel=%s driver=%s\nhistory:\n  %s", fmt.Sprintf(f, a...), level, driver, strings.Join(hist, "\n  "))
	}
	reg := func(i int) {
		if err := sub.register(i); err != nil {
			fail("register: %v", err)
		}
		lastSeen[sub.idOf(i)] = time.Now()
		lastCheckin[sub.idOf(i)] = time.Now()
		if i != 0 {
			diligent[sub.idOf(i)] = true
		}
	}
	reg(0)
	for i := 1; i <= nPeers; i++ {
		if rapid.IntRange(0, 4).Draw(rt, "preregister") > 0 {
			reg(i)
		}
	}
	noteGap := func() {
		now := time.Now()
		for id, t := range lastCheckin {
			if now.Sub(t) > 60*time.Second {
				diligent[id] = false
			}
		}
	}
	n := rapid.IntRange(4, 30).Draw(rt, "steps")
	for k := 0; k < n; k++ {
		op := rapid.SampledFrom([]string{"advance", "advance", "advance", "checkin", "checkin", "report", "report", "report", "register", "round", "reregisterX"}).Draw(rt, "op")
		switch op {
		case "reregisterX":
			// X itself connects again (after any gap, also after it has gone silent for longer than the window): the peers
			// it is tracked with stay tracked - they are declared at its next keep-alive, not silently forgotten
			reg(0)
			classes["x-reregisters"] = true
			logf("X registers again")
		case "advance":
			d := rapid.SampledFrom(c11Advances).Draw(rt, "advance")
			time.Sleep(d)
			noteGap()
			logf("advance %s", d)
		case "register":
			i := rapid.IntRange(1, nPeers).Draw(rt, "peer")
			reg(i)
			logf("P%d registers", i)
		case "checkin":
			i := rapid.IntRange(1, nPeers).Draw(rt, "peer")
			id := sub.idOf(i)
			_, isReg := lastSeen[id]
			err := sub.checkin(i)
			if isReg != (err == nil) {
				fail("check-in of P%d: err=%v, registered=%v", i, err, isReg)
			}
			if err == nil {
				lastSeen[id] = time.Now()
				lastCheckin[id] = time.Now()
			}
			logf("P%d checks in -> %v", i, err)
		case "round":
			// a well-behaved round: everybody registered checks in, X reports everybody
			for i := 1; i <= nPeers; i++ {
				if _, ok := lastSeen[sub.idOf(i)]; ok {
					if err := sub.checkin(i); err != nil {
						fail("check-in: %v", err)
					}
					lastSeen[sub.idOf(i)] = time.Now()
					lastCheckin[sub.idOf(i)] = time.Now()
				}
			}
			logf("every registered peer checks in")
			fallthrough
		case "report":
			var ids []string
			if op == "round" {
				for i := 1; i <= nPeers; i++ {
					ids = append(ids, sub.idOf(i))
				}
			} else {
				m := rapid.IntRange(0, 6).Draw(rt, "nReport")
				for j := 0; j < m; j++ {
					switch c := rapid.IntRange(0, 9).Draw(rt, "idClass"); {
					case c == 0:
						ids = append(ids, sub.unknownID(rapid.IntRange(0, 1).Draw(rt, "unknown")))
					case c == 1 && level == "store":
						ids = append(ids, sub.idOf(0)) // X lists itself
					default:
						ids = append(ids, sub.idOf(rapid.IntRange(1, nPeers).Draw(rt, "peer")))
					}
				}
			}
			// a well-connected node: the members of the pool come after a long list of connections the pool does not know
			pad := 0
			if op != "round" && rapid.IntRange(0, 7).Draw(rt, "longReport") == 0 {
				pad = rapid.IntRange(120, 300).Draw(rt, "unknownFirst")
				long := make([]string, 0, pad+len(ids))
				for k := 0; k < pad; k++ {
					long = append(long, sub.manyUnknown(k))
				}
				ids = append(long, ids...)
				classes["long-report"] = true
			}
			now := time.Now()
			lastSeen[sub.idOf(0)] = now
			reported := map[string]bool{}
			for _, id := range ids {
				reported[id] = true
				if seen, ok := lastSeen[id]; ok {
					if _, was := tracked[id]; !was && everEvicted[id] {
						classes["reappearance"] = true
					}
					tracked[id] = seen
					firstReported[id] = true
				}
			}
			for id := range firstReported {
				if !reported[id] {
					diligent[id] = false
				}
			}
			deadline := now.Add(-2 * 60 * time.Second)
			var must, either []string
			for id, seen := range tracked {
				switch {
				case seen.Before(deadline):
					must = append(must, id)
				case seen.Equal(deadline):
					either = append(either, id)
				}
			}
			inv, act, err := sub.report(ids)
			logf("X reports (%d unknown ids, then) %v -> invalid %v, active %v, err=%v   (model: must-invalid %v, boundary %v)", pad, namesOf(ids[pad:]), namesOf(inv), namesOf(act), err, namesOf(must), namesOf(either))
			if err != nil {
				fail("X's keep-alive failed: %v", err)
			}
			invSet := map[string]bool{}
			for _, id := range inv {
				if invSet[id] {
					fail("peer %s declared invalid twice in one reply", name(id))
				}
				invSet[id] = true
				if _, ok := lastSeen[id]; !ok {
					fail("id %s is not a registered node but was declared invalid", name(id))
				}
			}
			for _, id := range must {
				if !invSet[id] {
					fail("peer %s last checked in %s before this keep-alive (as recorded when X last reported it) - older than the 120s window - but was not declared invalid", name(id), now.Sub(tracked[id]))
				}
			}
			allowed := map[string]bool{}
			for _, id := range append(append([]string{}, must...), either...) {
				allowed[id] = true
			}
			for id := range invSet {
				if !allowed[id] {
					seen, isTracked := tracked[id]
					fail("peer %s declared invalid, but its check-in as recorded is only %s old (tracked=%v)", name(id), now.Sub(seen), isTracked)
				}
				if diligent[id] {
					fail("peer %s checked in at least every 60s and was reported every round, yet was declared invalid", name(id))
				}
				delete(tracked, id)
				everEvicted[id] = true
				if !reported[id] {
					classes["unreported-aged-out"] = true
				}
			}
			var wantActive []string
			for id := range tracked {
				wantActive = append(wantActive, id)
			}
			if !setEq(act, wantActive) {
				fail("active (billable) peers are %v, must be %v", namesOf(act), namesOf(wantActive))
			}
			for _, id := range act {
				if _, ok := lastSeen[id]; !ok {
					fail("unknown id %s is tracked as a peer", name(id))
				}
			}
			if len(inv) > 0 {
				classes["eviction"] = true
				if len(act) > 0 {
					classes["eviction+survivor"] = true
				}
			}
			if len(either) > 0 {
				classes["boundary"] = true
			}
		}
		kinds = append(kinds, op)
	}
	nontrivial := classes["eviction+survivor"] || classes["unreported-aged-out"] || classes["reappearance"]
	var cl []string
	for c := range classes {
		cl = append(cl, c)
	}
	cl = sortedCopy(cl)
	rec.Case(fmt.Sprintf("%s|%s|%s|%s", level, driver, strings.Join(kinds, ","), strings.Join(cl, ",")), nontrivial, append(cl, "level:"+level, "driver:"+driver), func() interface{} {
		return map[string]interface{}{"level": level, "driver": driver, "history": hist, "classes": cl}
	})
}

func TestC11PeerExpiry(t *testing.T) {
	defer vt.Watch("TestC11PeerExpiry", 120*time.Second)()
	rec := vt.For("C11")
	rec.Rule("node X and peers P1..P4 (registered at generated times), unknown ids, duplicates and X itself in reports; rules in virtual time: advance(d in {1ns..10min incl. 60s/120s +-1ns}), P_i check-in, P_i re-register, X keep-alive with a generated report, 'round' (everybody checks in, X reports everybody); at store level (UpdateNodePeers/NodePeers) and pool level (signed vipnode_update, InvalidPeers/ActivePeers), memory and badger; model: tracked[P] = P's own last check-in as of the last time X reported P; on X's keep-alive at t refresh reported registered peers, invalid = tracked entries older than t-120s (exactly 120s: don't-care), forget them, active = the rest; corollaries: a peer checking in every <=60s and reported every round is never invalid, unknown ids never tracked or declared; non-trivial = an eviction with a survivor, an un-reported peer ageing out, or a reappearance; distinct by level+driver+op sequence")
	check(t, func(rt *rapid.T) {
		rapid.SyncTest(rt, func(rt *rapid.T) { c11Case(rt, rec) })
	})
}
