package props

// The "pool session" fixture shared by C01–C03, C05, C06, C08–C11: a real
// VipnodePool on a generated driver with a real pay-per-interval manager and
// payment service, hosts and clients connected over in-memory connections,
// and a reference model (store contract model + billing + host registry) run
// next to it in the same virtual instant.

import (
	"context"
	"errors"
	"fmt"
	"github.com/ethereum/go-ethereum/common"
	"math/big"
	"regexp"
	"sort"
	"strings"
	"sync"
	"time"

	"github.com/vipnode/vipnode/v2/ethnode"
	"github.com/vipnode/vipnode/v2/jsonrpc2"
	"github.com/vipnode/vipnode/v2/pool"
	"github.com/vipnode/vipnode/v2/pool/balance"
	"github.com/vipnode/vipnode/v2/pool/payment"
	"github.com/vipnode/vipnode/v2/pool/status"
	"github.com/vipnode/vipnode/v2/pool/store"
	"github.com/vipnode/vipnode/v2/pool/store/memory"

	so "verif/storeops"
)

// ---------------------------------------------------------------------------
// deposit proxy: overlays "on-chain" deposits on a store the way
// payment.contractPayment does (the real proxy needs an Ethereum backend).

type depositProxy struct {
	store.AccountStore
	mu       sync.Mutex
	deposits map[store.Account]*big.Int
	locked   map[store.Account]bool // deposit withdrawal pending on chain: the contract proxy answers with ErrDepositTimelocked
}

func (p *depositProxy) isLocked(a store.Account) bool {
	p.mu.Lock()
	defer p.mu.Unlock()
	return p.locked[a]
}

// canonAccount is the spelling under which a deposit is held: like the contract proxy (and the chain), the overlay
// knows one deposit per address however the wallet spells it towards the pool.
func canonAccount(a store.Account) store.Account {
	if !common.IsHexAddress(string(a)) {
		return a
	}
	return store.Account(common.HexToAddress(string(a)).Hex())
}

func (p *depositProxy) deposit(a store.Account) *big.Int {
	a = canonAccount(a)
	p.mu.Lock()
	defer p.mu.Unlock()
	if d, ok := p.deposits[a]; ok {
		return new(big.Int).Set(d)
	}
	return new(big.Int)
}

func (p *depositProxy) setDeposit(a store.Account, v *big.Int) {
	a = canonAccount(a)
	p.mu.Lock()
	defer p.mu.Unlock()
	p.deposits[a] = new(big.Int).Set(v)
}

func (p *depositProxy) GetNodeBalance(id store.NodeID) (store.Balance, error) {
	b, err := p.AccountStore.GetNodeBalance(id)
	if err != nil {
		return b, err
	}
	if len(b.Account) == 0 {
		return b, nil
	}
	if p.isLocked(b.Account) {
		return b, payment.ErrDepositTimelocked
	}
	b.Deposit = *p.deposit(b.Account)
	return b, nil
}

func (p *depositProxy) GetAccountBalance(a store.Account) (store.Balance, error) {
	b, err := p.AccountStore.GetAccountBalance(a)
	if err != nil {
		return b, err
	}
	if p.isLocked(a) {
		return b, payment.ErrDepositTimelocked
	}
	b.Deposit = *p.deposit(a)
	return b, nil
}

// ---------------------------------------------------------------------------
// configuration

type sessCfg struct {
	Driver          string // "memory", "badger"
	Price           *big.Int
	Interval        time.Duration
	Min             *big.Int // nil = off
	Deposits        bool
	MaxRequestHosts int
	NoManager       bool // pool.New(store, nil)
	Yield           bool // wrap the store so that scheduled tasks park at every store call
	NoSettle        bool // payment service without a settle handler (read-only mode)
	WithdrawMin     *big.Int
	Fee             string // "", "const", "prop"
}

func (c sessCfg) String() string {
	min := "off"
	if c.Min != nil {
		min = c.Min.String()
	}
	return fmt.Sprintf("driver=%s price=%s/%s min=%s deposits=%v max=%d", c.Driver, c.Price, c.Interval, min, c.Deposits, c.MaxRequestHosts)
}

type settleCall struct {
	Account string
	Amount  *big.Int
	New     *big.Int
	OK      bool
	Pre     *big.Int // the pre-fee total this settlement was computed from (same goroutine's last WithdrawFee input)
}

type feeEntry struct {
	gid int64
	val *big.Int
}

type agentConn struct {
	id   int
	c    *conn
	svc  *HostSvc
	open bool
}

type agentState struct {
	idx   int
	id    ident
	conns []*agentConn
}

type session struct {
	cfg             sessCfg
	st              store.Store
	proxy           *depositProxy
	bal             store.BalanceStore
	pool            *pool.VipnodePool
	pay             *payment.PaymentService
	srv             *jsonrpc2.Server
	agents          []*agentState
	model           *poolModel
	closeFn         func()
	dir             string
	handlerOverride jsonrpc2.Handler
	closed          bool
	raw             store.Store // the driver itself (s.st may be the yielding wrapper)
	ys              *yieldStore
	feeLog          []feeEntry // inputs of WithdrawFee (pre-fee totals), in call order

	mu            sync.Mutex
	nextUpdateCtx context.Context // context of the next direct keep-alive call (nil = background)
	settleLog     []settleCall
	settleHook    func(account store.Account, amount *big.Int) error // nil = succeed
	nonceLast     map[string]int64
	connSeq       int
	behave        func(hostIdx int, connID int, method, arg string) (time.Duration, error)
}

func newSession(t interface{ Fatalf(string, ...interface{}) }, cfg sessCfg, nAgents int) *session {
	s := &session{cfg: cfg, nonceLast: map[string]int64{}}
	switch cfg.Driver {
	case "memory":
		s.st = memory.New()
	case "badger":
		s.st = mustOpenBadger(t, "")
	case "badgerdisk":
		s.dir = tempDir("sess-")
		s.st = mustOpenBadger(t, s.dir)
	default:
		t.Fatalf("unknown driver %q", cfg.Driver)
	}
	s.raw = s.st
	if cfg.Yield {
		s.ys = &yieldStore{inner: s.st}
		s.st = s.ys
	}
	s.build(t)
	for i := 0; i < nAgents; i++ {
		s.agents = append(s.agents, &agentState{idx: i, id: nodeIdent(i)})
	}
	s.model = newPoolModel(cfg)
	return s
}

// build (re)creates everything that sits on top of the store: balance store
// proxy, manager, pool, payment service, RPC server.
func (s *session) build(t interface{ Fatalf(string, ...interface{}) }) {
	cfg := s.cfg
	s.bal = s.st
	if cfg.Deposits {
		if s.proxy == nil {
			s.proxy = &depositProxy{AccountStore: s.st, deposits: map[store.Account]*big.Int{}}
		} else {
			s.proxy.AccountStore = s.st
		}
		s.bal = s.proxy
	}
	var mgr balance.Manager
	if !cfg.NoManager {
		m := balance.PayPerInterval(s.bal, cfg.Interval, cfg.Price)
		if cfg.Min != nil {
			m.MinBalance = new(big.Int).Set(cfg.Min)
		}
		mgr = m
	}
	s.pool = pool.New(s.st, mgr)
	s.pool.MaxRequestHosts = cfg.MaxRequestHosts
	s.pool.Version = "verif"
	s.pay = &payment.PaymentService{
		NonceStore: s.st, AccountStore: s.st, BalanceStore: s.bal,
		Settle: func(account store.Account, amount *big.Int, newBalance *big.Int) (string, error) {
			var err error
			if s.ys != nil {
				s.ys.sc.yield("Settle")
			}
			s.mu.Lock()
			hook := s.settleHook
			s.mu.Unlock()
			if hook != nil {
				err = hook(account, amount)
			}
			s.mu.Lock()
			var pre *big.Int
			g := goid()
			for i := len(s.feeLog) - 1; i >= 0; i-- {
				if s.feeLog[i].gid == g {
					pre = s.feeLog[i].val
					break
				}
			}
			s.settleLog = append(s.settleLog, settleCall{string(account), new(big.Int).Set(amount), new(big.Int).Set(newBalance), err == nil, pre})
			s.mu.Unlock()
			if err != nil {
				return "", err
			}
			if s.proxy != nil {
				// the contract replaces the on-chain balance with newBalance
				s.proxy.setDeposit(account, newBalance)
			}
			return "tx", nil
		},
	}
	switch cfg.Fee {
	case "const":
		s.pay.WithdrawFee = func(a *big.Int) *big.Int {
			s.mu.Lock()
			s.feeLog = append(s.feeLog, feeEntry{goid(), new(big.Int).Set(a)})
			s.mu.Unlock()
			return new(big.Int).Sub(a, big.NewInt(25))
		}
	case "prop":
		s.pay.WithdrawFee = func(a *big.Int) *big.Int {
			s.mu.Lock()
			s.feeLog = append(s.feeLog, feeEntry{goid(), new(big.Int).Set(a)})
			s.mu.Unlock()
			return new(big.Int).Div(new(big.Int).Mul(a, big.NewInt(99)), big.NewInt(100))
		}
	default:
		s.pay.WithdrawFee = func(a *big.Int) *big.Int {
			s.mu.Lock()
			s.feeLog = append(s.feeLog, feeEntry{goid(), new(big.Int).Set(a)})
			s.mu.Unlock()
			return new(big.Int).Set(a)
		}
	}
	if cfg.NoSettle {
		s.pay.Settle = nil
	}
	if cfg.WithdrawMin != nil {
		s.pay.WithdrawMin = new(big.Int).Set(cfg.WithdrawMin)
	}
	s.srv = &jsonrpc2.Server{}
	// as in pool.go
	if err := s.srv.Register("vipnode_", s.pool, "connect", "disconnect", "ping", "update", "peer", "client", "host"); err != nil {
		t.Fatalf("register: %v", err)
	}
	if err := s.srv.Register("pool_", s.pay); err != nil {
		t.Fatalf("register: %v", err)
	}
	dash := &status.PoolStatus{Store: s.st, TimeStarted: time.Now(), Version: "verif", CacheDuration: time.Minute}
	if err := s.srv.Register("pool_", dash); err != nil {
		t.Fatalf("register: %v", err)
	}
}

// reopen closes the on-disk store and opens it again, as a pool restart does:
// all connections are gone, the pool object is new, the data must be there.
func (s *session) reopen(t interface{ Fatalf(string, ...interface{}) }) {
	for _, a := range s.agents {
		for _, c := range a.conns {
			if c.open {
				c.c.Close()
				c.open = false
				s.model.closeConn(c.id)
			}
		}
	}
	if err := closeStore(s.st); err != nil {
		t.Fatalf("close store: %v", err)
	}
	s.st = mustOpenBadger(t, s.dir)
	s.raw = s.st
	if s.cfg.Yield {
		s.ys = &yieldStore{inner: s.st}
		s.st = s.ys
	}
	s.build(t)
}

func (s *session) close() {
	if s.closed {
		return
	}
	s.closed = true
	for _, a := range s.agents {
		for _, c := range a.conns {
			if c.open {
				c.c.Close()
				c.open = false
			}
		}
	}
	closeStore(s.st)
	if s.dir != "" {
		removeAll(s.dir)
	}
}

// nonce returns a fresh nonce for id: the current (virtual) time, bumped so
// that it is strictly above the last one this harness used for id.
func (s *session) nonce(id string) int64 {
	s.mu.Lock()
	defer s.mu.Unlock()
	n := time.Now().UnixNano()
	if last, ok := s.nonceLast[id]; ok && n <= last {
		n = last + 1
	}
	s.nonceLast[id] = n
	return n
}

// openConnWith is openConn with a different pool-side handler (e.g. a panic-recording wrapper around s.srv).
func (s *session) openConnWith(i int, h jsonrpc2.Handler) *agentConn {
	s.handlerOverride = h
	defer func() { s.handlerOverride = nil }()
	return s.openConn(i, "")
}

// openConn dials a new connection for agent i (not yet registered with the pool).
func (s *session) openConn(i int, addr string) *agentConn {
	a := s.agents[i]
	s.mu.Lock()
	s.connSeq++
	id := s.connSeq
	s.mu.Unlock()
	ac := &agentConn{id: id, open: true}
	ac.svc = &HostSvc{Behave: func(method, arg string) (time.Duration, error) {
		s.mu.Lock()
		b := s.behave
		s.mu.Unlock()
		if b != nil {
			return b(i, id, method, arg)
		}
		return 0, nil
	}}
	if addr == "" {
		addr = fmt.Sprintf("203.0.113.%d:%d", 10+i, 40000+id)
	}
	var ph jsonrpc2.Handler = s.srv
	if s.handlerOverride != nil {
		ph = s.handlerOverride
	}
	ac.c = dial(ph, ac.svc.handler(), addr, s.pool.CloseRemote)
	a.conns = append(a.conns, ac)
	return ac
}

func (s *session) closeConn(ac *agentConn) {
	if ac.open {
		ac.c.Close()
		ac.open = false
		s.model.closeConn(ac.id)
	}
}

func (a *agentState) lastConn() *agentConn {
	if len(a.conns) == 0 {
		return nil
	}
	return a.conns[len(a.conns)-1]
}

// ---------------------------------------------------------------------------
// operations (real side). Each returns the error of the RPC.

var rpcCtx = context.Background

func (s *session) connectReq(isHost bool, kind string, payout string) pool.ConnectRequest {
	return pool.ConnectRequest{VipnodeVersion: "verif", Payout: payout, NodeInfo: ethnode.UserAgent{Version: "v", Kind: ethnode.ParseNodeKind(kind), IsFullNode: isHost, Network: 1}}
}

// connect registers agent i over connection ac.
func (s *session) connect(i int, ac *agentConn, isHost bool, kind, payout string) error {
	a := s.agents[i]
	req := s.connectReq(isHost, kind, payout)
	n := s.nonce(a.id.nodeID)
	var resp pool.ConnectResponse
	return ac.c.agentSide.Call(rpcCtx(), &resp, "vipnode_connect", mustSign(a.id.key, "vipnode_connect", a.id.nodeID, n, req), a.id.nodeID, n, req)
}

func peerInfos(ids []string, enodeForm bool) []ethnode.PeerInfo {
	r := make([]ethnode.PeerInfo, 0, len(ids))
	for k, id := range ids {
		p := ethnode.PeerInfo{ID: id, Name: "peer", Caps: []string{"eth/63"}}
		if enodeForm && len(id) == 128 {
			// newer geth: id is a hash, the pubkey is in the enode
			p.ID = fmt.Sprintf("%064x", k+1)
			p.Enode = "enode://" + id + "@192.0.2.50:30303"
		}
		p.Network.RemoteAddress = "192.0.2.50:30303"
		r = append(r, p)
	}
	return r
}

func (s *session) update(i int, peerIDs []string, block uint64, enodeForm, viaRPC bool) (*pool.UpdateResponse, error) {
	a := s.agents[i]
	req := pool.UpdateRequest{PeerInfo: peerInfos(peerIDs, enodeForm), BlockNumber: block}
	n := s.nonce(a.id.nodeID)
	sig := mustSign(a.id.key, "vipnode_update", a.id.nodeID, n, req)
	if viaRPC {
		ac := a.lastConn()
		if ac != nil && ac.open {
			var resp pool.UpdateResponse
			err := ac.c.agentSide.Call(rpcCtx(), &resp, "vipnode_update", sig, a.id.nodeID, n, req)
			if err != nil {
				return nil, err
			}
			return &resp, nil
		}
	}
	ctx := rpcCtx()
	if s.nextUpdateCtx != nil {
		ctx, s.nextUpdateCtx = s.nextUpdateCtx, nil
	}
	return s.pool.Update(ctx, sig, a.id.nodeID, n, req)
}

func (s *session) peer(i int, num int, kind string) (*pool.PeerResponse, error) {
	a := s.agents[i]
	req := pool.PeerRequest{Num: num, Kind: kind}
	n := s.nonce(a.id.nodeID)
	return s.pool.Peer(rpcCtx(), mustSign(a.id.key, "vipnode_peer", a.id.nodeID, n, req), a.id.nodeID, n, req)
}

func (s *session) addNode(w ident, nodeID string) error {
	n := s.nonce(w.addr)
	return s.pay.AddNode(rpcCtx(), mustSign(w.key, "pool_addNode", w.addr, n, nodeID), w.addr, n, nodeID)
}

func (s *session) withdraw(w ident) error {
	n := s.nonce(w.addr)
	return s.pay.Withdraw(rpcCtx(), mustSign(w.key, "pool_withdraw", w.addr, n), w.addr, n)
}

// ---------------------------------------------------------------------------
// error classification (typed or, after an RPC hop, by message)

var lowBalRe = regexp.MustCompile(`low balance error: Current balance \((-?\d+)\) is less than the required minimum \((-?\d+)\)`)

type errClass struct {
	Kind    string // "", "verify", "lowbalance", "unregistered", "nohosts", "other"
	Balance *big.Int
	Min     *big.Int
	Text    string
}

func classifyErr(err error) errClass {
	if err == nil {
		return errClass{}
	}
	txt := err.Error()
	var lb balance.LowBalanceError
	if errors.As(err, &lb) {
		return errClass{Kind: "lowbalance", Balance: lb.CurrentBalance, Min: lb.MinBalance, Text: txt}
	}
	if m := lowBalRe.FindStringSubmatch(txt); m != nil {
		b, _ := new(big.Int).SetString(m[1], 10)
		mn, _ := new(big.Int).SetString(m[2], 10)
		return errClass{Kind: "lowbalance", Balance: b, Min: mn, Text: txt}
	}
	var vf pool.VerifyFailedError
	if errors.As(err, &vf) || strings.Contains(txt, "failed to verify signature") {
		return errClass{Kind: "verify", Text: txt}
	}
	if errors.Is(err, store.ErrUnregisteredNode) || txt == store.ErrUnregisteredNode.Error() {
		return errClass{Kind: "unregistered", Text: txt}
	}
	var nh pool.NoHostNodesError
	var rh pool.RemoteHostErrors
	if errors.As(err, &nh) || errors.As(err, &rh) || strings.HasPrefix(txt, "no host nodes") || strings.HasPrefix(txt, "no available host") || strings.HasPrefix(txt, "failed to call") {
		return errClass{Kind: "nohosts", Text: txt}
	}
	return errClass{Kind: "other", Text: txt}
}

// ---------------------------------------------------------------------------
// reference model of the pool

type poolModel struct {
	cfg      sessCfg
	st       *so.Model
	deposits map[store.Account]*big.Int
	settled  *big.Int // credit removed from the ledger by successful withdrawals
	granted  *big.Int // credit injected directly by the harness
	// host registry: node id -> connection id it most recently registered on; open set
	current map[string]int
	open    map[int]bool
}

func newPoolModel(cfg sessCfg) *poolModel {
	return &poolModel{cfg: cfg, st: so.NewModel(), deposits: map[store.Account]*big.Int{}, settled: new(big.Int), granted: new(big.Int), current: map[string]int{}, open: map[int]bool{}}
}

func (m *poolModel) spendable(id string) (*big.Int, store.Balance) {
	b, err := m.st.GetNodeBalance(store.NodeID(id))
	if err != nil {
		return new(big.Int), b
	}
	total := new(big.Int).Set(&b.Credit)
	if m.cfg.Deposits && b.Account != "" {
		if d, ok := m.deposits[b.Account]; ok {
			total.Add(total, d)
			b.Deposit.Set(d)
		}
	}
	return total, b
}

// connect returns whether the pool must refuse the node for low balance
// ("must", "mustnot") given the property text.
func (m *poolModel) connect(id string, connID int, isHost bool, kind, payout string) (refuse bool, balance *big.Int) {
	if kind == "unknown" {
		kind = ""
	}
	// observed behaviour: the node record (with a fresh LastSeen) is written
	// before the balance check, also when the client is then refused.
	m.st.SetNode(store.Node{ID: store.NodeID(id), Kind: kind, IsHost: isHost, LastSeen: time.Now(), Payout: store.Account(payout)})
	m.open[connID] = true
	if isHost {
		m.current[id] = connID
	} else {
		delete(m.current, id) // a node that registers as a light client is no connected host any more
	}
	if m.cfg.NoManager || m.cfg.Min == nil || isHost {
		return false, nil
	}
	total, _ := m.spendable(id)
	return total.Cmp(m.cfg.Min) < 0, total
}

func (m *poolModel) closeConn(connID int) {
	delete(m.open, connID)
}

// liveHost reports whether the host's most recently registered connection is open.
func (m *poolModel) liveHost(id string) (int, bool) {
	c, ok := m.current[id]
	if !ok || !m.open[c] {
		return 0, false
	}
	return c, true
}

func (m *poolModel) numLive() int {
	n := 0
	for id := range m.current {
		if _, ok := m.liveHost(id); ok {
			n++
		}
	}
	return n
}

type updateExpect struct {
	Unregistered bool
	Invalid      []string
	Active       []string // node ids
	PerPeer      *big.Int // credit per active peer (0 if none)
	Charge       *big.Int // total debited from the client
	After        *big.Int // spendable balance after the charge
	AfterBalance store.Balance
	Cutoff       string // "must", "mustnot", "either"
	Elapsed      time.Duration
	IsHost       bool
}

func floorCharge(elapsed time.Duration, price *big.Int, interval time.Duration) *big.Int {
	v := new(big.Int).Mul(big.NewInt(int64(elapsed)), price)
	return v.Div(v, big.NewInt(int64(interval))) // non-negative operands: floor
}

// update applies an accepted keep-alive of node id to the model and returns
// what the property prescribes.
func (m *poolModel) update(id string, reported []string, block uint64) updateExpect {
	var e updateExpect
	before, err := m.st.GetNode(store.NodeID(id))
	if err != nil {
		e.Unregistered = true
		return e
	}
	now := time.Now()
	e.IsHost = before.IsHost
	e.Elapsed = now.Sub(before.LastSeen)
	inactive, _ := m.st.UpdateNodePeers(store.NodeID(id), reported, block)
	for _, p := range inactive {
		e.Invalid = append(e.Invalid, string(p))
	}
	active, _ := m.st.NodePeers(store.NodeID(id))
	for _, p := range active {
		e.Active = append(e.Active, string(p.ID))
	}
	sort.Strings(e.Invalid)
	sort.Strings(e.Active)
	e.PerPeer, e.Charge = new(big.Int), new(big.Int)
	e.Cutoff = "mustnot"
	if m.cfg.NoManager {
		e.After = new(big.Int)
		return e
	}
	if !before.IsHost && e.Elapsed > 0 {
		e.PerPeer = floorCharge(e.Elapsed, m.cfg.Price, m.cfg.Interval)
		if e.PerPeer.Sign() > 0 {
			for _, p := range active {
				m.st.AddNodeBalance(p.ID, e.PerPeer)
				e.Charge.Add(e.Charge, e.PerPeer)
			}
			m.st.AddNodeBalance(store.NodeID(id), new(big.Int).Neg(e.Charge))
		}
	}
	e.After, e.AfterBalance = m.spendable(id)
	if m.cfg.Min != nil && !before.IsHost {
		below := e.After.Cmp(m.cfg.Min) < 0
		switch {
		case !below:
			e.Cutoff = "mustnot"
		case e.Charge.Sign() > 0:
			e.Cutoff = "must"
		default:
			// below the minimum but this keep-alive billed nothing: the
			// property only speaks about keep-alives that bill the client
			e.Cutoff = "either"
		}
	}
	return e
}

func (m *poolModel) ledgerTotal() *big.Int { return m.st.TotalCredit() }

func setEq(a, b []string) bool {
	a, b = sortedCopy(a), sortedCopy(b)
	return strings.Join(a, "\x00") == strings.Join(b, "\x00") && len(a) == len(b)
}
