// crashchild applies a JSON list of store operations to an on-disk badger
// store, acknowledging each one on stdout after it returned. The parent kills
// it with SIGKILL at a generated point and inspects the directory.
//
//	crashchild <dir> <ops.json> [migrate-only]
package main

import (
	"bufio"
	"encoding/json"
	"fmt"
	"os"

	"github.com/dgraph-io/badger/v2"
	badgerstore "github.com/vipnode/vipnode/v2/pool/store/badger"

	so "verif/storeops"
)

func main() {
	if len(os.Args) < 3 {
		fmt.Fprintln(os.Stderr, "usage: crashchild <dir> <ops.json>")
		os.Exit(2)
	}
	dir := os.Args[1]
	out := bufio.NewWriter(os.Stdout)
	say := func(f string, a ...interface{}) {
		fmt.Fprintf(out, f+"\n", a...)
		out.Flush()
	}
	say("OPENING")
	// the options the pool binary uses (pool.go): badger.DefaultOptions(dir)
	st, err := badgerstore.Open(badger.DefaultOptions(dir).WithLogger(nil))
	if err != nil {
		say("OPENFAIL %v", err)
		os.Exit(3)
	}
	say("READY")
	if len(os.Args) > 3 && os.Args[3] == "migrate-only" {
		st.Close()
		say("DONE")
		return
	}
	raw, err := os.ReadFile(os.Args[2])
	if err != nil {
		say("OPSFAIL %v", err)
		os.Exit(3)
	}
	var ops []so.Op
	if err := json.Unmarshal(raw, &ops); err != nil {
		say("OPSFAIL %v", err)
		os.Exit(3)
	}
	for i, o := range ops {
		r := so.Apply(st, o, so.CoarseTime)
		say("ACK %d %d %s", i+1, r.Nonce, r.Err)
	}
	st.Close()
	say("DONE")
}
