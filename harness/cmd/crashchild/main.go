// crashchild applies a JSON list of store operations to an on-disk badger
// store, acknowledging each one on stdout after it returned. The parent kills
// it with SIGKILL at a generated point and inspects the directory.
//
//	crashchild <dir> <ops.json> [migrate-only]
package main

import (
	"bufio"
	"encoding/json"
	"fmt"
	"os"

	"github.com/dgraph-io/badger/v2"
	badgerstore "github.com/vipnode/vipnode/v2/pool/store/badger"

	so "verif/storeops"
)

func main() {
	if len(os.Args) < 3 {
		fmt.Fprintln(os.Stderr, "usage: crashchild <dir> <ops.json>")
		os.Exit(2)
	}
	dir := os.Args[1]
	out := bufio.NewWriter(os.Stdout)
	say := func(f string, a ...interface{}) {
		fmt.Fprintf(out, f+"\n", a...)
		out.Flush()
	}
	say("OPENING")
	// the options the pool binary uses (pool.go): badger.DefaultOptions(dir).WithTruncate(true)
	st, err := badgerstore.Open(badger.DefaultOptions(dir).WithTruncate(true).WithLogger(nil))
	if err != nil {
		say("OPENFAIL %v", err)
		os.Exit(3)
	}
	say("READY")
	if len(os.Args) > 3 && os.Args[3] == "golden-write" {
		// writes the fixed fixture content (tools/mkgolden.sh)
		if err := so.GoldenWrite(st); err != nil {
			say("GOLDENFAIL %v", err)
			os.Exit(3)
		}
		st.Close()
		say("DONE")
		return
	}
	if len(os.Args) > 3 && os.Args[3] == "golden-observe" {
		// prints what every read of the fixture returns (the nonce probes at the end write: run it on a copy)
		for _, l := range so.GoldenObserve(st) {
			say("OBS %s", l)
		}
		st.Close()
		say("DONE")
		return
	}
	if len(os.Args) > 3 && os.Args[3] == "migrate-only" {
		st.Close()
		say("DONE")
		return
	}
	raw, err := os.ReadFile(os.Args[2])
	if err != nil {
		say("OPSFAIL %v", err)
		os.Exit(3)
	}
	var ops []so.Op
	if err := json.Unmarshal(raw, &ops); err != nil {
		say("OPSFAIL %v", err)
		os.Exit(3)
	}
	for i, o := range ops {
		r := so.Apply(st, o, so.CoarseTime)
		say("ACK %d %d %s", i+1, r.Nonce, r.Err)
	}
	st.Close()
	say("DONE")
}
