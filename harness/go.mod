module verif

go 1.26.8

require (
	github.com/dgraph-io/badger/v2 v2.0.3
	github.com/ethereum/go-ethereum v1.9.15
	github.com/gobwas/ws v1.0.2
	github.com/gorilla/websocket v1.4.2
	github.com/pborman/uuid v1.2.0
	github.com/vipnode/vipnode-contract v0.2.1
	github.com/vipnode/vipnode/v2 v2.0.0
	pgregory.net/rapid v1.3.0
)

require (
	github.com/DataDog/zstd v1.4.1 // indirect
	github.com/VictoriaMetrics/fastcache v1.5.7 // indirect
	github.com/aristanetworks/goarista v0.0.0-20200602234848-db8a79a18e4a // indirect
	github.com/cespare/xxhash v1.1.0 // indirect
	github.com/cespare/xxhash/v2 v2.1.1 // indirect
	github.com/davecgh/go-spew v1.1.1 // indirect
	github.com/deckarep/golang-set v1.7.1 // indirect
	github.com/dgraph-io/ristretto v0.0.2 // indirect
	github.com/dgryski/go-farm v0.0.0-20200201041132-a6ae2369ad13 // indirect
	github.com/dustin/go-humanize v1.0.0 // indirect
	github.com/edsrzf/mmap-go v1.0.0 // indirect
	github.com/gballet/go-libpcsclite v0.0.0-20191108122812-4678299bea08 // indirect
	github.com/go-stack/stack v1.8.0 // indirect
	github.com/gobwas/httphead v0.0.0-20180130184737-2c6c146eadee // indirect
	github.com/gobwas/pool v0.2.0 // indirect
	github.com/golang/protobuf v1.4.2 // indirect
	github.com/golang/snappy v0.0.1 // indirect
	github.com/google/uuid v1.1.1 // indirect
	github.com/hashicorp/golang-lru v0.5.4 // indirect
	github.com/huin/goupnp v1.0.0 // indirect
	github.com/jackpal/go-nat-pmp v1.0.2 // indirect
	github.com/karalabe/usb v0.0.0-20191104083709-911d15fe12a9 // indirect
	github.com/mattn/go-runewidth v0.0.9 // indirect
	github.com/olekukonko/tablewriter v0.0.4 // indirect
	github.com/peterh/liner v1.2.0 // indirect
	github.com/pkg/errors v0.9.1 // indirect
	github.com/prometheus/tsdb v0.10.0 // indirect
	github.com/rjeczalik/notify v0.9.2 // indirect
	github.com/shirou/gopsutil v2.20.5+incompatible // indirect
	github.com/status-im/keycard-go v0.0.0-20200402102358-957c09536969 // indirect
	github.com/steakknife/bloomfilter v0.0.0-20180922174646-6819c0d2a570 // indirect
	github.com/steakknife/hamming v0.0.0-20180906055917-c99c65617cd3 // indirect
	github.com/syndtr/goleveldb v1.0.1-0.20190923125748-758128399b1d // indirect
	github.com/tyler-smith/go-bip39 v1.0.2 // indirect
	github.com/vipnode/ether v0.0.0-20181219204546-d717f248a245 // indirect
	github.com/wsddn/go-ecdh v0.0.0-20161211032359-48726bab9208 // indirect
	golang.org/x/crypto v0.0.0-20200604202706-70a84ac30bf9 // indirect
	golang.org/x/net v0.0.0-20200602114024-627f9648deb9 // indirect
	golang.org/x/sys v0.0.0-20200610111108-226ff32320da // indirect
	golang.org/x/text v0.3.2 // indirect
	google.golang.org/protobuf v1.24.0 // indirect
)

replace github.com/vipnode/vipnode/v2 => /repo
