// Package storeops defines a serialisable vocabulary of store operations, a
// reference model of the documented store contract (pool/store/store.go) and
// canonical observations, shared by the differential checks (C12), the nonce
// and peer-expiry checks (C05, C11), the durability checks (C13) and the
// SIGKILL child process.
package storeops

import (
	"fmt"
	"math/big"
	"sort"
	"strings"
	"time"

	"github.com/vipnode/vipnode/v2/pool/store"
)

// Op is one store operation with all arguments explicit (times are relative to
// "now" so that a sequence can be replayed at any wall-clock or virtual time).
type Op struct {
	K       string   `json:"k"`
	Node    string   `json:"node,omitempty"`
	Acct    string   `json:"acct,omitempty"`
	Peers   []string `json:"peers,omitempty"`
	Amount  string   `json:"amount,omitempty"` // decimal big integer
	Kind    string   `json:"kind,omitempty"`
	IsHost  bool     `json:"is_host,omitempty"`
	AgeNs   int64    `json:"age_ns,omitempty"` // SetNode: LastSeen = now - AgeNs
	Block   uint64   `json:"block,omitempty"`
	Limit   int      `json:"limit,omitempty"`
	DeltaNs int64    `json:"delta_ns,omitempty"` // nonce = now + DeltaNs ; advance: sleep DeltaNs
	URI     string   `json:"uri,omitempty"`
}

func (o Op) String() string {
	switch o.K {
	case "SetNode":
		return fmt.Sprintf("SetNode(%q host=%v kind=%q age=%s)", o.Node, o.IsHost, o.Kind, time.Duration(o.AgeNs))
	case "GetNode", "NodePeers", "GetNodeBalance":
		return fmt.Sprintf("%s(%q)", o.K, o.Node)
	case "UpdateNodePeers":
		return fmt.Sprintf("UpdateNodePeers(%q, %q, block=%d)", o.Node, o.Peers, o.Block)
	case "AddNodeBalance":
		return fmt.Sprintf("AddNodeBalance(%q, %s)", o.Node, o.Amount)
	case "AddAccountBalance":
		return fmt.Sprintf("AddAccountBalance(%q, %s)", o.Acct, o.Amount)
	case "GetAccountBalance", "GetAccountNodes":
		return fmt.Sprintf("%s(%q)", o.K, o.Acct)
	case "AddAccountNode", "IsAccountNode":
		return fmt.Sprintf("%s(%q, %q)", o.K, o.Acct, o.Node)
	case "ActiveHosts":
		return fmt.Sprintf("ActiveHosts(%q, %d)", o.Kind, o.Limit)
	case "Nonce":
		return fmt.Sprintf("CheckAndSaveNonce(%q, now%+d)", o.Node, o.DeltaNs)
	case "Advance":
		return fmt.Sprintf("advance(%s)", time.Duration(o.DeltaNs))
	}
	return o.K
}

// Result is the canonical outcome of an operation.
type Result struct {
	Err   string   // "" or the error text
	Val   string   // canonical scalar value
	Set   []string // canonical set-valued result (sorted)
	Cand  []string // ActiveHosts only (model): every eligible host, canonical
	Need  int      // ActiveHosts only (model): required result size
	Nonce int64    // Nonce ops: the absolute nonce that was submitted
}

func (r Result) String() string {
	if r.Err != "" {
		return "error(" + r.Err + ")"
	}
	if r.Set != nil {
		return r.Val + "{" + strings.Join(r.Set, " ; ") + "}"
	}
	return r.Val
}

func errText(err error) string {
	if err == nil {
		return ""
	}
	return err.Error()
}

// TimeCanon renders a timestamp; the default is exact nanoseconds.
type TimeCanon func(time.Time) string

func ExactTime(t time.Time) string {
	if t.IsZero() {
		return "zero"
	}
	return fmt.Sprint(t.UnixNano())
}

func CanonNode(n store.Node, tc TimeCanon) string {
	return fmt.Sprintf("Node{id=%q uri=%q seen=%s kind=%q host=%v payout=%q block=%d nv=%q vv=%q}", n.ID, n.URI, tc(n.LastSeen), n.Kind, n.IsHost, n.Payout, n.BlockNumber, n.NodeVersion, n.VipnodeVersion)
}

func CanonBalance(b store.Balance) string {
	nw := "zero"
	if !b.NextWithdraw.IsZero() {
		nw = fmt.Sprint(b.NextWithdraw.UnixNano())
	}
	return fmt.Sprintf("Balance{account=%q credit=%s deposit=%s next=%s}", b.Account, b.Credit.String(), b.Deposit.String(), nw)
}

func amount(s string) *big.Int {
	if s == "" {
		return new(big.Int)
	}
	v, ok := new(big.Int).SetString(s, 10)
	if !ok {
		panic("bad amount " + s)
	}
	return v
}

// NodeOf builds the node record a SetNode op stores at time now.
func NodeOf(o Op, now time.Time) store.Node {
	return store.Node{
		ID: store.NodeID(o.Node), URI: o.URI, LastSeen: now.Add(-time.Duration(o.AgeNs)), Kind: o.Kind, IsHost: o.IsHost,
		Payout: store.Account(o.Acct), BlockNumber: o.Block, NodeVersion: "nv", VipnodeVersion: "vv",
	}
}

// Apply runs the operation against a real driver. "now" must be time.Now() as
// the driver sees it (virtual time inside a synctest bubble).
func Apply(s store.Store, o Op, tc TimeCanon) Result {
	now := time.Now()
	switch o.K {
	case "SetNode":
		return Result{Err: errText(s.SetNode(NodeOf(o, now)))}
	case "GetNode":
		n, err := s.GetNode(store.NodeID(o.Node))
		if err != nil {
			return Result{Err: err.Error()}
		}
		return Result{Val: CanonNode(*n, tc)}
	case "NodePeers":
		ns, err := s.NodePeers(store.NodeID(o.Node))
		if err != nil {
			return Result{Err: err.Error()}
		}
		set := []string{}
		for _, n := range ns {
			set = append(set, CanonNode(n, tc))
		}
		sort.Strings(set)
		return Result{Set: set}
	case "UpdateNodePeers":
		inactive, err := s.UpdateNodePeers(store.NodeID(o.Node), o.Peers, o.Block)
		if err != nil {
			return Result{Err: err.Error()}
		}
		set := []string{}
		for _, id := range inactive {
			set = append(set, string(id))
		}
		sort.Strings(set)
		return Result{Set: set}
	case "GetNodeBalance":
		b, err := s.GetNodeBalance(store.NodeID(o.Node))
		if err != nil {
			return Result{Err: err.Error()}
		}
		return Result{Val: CanonBalance(b)}
	case "AddNodeBalance":
		return Result{Err: errText(s.AddNodeBalance(store.NodeID(o.Node), amount(o.Amount)))}
	case "GetAccountBalance":
		b, err := s.GetAccountBalance(store.Account(o.Acct))
		if err != nil {
			return Result{Err: err.Error()}
		}
		return Result{Val: CanonBalance(b)}
	case "AddAccountBalance":
		return Result{Err: errText(s.AddAccountBalance(store.Account(o.Acct), amount(o.Amount)))}
	case "AddAccountNode":
		return Result{Err: errText(s.AddAccountNode(store.Account(o.Acct), store.NodeID(o.Node)))}
	case "IsAccountNode":
		return Result{Err: errText(s.IsAccountNode(store.Account(o.Acct), store.NodeID(o.Node)))}
	case "GetAccountNodes":
		ids, err := s.GetAccountNodes(store.Account(o.Acct))
		if err != nil {
			return Result{Err: err.Error()}
		}
		set := []string{}
		for _, id := range ids {
			set = append(set, string(id))
		}
		sort.Strings(set)
		return Result{Set: set}
	case "ActiveHosts":
		ns, err := s.ActiveHosts(o.Kind, o.Limit)
		if err != nil {
			return Result{Err: err.Error()}
		}
		set := []string{}
		for _, n := range ns {
			set = append(set, CanonNode(n, tc))
		}
		sort.Strings(set)
		return Result{Set: set}
	case "Nonce":
		n := now.UnixNano() + o.DeltaNs
		return Result{Err: errText(s.CheckAndSaveNonce(o.Node, n)), Nonce: n}
	case "Stats":
		st, err := s.Stats()
		if err != nil {
			return Result{Err: err.Error()}
		}
		return Result{Val: CanonStats(st)}
	}
	panic("unknown op " + o.K)
}

func CanonStats(st *store.Stats) string {
	return fmt.Sprintf("Stats{hosts=%d/%d clients=%d/%d block=%d credit=%s deposit=%s trials=%d}", st.NumActiveHosts, st.NumTotalHosts,
		st.NumActiveClients, st.NumTotalClients, st.LatestBlockNumber, st.TotalCredit.String(), st.TotalDeposit.String(), st.NumTrialBalances)
}

// Observe reads everything observable through the store interface for the
// given alphabets and renders it canonically (one line per fact).
func Observe(s store.Store, nodes, accts []string, tc TimeCanon, withStats bool) []string {
	var out []string
	add := func(o Op) {
		r := Apply(s, o, tc)
		out = append(out, o.String()+" = "+r.String())
	}
	for _, n := range nodes {
		add(Op{K: "GetNode", Node: n})
		add(Op{K: "NodePeers", Node: n})
		add(Op{K: "GetNodeBalance", Node: n})
		for _, a := range accts {
			add(Op{K: "IsAccountNode", Node: n, Acct: a})
		}
	}
	for _, a := range accts {
		add(Op{K: "GetAccountBalance", Acct: a})
		add(Op{K: "GetAccountNodes", Acct: a})
	}
	if withStats {
		add(Op{K: "Stats"})
	}
	return out
}

// CoarseTime renders a timestamp as "recent" (within the last hour or in the
// future) or "old"; used where two processes cannot agree on exact instants.
func CoarseTime(t time.Time) string {
	if t.IsZero() {
		return "zero"
	}
	if time.Since(t) < time.Hour {
		return "recent"
	}
	return "old"
}
