package storeops

// A fixed store content ("golden database"): written once by the driver of the
// tree the checks were built against and kept under /verif/fixtures together
// with what every read returned at that time. Any later tree must read the
// same database back identically - a change of the on-disk layout without a
// migration shows up as a difference.

import (
	"fmt"
	"math/big"
	"time"

	"github.com/vipnode/vipnode/v2/pool/store"
)

func goldenID(i int) string { return fmt.Sprintf("%0128x", 0x601d00+i) }

var (
	GoldenNodes = []string{goldenID(0), goldenID(1), goldenID(2), goldenID(3), "short-id"}
	// wallets as wallets are spelled in practice: lower-case hex, EIP-55, and a non-address account name
	GoldenAccts = []string{"0x52908400098527886e0f7030069857d2e4169ee7", "0x5aAeb6053F3E94C9b9A09f33669435E7Ef1BeAed", "acct-plain"}
	farFuture   = time.Date(2200, 1, 1, 0, 0, 0, 0, time.UTC)
	longAgo     = time.Date(2020, 1, 1, 0, 0, 0, 0, time.UTC)
	// a nonce far ahead of any clock this fixture will ever be read with (its record must not have expired)
	GoldenNonce = farFuture.UnixNano()
)

func bigOf(s string) *big.Int {
	v, _ := new(big.Int).SetString(s, 10)
	return v
}

// GoldenWrite fills an empty store with the fixed content.
func GoldenWrite(s store.Store) error {
	nodes := []store.Node{
		{ID: store.NodeID(GoldenNodes[0]), URI: "enode://" + GoldenNodes[0] + "@192.0.2.1:30303", LastSeen: farFuture, Kind: "geth", IsHost: true, Payout: store.Account(GoldenAccts[0]), NodeVersion: "Geth/v1", VipnodeVersion: "2.0", BlockNumber: 1234567},
		{ID: store.NodeID(GoldenNodes[1]), LastSeen: longAgo, Kind: "parity", IsHost: false, NodeVersion: "Parity/v2"},
		{ID: store.NodeID(GoldenNodes[2]), URI: "enode://" + GoldenNodes[2] + "@[2001:db8::2]:30304", LastSeen: farFuture, Kind: "parity", IsHost: true},
		{ID: store.NodeID(GoldenNodes[3]), LastSeen: farFuture, Kind: "geth", IsHost: false},
		{ID: store.NodeID(GoldenNodes[4]), LastSeen: longAgo, Kind: "", IsHost: true, URI: "enode://short-id@198.51.100.7:30303"},
	}
	for _, n := range nodes {
		if err := s.SetNode(n); err != nil {
			return err
		}
	}
	steps := []func() error{
		func() error { return s.AddNodeBalance(nodes[0].ID, bigOf("340282366920938463463374607431768211457")) },
		func() error { return s.AddNodeBalance(nodes[1].ID, bigOf("-18446744073709551617")) },
		func() error { return s.AddNodeBalance(nodes[3].ID, bigOf("42")) },
		func() error { return s.AddAccountNode(store.Account(GoldenAccts[0]), nodes[0].ID) },
		func() error { return s.AddAccountNode(store.Account(GoldenAccts[0]), nodes[1].ID) },
		func() error { return s.AddAccountNode(store.Account(GoldenAccts[1]), nodes[2].ID) },
		func() error { return s.AddNodeBalance(nodes[2].ID, bigOf("777")) },
		func() error { return s.AddAccountBalance(store.Account(GoldenAccts[1]), bigOf("-1000")) },
		func() error { return s.AddAccountBalance(store.Account(GoldenAccts[2]), bigOf("-5")) },
		func() error {
			_, err := s.UpdateNodePeers(nodes[3].ID, []string{GoldenNodes[0], GoldenNodes[2], "unknown-peer"}, 99)
			return err
		},
		func() error {
			_, err := s.UpdateNodePeers(nodes[0].ID, []string{GoldenNodes[3]}, 1234568)
			return err
		},
		// fixed check-in times again (the keep-alives above stamped the current time)
		func() error { n := nodes[3]; n.BlockNumber = 99; return s.SetNode(n) },
		func() error { n := nodes[0]; n.BlockNumber = 1234568; return s.SetNode(n) },
		func() error { return s.CheckAndSaveNonce(GoldenNodes[0], GoldenNonce) },
		func() error { return s.CheckAndSaveNonce(GoldenAccts[0], GoldenNonce+5) },
	}
	for i, f := range steps {
		if err := f(); err != nil {
			return fmt.Errorf("golden step %d: %v", i, err)
		}
	}
	return nil
}

// GoldenObserve reads everything back (and, last, probes the saved nonces, which writes).
func GoldenObserve(s store.Store) []string {
	out := Observe(s, GoldenNodes, GoldenAccts, ExactTime, true)
	for _, kind := range []string{"", "geth", "parity"} {
		hosts, err := s.ActiveHosts(kind, 0)
		var ids []string
		for _, h := range hosts {
			ids = append(ids, string(h.ID)[:8]+"…"+h.URI)
		}
		sortStrings(ids)
		out = append(out, fmt.Sprintf("ActiveHosts(%q) = %v err=%v", kind, ids, err))
	}
	out = append(out, fmt.Sprintf("replay of the saved node nonce = %v", s.CheckAndSaveNonce(GoldenNodes[0], GoldenNonce)))
	out = append(out, fmt.Sprintf("older wallet nonce = %v", s.CheckAndSaveNonce(GoldenAccts[0], GoldenNonce+4)))
	out = append(out, fmt.Sprintf("next wallet nonce = %v", s.CheckAndSaveNonce(GoldenAccts[0], GoldenNonce+6)))
	out = append(out, fmt.Sprintf("first nonce of another id = %v", s.CheckAndSaveNonce(GoldenNodes[2], GoldenNonce)))
	return out
}

func sortStrings(s []string) {
	for i := 1; i < len(s); i++ {
		for j := i; j > 0 && s[j] < s[j-1]; j-- {
			s[j], s[j-1] = s[j-1], s[j]
		}
	}
}
