package storeops

import (
	"math/big"
	"sort"
	"sync"
	"time"

	"github.com/vipnode/vipnode/v2/pool/store"
)

// Model is the reference implementation of the documented store contract
// (pool/store/store.go), written from the interface comments and the property
// statements; facets neither decides are marked "observed contract" (both
// drivers agree on them). It implements store.Store so that the same Apply /
// Observe code drives it, except that ActiveHosts ignores the limit and
// returns every eligible host (callers check subset + size).
type Model struct {
	mu       sync.Mutex
	Now      func() time.Time
	nodes    map[store.NodeID]store.Node
	tracked  map[store.NodeID]map[store.NodeID]time.Time // node -> peer -> peer's LastSeen when last reported
	link     map[store.NodeID]store.Account
	wallets  map[store.Account]*big.Int // created by AddAccountBalance / AddAccountNode
	trials   map[store.NodeID]*big.Int  // created by AddNodeBalance on an unlinked node
	nonces   map[string]int64
	hasNonce map[string]bool
}

var _ store.Store = &Model{}

func NewModel() *Model {
	return &Model{
		Now:      time.Now,
		nodes:    map[store.NodeID]store.Node{},
		tracked:  map[store.NodeID]map[store.NodeID]time.Time{},
		link:     map[store.NodeID]store.Account{},
		wallets:  map[store.Account]*big.Int{},
		trials:   map[store.NodeID]*big.Int{},
		nonces:   map[string]int64{},
		hasNonce: map[string]bool{},
	}
}

// NonceVerdict: "accept", "reject", or "either" (exactly on the freshness
// boundary, which the property text does not decide).
func (m *Model) NonceVerdict(id string, nonce int64) string {
	m.mu.Lock()
	defer m.mu.Unlock()
	return m.nonceVerdict(id, nonce)
}

func (m *Model) nonceVerdict(id string, nonce int64) string {
	if m.hasNonce[id] && nonce <= m.nonces[id] {
		return "reject"
	}
	limit := m.Now().Add(-store.ExpireNonce).UnixNano()
	if nonce < limit {
		return "reject"
	}
	if nonce == limit {
		return "either"
	}
	return "accept"
}

// CommitNonce records the decision the implementation took in the "either" case.
func (m *Model) CommitNonce(id string, nonce int64) {
	m.mu.Lock()
	defer m.mu.Unlock()
	m.nonces[id] = nonce
	m.hasNonce[id] = true
}

func (m *Model) CheckAndSaveNonce(id string, nonce int64) error {
	m.mu.Lock()
	defer m.mu.Unlock()
	if m.nonceVerdict(id, nonce) == "reject" {
		return store.ErrInvalidNonce
	}
	m.nonces[id] = nonce
	m.hasNonce[id] = true
	return nil
}

func (m *Model) GetNode(id store.NodeID) (*store.Node, error) {
	m.mu.Lock()
	defer m.mu.Unlock()
	n, ok := m.nodes[id]
	if !ok {
		return nil, store.ErrUnregisteredNode
	}
	return &n, nil
}

func (m *Model) SetNode(n store.Node) error {
	if n.ID == "" {
		return store.ErrMalformedNode
	}
	m.mu.Lock()
	defer m.mu.Unlock()
	// observed contract (both drivers, after the memory driver was repaired):
	// re-registering a node keeps the peers it is tracked with.
	m.nodes[n.ID] = n
	return nil
}

func (m *Model) active(n store.Node, now time.Time) bool {
	return n.LastSeen.After(now.Add(-store.ExpireInterval))
}

// ActiveHosts returns EVERY eligible host (limit is ignored, see type comment).
func (m *Model) ActiveHosts(kind string, limit int) ([]store.Node, error) {
	m.mu.Lock()
	defer m.mu.Unlock()
	now := m.Now()
	var r []store.Node
	for _, n := range m.nodes {
		if n.IsHost && (kind == "" || n.Kind == kind) && m.active(n, now) {
			r = append(r, n)
		}
	}
	sort.Slice(r, func(i, j int) bool { return r[i].ID < r[j].ID })
	return r, nil
}

func (m *Model) NodePeers(id store.NodeID) ([]store.Node, error) {
	m.mu.Lock()
	defer m.mu.Unlock()
	if _, ok := m.nodes[id]; !ok {
		return nil, store.ErrUnregisteredNode
	}
	var r []store.Node
	for p := range m.tracked[id] {
		if n, ok := m.nodes[p]; ok {
			r = append(r, n)
		}
	}
	sort.Slice(r, func(i, j int) bool { return r[i].ID < r[j].ID })
	return r, nil
}

func (m *Model) UpdateNodePeers(id store.NodeID, peers []string, block uint64) ([]store.NodeID, error) {
	m.mu.Lock()
	defer m.mu.Unlock()
	n, ok := m.nodes[id]
	if !ok {
		return nil, store.ErrUnregisteredNode
	}
	now := m.Now()
	n.LastSeen = now
	n.BlockNumber = block
	m.nodes[id] = n
	if m.tracked[id] == nil {
		m.tracked[id] = map[store.NodeID]time.Time{}
	}
	for _, p := range peers {
		if pn, ok := m.nodes[store.NodeID(p)]; ok {
			m.tracked[id][pn.ID] = pn.LastSeen
		}
	}
	var inactive []store.NodeID
	deadline := now.Add(-store.ExpireInterval)
	for p, seen := range m.tracked[id] {
		if !seen.After(deadline) {
			inactive = append(inactive, p)
			delete(m.tracked[id], p)
		}
	}
	sort.Slice(inactive, func(i, j int) bool { return inactive[i] < inactive[j] })
	return inactive, nil
}

// TrackedSeen exposes the model's bookkeeping for boundary detection.
func (m *Model) TrackedSeen(id store.NodeID) map[store.NodeID]time.Time {
	m.mu.Lock()
	defer m.mu.Unlock()
	r := map[store.NodeID]time.Time{}
	for k, v := range m.tracked[id] {
		r[k] = v
	}
	return r
}

func (m *Model) GetNodeBalance(id store.NodeID) (store.Balance, error) {
	m.mu.Lock()
	defer m.mu.Unlock()
	if _, ok := m.nodes[id]; !ok {
		return store.Balance{}, store.ErrUnregisteredNode
	}
	if a, ok := m.link[id]; ok {
		return m.walletBalance(a), nil
	}
	var b store.Balance
	if c, ok := m.trials[id]; ok {
		b.Credit.Set(c)
	}
	return b, nil
}

func (m *Model) walletBalance(a store.Account) store.Balance {
	var b store.Balance
	if c, ok := m.wallets[a]; ok {
		b.Account = a
		b.Credit.Set(c)
	}
	return b
}

func (m *Model) AddNodeBalance(id store.NodeID, credit *big.Int) error {
	m.mu.Lock()
	defer m.mu.Unlock()
	if _, ok := m.nodes[id]; !ok {
		return store.ErrUnregisteredNode
	}
	if a, ok := m.link[id]; ok {
		m.addWallet(a, credit)
		return nil
	}
	if m.trials[id] == nil {
		m.trials[id] = new(big.Int)
	}
	m.trials[id].Add(m.trials[id], credit)
	return nil
}

func (m *Model) addWallet(a store.Account, credit *big.Int) {
	if m.wallets[a] == nil {
		m.wallets[a] = new(big.Int)
	}
	m.wallets[a].Add(m.wallets[a], credit)
}

func (m *Model) GetAccountBalance(a store.Account) (store.Balance, error) {
	m.mu.Lock()
	defer m.mu.Unlock()
	return m.walletBalance(a), nil
}

func (m *Model) AddAccountBalance(a store.Account, credit *big.Int) error {
	m.mu.Lock()
	defer m.mu.Unlock()
	m.addWallet(a, credit)
	return nil
}

func (m *Model) AddAccountNode(a store.Account, id store.NodeID) error {
	m.mu.Lock()
	defer m.mu.Unlock()
	if _, ok := m.nodes[id]; !ok {
		return store.ErrUnregisteredNode
	}
	// the trial credit is migrated exactly once: it moves to the wallet and the
	// trial record disappears. observed contract: re-linking to another wallet
	// moves the node, not the credit already migrated.
	trial := new(big.Int)
	if c, ok := m.trials[id]; ok {
		trial.Set(c)
		delete(m.trials, id)
	}
	m.addWallet(a, trial)
	m.link[id] = a
	return nil
}

func (m *Model) IsAccountNode(a store.Account, id store.NodeID) error {
	m.mu.Lock()
	defer m.mu.Unlock()
	if got, ok := m.link[id]; ok && got == a {
		return nil
	}
	return store.ErrNotAuthorized
}

func (m *Model) GetAccountNodes(a store.Account) ([]store.NodeID, error) {
	m.mu.Lock()
	defer m.mu.Unlock()
	var r []store.NodeID
	for id, got := range m.link {
		if got == a {
			r = append(r, id)
		}
	}
	sort.Slice(r, func(i, j int) bool { return r[i] < r[j] })
	return r, nil
}

func (m *Model) Stats() (*store.Stats, error) {
	m.mu.Lock()
	defer m.mu.Unlock()
	now := m.Now()
	st := &store.Stats{}
	for _, n := range m.nodes {
		if n.IsHost {
			st.NumTotalHosts++
			if m.active(n, now) {
				st.NumActiveHosts++
			}
		} else {
			st.NumTotalClients++
			if m.active(n, now) {
				st.NumActiveClients++
			}
		}
		if n.BlockNumber > st.LatestBlockNumber {
			st.LatestBlockNumber = n.BlockNumber
		}
	}
	for a, c := range m.wallets {
		st.TotalCredit.Add(&st.TotalCredit, c)
		if a == "" {
			// a balance record without an account name is what the
			// dashboard counts as a trial (store.Stats.CountBalance)
			st.NumTrialBalances++
		}
	}
	for _, c := range m.trials {
		st.TotalCredit.Add(&st.TotalCredit, c)
		st.NumTrialBalances++
	}
	return st, nil
}

func (m *Model) Close() error { return nil }

// TotalCredit is the ledger total (wallets + trials).
func (m *Model) TotalCredit() *big.Int {
	st, _ := m.Stats()
	return new(big.Int).Set(&st.TotalCredit)
}

// Clone returns a deep copy (used to predict the effect of an operation).
func (m *Model) Clone() *Model {
	m.mu.Lock()
	defer m.mu.Unlock()
	c := NewModel()
	c.Now = m.Now
	for k, v := range m.nodes {
		c.nodes[k] = v
	}
	for k, v := range m.tracked {
		c.tracked[k] = map[store.NodeID]time.Time{}
		for p, t := range v {
			c.tracked[k][p] = t
		}
	}
	for k, v := range m.link {
		c.link[k] = v
	}
	for k, v := range m.wallets {
		c.wallets[k] = new(big.Int).Set(v)
	}
	for k, v := range m.trials {
		c.trials[k] = new(big.Int).Set(v)
	}
	for k, v := range m.nonces {
		c.nonces[k] = v
	}
	for k, v := range m.hasNonce {
		c.hasNonce[k] = v
	}
	return c
}

// LastNonce returns the highest nonce accepted for id so far.
func (m *Model) LastNonce(id string) (int64, bool) {
	m.mu.Lock()
	defer m.mu.Unlock()
	return m.nonces[id], m.hasNonce[id]
}
