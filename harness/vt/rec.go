// Package vt holds the harness plumbing shared by every property check:
// the evidence recorder (case accounting, samples, class histogram), seed and
// tier handling, and known-finding bookkeeping.
package vt

import (
	"encoding/json"
	"fmt"
	"hash/fnv"
	"os"
	"runtime"
	"sort"
	"strconv"
	"strings"
	"sync"
	"time"
)

// Rec accumulates what one test process explored for one property.
type Rec struct {
	mu          sync.Mutex
	id          string
	level       string
	rules       []string
	evals       int
	sigs        map[uint64]struct{}
	classes     map[string]int
	samples     []interface{}
	excluded    map[string]int
	assumptions []string
	exhaustive  *bool
	extra       map[string]interface{}
	start       time.Time
}

var (
	regMu sync.Mutex
	reg   = map[string]*Rec{}
)

// For returns the (process-wide) recorder of a property.
func For(id string) *Rec {
	regMu.Lock()
	defer regMu.Unlock()
	r, ok := reg[id]
	if !ok {
		r = &Rec{id: id, level: "exploration", sigs: map[uint64]struct{}{}, classes: map[string]int{}, excluded: map[string]int{}, extra: map[string]interface{}{}, start: time.Now()}
		reg[id] = r
	}
	return r
}

// Rule states (once per sub-check) how cases are generated and what makes one
// non-trivial / distinct.
func (r *Rec) Rule(s string) {
	r.mu.Lock()
	defer r.mu.Unlock()
	for _, x := range r.rules {
		if x == s {
			return
		}
	}
	r.rules = append(r.rules, s)
}

func (r *Rec) Level(l string) { r.mu.Lock(); r.level = l; r.mu.Unlock() }

func (r *Rec) Assume(s string) {
	r.mu.Lock()
	defer r.mu.Unlock()
	for _, x := range r.assumptions {
		if x == s {
			return
		}
	}
	r.assumptions = append(r.assumptions, s)
}

// Case records one completed generated case. sig is its canonical signature
// (config + op kinds + outcome classes); nontrivial says whether it meets the
// property's stated non-triviality rule; classes feed the histogram; sample is
// evaluated lazily only when the case is kept as a sample.
func (r *Rec) Case(sig string, nontrivial bool, classes []string, sample func() interface{}) {
	Tick("case of " + r.id)
	r.mu.Lock()
	defer r.mu.Unlock()
	r.evals++
	for _, c := range classes {
		r.classes[c]++
	}
	if !nontrivial {
		r.classes["_trivial"]++
		return
	}
	h := fnv.New64a()
	h.Write([]byte(sig))
	k := h.Sum64()
	_, seen := r.sigs[k]
	r.sigs[k] = struct{}{}
	if seen || sample == nil {
		return
	}
	// keep the first 3 distinct non-trivial cases and then every 2^k-th.
	n := len(r.sigs)
	if len(r.samples) < 3 || (n&(n-1) == 0 && len(r.samples) < 12) {
		r.samples = append(r.samples, sample())
	}
}

// Count bumps a class counter without recording a case.
func (r *Rec) Count(class string, n int) {
	r.mu.Lock()
	r.classes[class] += n
	r.mu.Unlock()
}

// Excluded counts inputs left out by construction because they hit a listed
// known finding.
func (r *Rec) Excluded(key string, n int) {
	r.mu.Lock()
	r.excluded[key] += n
	r.mu.Unlock()
}

func (r *Rec) Extra(k string, v interface{}) {
	r.mu.Lock()
	r.extra[k] = v
	r.mu.Unlock()
}

func (r *Rec) Exhaustive(b bool) { r.mu.Lock(); r.exhaustive = &b; r.mu.Unlock() }

type partial struct {
	ID          string                 `json:"property_id"`
	Level       string                 `json:"level"`
	Tier        string                 `json:"tier"`
	Seed        int64                  `json:"seed"`
	Evals       int                    `json:"evaluations"`
	Sigs        []string               `json:"sigs"`
	Rules       []string               `json:"rules"`
	Classes     map[string]int         `json:"classes"`
	Samples     []interface{}          `json:"samples"`
	Excluded    map[string]int         `json:"excluded_known"`
	Assumptions []string               `json:"assumptions"`
	Exhaustive  *bool                  `json:"exhaustive,omitempty"`
	Extra       map[string]interface{} `json:"extra"`
	WallS       float64                `json:"wall_s"`
}

// Flush writes every recorder as a partial evidence file into
// $VERIF_PARTIAL_DIR (the driver merges the partials of all shards and
// sub-checks into /verif/evidence/<id>.json). No-op when the variable is unset.
func Flush() {
	dir := os.Getenv("VERIF_PARTIAL_DIR")
	if dir == "" {
		return
	}
	tag := os.Getenv("VERIF_SHARD")
	if tag == "" {
		tag = strconv.Itoa(os.Getpid())
	}
	regMu.Lock()
	defer regMu.Unlock()
	for id, r := range reg {
		r.mu.Lock()
		p := partial{ID: id, Level: r.level, Tier: Tier(), Seed: Seed(), Evals: r.evals, Rules: r.rules, Classes: r.classes,
			Samples: r.samples, Excluded: r.excluded, Assumptions: r.assumptions, Exhaustive: r.exhaustive, Extra: r.extra,
			WallS: time.Since(r.start).Seconds()}
		for k := range r.sigs {
			p.Sigs = append(p.Sigs, strconv.FormatUint(k, 16))
		}
		sort.Strings(p.Sigs)
		r.mu.Unlock()
		b, err := json.Marshal(p)
		if err != nil {
			fmt.Fprintf(os.Stderr, "vt: cannot marshal evidence for %s: %v\n", id, err)
			continue
		}
		os.WriteFile(fmt.Sprintf("%s/%s.%s.json", dir, id, tag), b, 0o644)
	}
}

// Tier is "quick" or "thorough".
func Tier() string {
	if t := os.Getenv("VERIF_TIER"); t == "thorough" {
		return t
	}
	return "quick"
}

func Thorough() bool { return Tier() == "thorough" }

// Seed is the VERIF_SEED value this process was given (shard offset applied by the driver).
func Seed() int64 {
	n, err := strconv.ParseInt(os.Getenv("VERIF_SEED"), 10, 64)
	if err != nil {
		return 1
	}
	return n
}

// Scale returns q in the quick tier and th in the thorough tier, both
// multiplied by VERIF_SCALE when set (used to size per-shard work).
func Scale(q, th int) int {
	n := q
	if Thorough() {
		n = th
	}
	if s, err := strconv.ParseFloat(os.Getenv("VERIF_SCALE"), 64); err == nil && s > 0 {
		n = int(float64(n) * s)
		if n < 1 {
			n = 1
		}
	}
	return n
}

// ---------------------------------------------------------------------------
// Known findings

type Finding struct {
	Status   string // "known" or "fixed"
	Property string
	Key      string
	Text     string
}

var (
	findOnce sync.Once
	findings []Finding
)

// Findings parses /verif/KNOWN_FINDINGS.txt (path overridable for tests).
func Findings() []Finding {
	findOnce.Do(func() {
		path := os.Getenv("VERIF_KNOWN_FINDINGS")
		if path == "" {
			path = "/verif/KNOWN_FINDINGS.txt"
		}
		b, err := os.ReadFile(path)
		if err != nil {
			return
		}
		for _, line := range strings.Split(string(b), "\n") {
			line = strings.TrimSpace(line)
			if line == "" || strings.HasPrefix(line, "#") {
				continue
			}
			var f Finding
			switch {
			case strings.HasPrefix(line, "known:"):
				f.Status = "known"
				line = strings.TrimSpace(strings.TrimPrefix(line, "known:"))
			case strings.HasPrefix(line, "fixed:"):
				f.Status = "fixed"
				line = strings.TrimSpace(strings.TrimPrefix(line, "fixed:"))
			default:
				continue
			}
			fields := strings.Fields(line)
			rest := []string{}
			for _, fl := range fields {
				switch {
				case strings.HasPrefix(fl, "property=") && f.Property == "":
					f.Property = strings.TrimPrefix(fl, "property=")
				case strings.HasPrefix(fl, "key=") && f.Key == "":
					f.Key = strings.TrimPrefix(fl, "key=")
				default:
					rest = append(rest, fl)
				}
			}
			f.Text = strings.Join(rest, " ")
			findings = append(findings, f)
		}
	})
	return findings
}

// Known reports whether a finding with this key is listed as known (not
// fixed) for the property; the caller then excludes exactly that input class.
func Known(property, key string) bool {
	for _, f := range Findings() {
		if f.Status == "known" && f.Property == property && f.Key == key {
			return true
		}
	}
	return false
}

var knownPrinted sync.Map

// ReportKnown prints the KNOWN-FINDING line (once per process) for a listed
// finding that the check has just confirmed to be still present.
func ReportKnown(property, key string) {
	for _, f := range Findings() {
		if f.Status == "known" && f.Property == property && f.Key == key {
			if _, dup := knownPrinted.LoadOrStore(property+"/"+key, true); !dup {
				fmt.Printf("KNOWN-FINDING: property=%s key=%s %s\n", property, key, f.Text)
			}
		}
	}
}

// ---------------------------------------------------------------------------
// Wedge watchdog for tests whose cases run in synctest bubbles. A goroutine
// of the code under test that blocks on a lock (not on a channel or timer)
// freezes the bubble's virtual clock, so no in-bubble timeout can fire and
// the case would hang for ever. The watchdog lives outside the bubbles, in
// real time; every recorded case (and explicit Tick calls) counts as
// progress. No progress for the given real-time span means a request, reply
// or shutdown step never returned: the process is wedged. It reports that as
// a test failure with a goroutine dump and exits 1.

var (
	watchMu   sync.Mutex
	watchSeq  int
	watchWhat = "start"
)

// Tick records progress (safe to call from inside bubbles: it only counts).
func Tick(what string) {
	watchMu.Lock()
	watchSeq++
	watchWhat = what
	watchMu.Unlock()
}

// Watch starts the watchdog for a test; call the returned function when the test ends.
func Watch(name string, limit time.Duration) (stop func()) {
	quit := make(chan struct{})
	go func() {
		t := time.NewTicker(2 * time.Second)
		defer t.Stop()
		seen, since := -1, time.Now()
		noted := false
		for {
			select {
			case <-quit:
				return
			case <-t.C:
				watchMu.Lock()
				cur, what := watchSeq, watchWhat
				watchMu.Unlock()
				if cur != seen {
					seen, since = cur, time.Now()
					continue
				}
				if idle := time.Since(since); idle > limit {
					buf := make([]byte, 1<<21)
					n := runtime.Stack(buf, true)
					// A wedge means nothing in the process can run any more. A goroutine that is running or runnable
					// (other than this one) means the process is busy or starved of CPU/memory by the machine: that
					// is not a statement about the code under test - keep waiting (the driver's own deadline turns an
					// endless wait into an inconclusive run).
					if busy := busyGoroutines(string(buf[:n])); busy > 0 {
						if !noted {
							noted = true
							fmt.Printf("vt watchdog: %s: no case finished for %s but %d goroutines are runnable - slow machine, not a wedge\n", name, idle.Round(time.Second), busy)
						}
						continue
					}
					fmt.Printf("--- FAIL: %s\n    WEDGE: no progress for %s after: %s\n    a call, reply or shutdown step never returned and virtual time cannot advance (a goroutine is blocked on a lock for ever); goroutines:\n%s\n", name, idle.Round(time.Second), what, buf[:n])
					os.Exit(1)
				}
			}
		}
	}()
	return func() { close(quit) }
}

// busyGoroutines counts goroutines of a full stack dump that are running or runnable, not counting the one that
// took the dump.
func busyGoroutines(dump string) int {
	n := 0
	for _, blk := range strings.Split(dump, "\n\n") {
		hdr := blk
		if i := strings.IndexByte(blk, '\n'); i >= 0 {
			hdr = blk[:i]
		}
		if !strings.HasPrefix(hdr, "goroutine ") {
			continue
		}
		i := strings.IndexByte(hdr, '[')
		if i < 0 {
			continue
		}
		state := hdr[i+1:]
		if strings.Contains(blk, "vt.Watch") {
			continue // this watchdog
		}
		if lines := strings.SplitN(blk, "\n", 3); len(lines) > 1 && strings.HasPrefix(lines[1], "internal/synctest.Run(") {
			continue // a bubble's own root: it shows as runnable while it waits for the bubble to move
		}
		// waiting for another goroutine (or the network): not busy. Everything else - running, runnable, in a system
		// call (disk I/O on a stalled machine), waiting for the world to be stopped by a stack dump - is.
		idle := false
		for _, p := range []string{"chan receive", "chan send", "select", "sync.Mutex.Lock", "sync.RWMutex", "sync.WaitGroup.Wait", "sync.Cond.Wait", "semacquire", "sleep", "synctest.Run", "synctest.Wait", "IO wait", "finalizer wait", "GC ", "force gc", "debug call"} {
			if strings.HasPrefix(state, p) {
				idle = true
			}
		}
		if strings.HasPrefix(state, "semacquire") && strings.Contains(blk, "runtime.Stack(") {
			idle = false // it wants to take a stack dump itself and waits for ours to finish
		}
		if !idle {
			n++
		}
	}
	return n
}
