#!/bin/bash
# tools/mkgolden.sh - (re)creates /verif/fixtures/badger-golden: a database written by /repo's CURRENT badger driver
# plus the recorded result of every read. Run it only on a tree whose on-disk format is the reference (it was run on
# the tree the checks were built against); TestC13Golden then holds every later tree to it.
set -e
cd "$(dirname "$0")/../harness"
export GOFLAGS=-mod=mod GOPROXY=off GOSUMDB=off GOTOOLCHAIN=local
tmp=$(mktemp -d)
go1.26.8 build -o "$tmp/crashchild" ./cmd/crashchild
mkdir -p "$tmp/db"
"$tmp/crashchild" "$tmp/db" - golden-write | grep -q '^DONE'
cp -r "$tmp/db" "$tmp/probe"
"$tmp/crashchild" "$tmp/probe" - golden-observe | grep '^OBS ' | sed 's/^OBS //' > "$tmp/expected.txt"
out=../fixtures/badger-golden
rm -rf "$out"; mkdir -p "$out"
cp -r "$tmp/db" "$out/db"
cp "$tmp/expected.txt" "$out/expected.txt"
git -C /repo rev-parse HEAD > "$out/written-by-repo-commit.txt"
rm -rf "$tmp"
du -sh "$out"; wc -l "$out/expected.txt"
