#!/bin/bash
# tools/runall.sh quick|thorough [ids...]  - runs the registered checks and prints a summary.
# VERIF_PAR=n runs n checks at a time (default 1; each check already uses up to 8 processes).
tier=${1:-quick}; shift
ids=${@:-C01 C02 C03 C04 C05 C06 C07 C08 C09 C10 C11 C12 C13 C14 C15 C16 C17 C18 C19 C20}
cd "$(dirname "$0")/.."
one() {
  p=$1; tier=$2
  start=$(date +%s)
  out=$(./check $p $tier 2>&1); rc=$?
  echo "$p $tier exit=$rc $(( $(date +%s) - start ))s $(echo "$out" | grep -c '^VIOLATION') violations; $(echo "$out" | grep '^KNOWN-FINDING' | cut -c1-60)"
  if [ $rc -ne 0 ]; then
    echo "$out" | grep -E "^check:|^VIOLATION|\[rapid\] (failed|panic|flaky)|WEDGE|DATA RACE|^panic:|^fatal error:|--- FAIL" | cut -c1-700 | head -60
    echo "$out" | tail -15
  fi
}
export -f one
if [ "${VERIF_PAR:-1}" -gt 1 ]; then
  printf '%s\n' $ids | xargs -P "$VERIF_PAR" -I{} bash -c "one {} $tier"
else
  for p in $ids; do one $p $tier; done
fi
