#!/usr/bin/env python3
"""Confirms a seeded change and runs the checks against it.

  tools/seedcheck.py <src-dir with patch.diff, demo_test.go, meta.json> <seed-id> <property> [more properties...]

1. In a scratch worktree of /repo (under /tmp): the patch applies, the tree builds, the existing suite passes with it,
   the demonstration fails with it and passes without it.
2. Applies the patch to /repo, runs ./check <property> quick (and thorough with --thorough), undoes the patch.
3. Stores patch.diff, the demonstration and meta.json (incl. what was run and what detected it) in /verif/seeded/<seed-id>/.
"""
import json, os, re, shutil, subprocess, sys, time

VERIF = "/verif"


def sh(cmd, cwd=None, timeout=1800, env=None):
    p = subprocess.run(cmd, cwd=cwd, shell=isinstance(cmd, str), stdout=subprocess.PIPE, stderr=subprocess.STDOUT, text=True, timeout=timeout, env=env)
    return p.returncode, p.stdout


def main():
    args = [a for a in sys.argv[1:] if not a.startswith("--")]
    thorough = "--thorough" in sys.argv
    confirm_only = "--confirm-only" in sys.argv
    skip_confirm = "--skip-confirm" in sys.argv
    src, sid, props = args[0], args[1], args[2:]
    patch = os.path.join(src, "patch.diff")
    demo = os.path.join(src, "demo_test.go")
    meta = {}
    try:
        meta = json.load(open(os.path.join(src, "meta.json")))
    except Exception:
        pass
    ran = []
    ok = True
    if not skip_confirm:
        wt = "/tmp/seedconfirm-%s-%d" % (sid, os.getpid())
        rc, out = sh(["git", "-C", "/repo", "worktree", "add", "--detach", wt, "HEAD"])
        try:
            rc, out = sh(["git", "apply", "--check", patch], cwd=wt)
            if rc != 0:
                print("PATCH DOES NOT APPLY:", out)
                return 1
            sh(["git", "apply", patch], cwd=wt)
            rc, out = sh("go build ./... && go test -vet=off -count=1 ./... 2>&1 | tail -30", cwd=wt)
            suite_ok = rc == 0 and "FAIL" not in out
            ran.append({"cmd": "go build ./... && go test -count=1 ./... (patched)", "passed": suite_ok})
            print("existing suite with patch:", "PASS" if suite_ok else "FAIL\n" + out)
            ok = ok and suite_ok
            # demo placement
            txt = open(demo).read()
            m = re.search(r"place\s+(?:this\s+file\s+)?in\s+`?([A-Za-z0-9_./-]+)`?", txt, re.I)
            pkgdir = (m.group(1) if m else ".").strip("/").rstrip(".")
            if pkgdir in ("the", "repo", "root"):
                pkgdir = "."
            dst = os.path.join(wt, pkgdir, "zz_seed_demo_test.go")
            shutil.copy(demo, dst)
            rc1, out1 = sh("go test -vet=off -count=1 ./%s/ 2>&1 | tail -40" % pkgdir, cwd=wt)
            fails_with = "FAIL" in out1 or "panic" in out1
            print("demo with patch:", "FAILS (expected)" if fails_with else "passes?!\n" + out1)
            sh(["git", "apply", "-R", patch], cwd=wt)
            rc2, out2 = sh("go test -vet=off -count=1 ./%s/ 2>&1 | tail -40" % pkgdir, cwd=wt)
            passes_without = "FAIL" not in out2 and "panic" not in out2 and "ok" in out2
            print("demo without patch:", "PASSES (expected)" if passes_without else "fails?!\n" + out2)
            ran.append({"cmd": "go test ./%s/ with demo (patched / unpatched)" % pkgdir, "fails_with_patch": fails_with, "passes_without_patch": passes_without})
            ok = ok and fails_with and passes_without
        finally:
            sh(["git", "-C", "/repo", "worktree", "remove", "--force", wt])
    if not ok:
        print("SEED NOT CONFIRMED")
        return 1
    if confirm_only:
        return 0
    detected = {}
    use_wt = "--worktree" in sys.argv
    target = "/repo"
    env = None
    if use_wt:
        # evaluate in a scratch worktree instead of /repo itself (for use while a background run needs /repo untouched)
        target = "/tmp/seedeval-%s-%d" % (sid, os.getpid())
        rc, out = sh(["git", "-C", "/repo", "worktree", "add", "--detach", target, "HEAD"])
        if rc != 0:
            print("cannot create worktree:", out)
            return 2
        env = dict(os.environ, VERIF_REPO_OVERRIDE=target)
    rc, out = sh(["git", "-C", target, "status", "--short"])
    if out.strip():
        print(target, "is not clean:", out)
        return 2
    rc, out = sh(["git", "-C", target, "apply", patch])
    if rc != 0:
        print("cannot apply to %s:" % target, out)
        if use_wt:
            sh(["git", "-C", "/repo", "worktree", "remove", "--force", target])
        return 2
    try:
        for p in props:
            for tier in (["quick", "thorough"] if thorough else ["quick"]):
                t0 = time.time()
                rc, out = sh(["./check", p, tier], cwd=VERIF, timeout=3600, env=env)
                viol = [l for l in out.splitlines() if l.startswith("VIOLATION")]
                detected["%s/%s" % (p, tier)] = {"exit": rc, "violation_lines": len(viol), "wall_s": round(time.time() - t0, 1)}
                print("check %s %s -> exit %d (%d VIOLATION lines, %.0fs)" % (p, tier, rc, len(viol), time.time() - t0))
                if rc == 1:
                    tail = [l for l in out.splitlines() if "failed after" in l or "panic" in l][:3]
                    print("   ", "\n    ".join(tail))
                    break
    finally:
        if use_wt:
            sh(["git", "-C", "/repo", "worktree", "remove", "--force", target])
            sh(["git", "-C", "/repo", "worktree", "prune"])
        else:
            sh(["git", "-C", "/repo", "checkout", "--", "."])
            sh(["git", "-C", "/repo", "clean", "-fdq"])
    out_dir = os.path.join(VERIF, "seeded", sid)
    os.makedirs(out_dir, exist_ok=True)
    if os.path.abspath(src) != os.path.abspath(out_dir):
        shutil.copy(patch, os.path.join(out_dir, "patch.diff"))
        shutil.copy(demo, os.path.join(out_dir, "demo_test.go"))
    prev = {}
    try:
        prev = json.load(open(os.path.join(out_dir, "meta.json")))
    except Exception:
        pass
    if skip_confirm and prev.get("confirmed"):
        ran = prev["confirmed"]
    history = prev.get("check_history", [])
    if prev.get("checks_run"):
        history.append({"checks_run": prev["checks_run"], "note": "earlier run (before the checks were strengthened)"})
    meta.update({"seed_id": sid, "breaks_property": props[0], "confirmed": ran, "checks_run": detected,
                 "detected_by": [k for k, v in detected.items() if v["exit"] == 1], "check_history": history})
    json.dump(meta, open(os.path.join(out_dir, "meta.json"), "w"), indent=1)
    # replays produced against a seeded change do not belong to the unchanged tree
    for p in props:
        shutil.rmtree(os.path.join(VERIF, "replays", p), ignore_errors=True)
    return 0


if __name__ == "__main__":
    sys.exit(main())
