#!/usr/bin/env python3
"""Regenerates /verif/MANIFEST.json from tools/claims.json (per-property text) and the property list."""
import json, os
V = os.path.dirname(os.path.dirname(os.path.abspath(__file__)))
claims = json.load(open(os.path.join(V, "tools", "claims.json")))
props = [json.loads(l)["id"] for l in open(os.path.join(V, "properties.jsonl"))]
checks, na = [], []
for pid in props:
    c = claims.get(pid)
    if not c or c.get("not_applicable"):
        na.append({"property_id": pid, "reason": (c or {}).get("not_applicable", "check not built yet in this round; no claim is made")})
        continue
    checks.append({
        "property_id": pid,
        "quick_cmd": "./check %s quick" % pid,
        "thorough_cmd": "./check %s thorough" % pid,
        "evidence_file": "/verif/evidence/%s.json" % pid,
        "replay_cmd_template": "./check %s --replay {path}" % pid,
        "engine": "props",
        "level_claimed": {"category": c.get("category", "exploration"), "text": c["text"], "design_ref": c.get("design_ref", "DESIGN.md §4 " + pid)},
        "level_note": c["note"],
        "technique": c["technique"],
    })
m = {
    "version": 1,
    "setup_cmd": "./check --setup",
    "hooks": {
        "guard": "verif",
        "enable": "go test -tags verif (the harness module /verif/harness replaces github.com/vipnode/vipnode/v2 with /repo, so every check rebuilds the current working tree)",
        "baseline_off_cmd": "cd /repo && go build ./... && go test -vet=off -count=1 -timeout 25m ./...",
        "source_commits": [],
        "add_only": True,
    },
    "engines": [{
        "name": "props", "path": "/verif/harness",
        "serves_properties": [c["property_id"] for c in checks],
        "kind_free_text": "Go test binary (pgregory.net/rapid v1.3.0 generators and state machines, testing/synctest virtual time via rapid.SyncTest, native go fuzzing in the thorough tier) built by /verif/check from /repo's working tree; evidence recorder in harness/vt",
    }],
    "checks": checks,
    "not_applicable": na,
    "notes": "Property-based testing and fuzzing only. No hooks were needed in /repo (build tag 'verif' guards nothing). Genuine defects are repaired by 'fix:' commits in /repo and listed in /verif/KNOWN_FINDINGS.txt.",
}
json.dump(m, open(os.path.join(V, "MANIFEST.json"), "w"), indent=1)
print("claimed:", [c["property_id"] for c in checks], "n/a:", [x["property_id"] for x in na])
