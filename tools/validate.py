#!/usr/bin/env python3
import json, glob, jsonschema, sys
jsonschema.validate(json.load(open('/verif/MANIFEST.json')), json.load(open('/root/.vp/MANIFEST.schema.json')))
s = json.load(open('/root/.vp/EVIDENCE.schema.json'))
for f in sorted(glob.glob('/verif/evidence/*.json')):
    jsonschema.validate(json.load(open(f)), s)
print("manifest + %d evidence files valid" % len(glob.glob('/verif/evidence/*.json')))
